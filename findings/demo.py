#!/venv/bin/python
"""Demonstrations of the genuine halmos defects reported by the static rules.

NOT part of any check (the checks never import halmos).  This script exists so that each
`fix:` commit / known finding is backed by a failing input against the real code:

    /venv/bin/python /verif/findings/demo.py            # run all
    /venv/bin/python /verif/findings/demo.py F-C06-1    # run one

Each demo prints DEFECT (the bad behaviour is observed) or OK (behaves as the property demands).
"""

import sys
import threading
import time


def _sevm():
    from halmos.__main__ import mk_block
    from halmos.calldata import FunctionInfo
    from halmos.config import default_config
    from halmos.sevm import SEVM, CallContext, Contract, Message, Path
    from halmos.utils import EVM, con_addr, create_solver
    from z3 import Array, BitVecSort

    args = default_config()
    sevm = SEVM(args, FunctionInfo("Test", "test", "test()", "f8a8fd6d"))

    def run(hexcode, static=False, code_extra=None, value=0):
        this = con_addr(0xAAAA)
        pgm = Contract.from_hexcode(hexcode)
        code = {this: pgm}
        if code_extra:
            for a, hx in code_extra.items():
                code[con_addr(a)] = Contract.from_hexcode(hx)
        msg = Message(target=this, caller=con_addr(0xBBBB), origin=con_addr(0xBBBB), value=value, data=__import__("halmos.bytevec", fromlist=["ByteVec"]).ByteVec(), call_scheme=EVM.CALL, is_static=static)
        ex = sevm.mk_exec(
            code=code,
            storage={a: sevm.mk_storagedata() for a in code},
            transient_storage={a: sevm.mk_storagedata() for a in code},
            balance=Array("balance_00", BitVecSort(160), BitVecSort(256)),
            block=mk_block(),
            context=CallContext(message=msg),
            pgm=pgm,
            path=Path(create_solver()),
        )
        from halmos.utils import con

        for a in code:
            ex.balance_update(a, con(10**18))
        return list(sevm.run(ex))

    return sevm, run


def d_c06_1():
    """ADDMOD / MULMOD with concrete operands and modulus 0 (EVM: 0)"""
    from halmos.bitvec import HalmosBitVec as BV

    out = []
    for name in ("addmod", "mulmod"):
        try:
            r = getattr(BV(5), name)(BV(7), BV(0))
            out.append(f"{name}(5,7,0) = {r}")
            bad = int(r) != 0
        except ZeroDivisionError as e:
            out.append(f"{name}(5,7,0) raised ZeroDivisionError")
            bad = True
    return bad, "; ".join(out)


def d_c06_2():
    """EXP with a huge concrete exponent must return promptly"""
    import subprocess

    prog = (
        "from halmos.bitvec import HalmosBitVec as BV\n"
        "r = BV(3).exp(BV(2**200 + 1))\n"
        "print(int(r) == pow(3, 2**200 + 1, 2**256))\n"
    )
    t0 = time.time()
    try:
        p = subprocess.run([sys.executable, "-c", prog], capture_output=True, text=True, timeout=5)
    except subprocess.TimeoutExpired:
        return True, "3 ** (2**200+1) still running after 5 s in a child process (would never finish)"
    return p.stdout.strip() != "True", f"returned in {time.time() - t0:.2f}s, equals pow(3, e, 2**256): {p.stdout.strip()} {p.stderr.strip()[-80:]}"


def d_c06_3():
    """sdiv of symbolic operands without an abstraction"""
    from halmos.bitvec import HalmosBitVec as BV

    try:
        r = BV("x").sdiv(BV("y"))
        return False, f"x sdiv y = {r}"
    except TypeError as e:
        return True, f"TypeError: {e}"


def d_c06_4():
    """NOT applied to a Bool-typed stack top: NOT(LT(1,2)) must be 2**256-2"""
    _, run = _sevm()
    # PUSH1 2 PUSH1 1 LT NOT PUSH0 MSTORE PUSH1 32 PUSH0 RETURN
    exs = run("6002600110195f5260205ff3")
    data = exs[0].context.output.data
    v = int.from_bytes(data.unwrap(), "big") if isinstance(data.unwrap(), bytes) else data.unwrap()
    return v != 2**256 - 2, f"NOT(LT(1,2)) returned {v:#x}"


def d_c01_2():
    """BLOCKHASH of a Bool-typed / symbolic operand"""
    _, run = _sevm()
    # PUSH1 2 PUSH1 1 LT BLOCKHASH STOP
    try:
        exs = run("600260011040" + "00")
        err = exs[0].context.output.error
        return err is not None, f"end state error={err!r}"
    except Exception as e:
        return True, f"{type(e).__name__} escaped SEVM.run: {str(e)[:60]}"


def d_c19_1():
    """EXTCODECOPY from an account without code, offset 16, size 32, must write 32 zero bytes"""
    _, run = _sevm()
    # fill memory[0:32] with ff..ff, then EXTCODECOPY(addr=0x1234, dest=0, offset=16, size=32), return mem[0:32]
    code = "7f" + "ff" * 32 + "5f52" + "6020" + "6010" + "5f" + "611234" + "3c" + "60205ff3"
    exs = run(code)
    data = exs[0].context.output.data.unwrap()
    return data != b"\x00" * 32, f"memory after EXTCODECOPY = {data.hex() if isinstance(data, bytes) else data}"


def d_c18_1():
    """ParseTimeout round trip"""
    from halmos.config import ParseTimeout

    out, bad = [], False
    for v in (1.5, 0.0005, 2.0, 0.25):
        s = ParseTimeout.unparse(v)
        back = ParseTimeout.parse(s)
        out.append(f"{v} -> {s!r} -> {back}")
        bad = bad or back != v
    return bad, "; ".join(out)


def d_c17_1():
    """submit() racing with shutdown(wait=False): forced schedule (shutdown starts between flag test and registration)"""
    from halmos.processes import PopenExecutor, PopenFuture, ShutdownError

    ex = PopenExecutor()
    fut = PopenFuture(["sleep", "2"])
    swept = {"n": 0, "done_before_registration": False}
    orig_cancel = fut.cancel

    def counting_cancel():
        swept["n"] += 1
        return orig_cancel()

    fut.cancel = counting_cancel
    orig_is_set = ex._shutdown.is_set
    fired = {"n": 0}
    t = {}

    def is_set_then_shutdown():
        r = orig_is_set()
        if fired["n"] == 0:
            fired["n"] = 1
            # another thread requests an immediate shutdown right after submit's flag test
            t["th"] = threading.Thread(target=lambda: ex.shutdown(wait=False))
            t["th"].start()
            t["th"].join(0.5)  # it either finishes (lock free) or blocks on the lock held by submit
            swept["done_before_registration"] = not t["th"].is_alive()
        return r

    ex._shutdown.is_set = is_set_then_shutdown
    try:
        ex.submit(fut)
        accepted = True
    except ShutdownError:
        accepted = False
    t["th"].join(3)
    time.sleep(0.3)
    n_sweep = swept["n"]
    missed = accepted and n_sweep == 0
    swept["n"] = n_sweep
    if fut.is_running():
        orig_cancel()
    return missed, f"job accepted: {accepted}; shutdown(wait=False) returned before the job was registered: {swept['done_before_registration']}; sweep cancelled the job {n_sweep} time(s)"


def d_c17_2():
    """cancel() that arrives before the process exists is lost (forced schedule)"""
    from halmos import processes
    from halmos.processes import PopenFuture

    gate = threading.Event()
    orig_popen = processes.Popen

    def slow_popen(*a, **k):
        gate.wait(2)  # the sweep runs while the worker is between start() and Popen(...)
        return orig_popen(*a, **k)

    processes.Popen = slow_popen
    try:
        fut = PopenFuture(["sleep", "2"])
        fut.start()
        fut.cancel()  # shutdown sweep
        gate.set()
        time.sleep(0.4)
        running = bool(fut.is_running())
        if running:
            fut.cancel()
    finally:
        processes.Popen = orig_popen
    return running, f"process running after the cancelling sweep returned: {running}"


def d_c19_2():
    """JUMPDEST inside a concrete-valued symbolic chunk: decoder sees it, scanner does not"""
    from z3 import BitVec, BitVecVal, Concat

    from halmos.bytevec import ByteVec
    from halmos.sevm import Contract

    code = ByteVec(bytes.fromhex("600356"))
    code.append(Concat(BitVecVal(0x5B, 8), BitVecVal(0, 8), BitVec("x", 8)))
    c = Contract(code)
    insn = c.decode_instruction(3)
    vj = c.valid_jumpdests()
    return insn.opcode == 0x5B and 3 not in vj, f"decode_instruction(3).opcode = {insn.opcode:#x}; valid_jumpdests() = {sorted(vj)}"


def d_c10_1():
    """loop bound hit inside an invariant target call is never reported"""
    import logging

    from halmos.__main__ import mk_block, run_target_function
    from halmos.calldata import FunctionInfo
    from halmos.config import ConfigSource, default_config
    from halmos.sevm import SEVM, CallContext, Contract, Message, Path
    from halmos.utils import EVM, con_addr, create_solver
    from z3 import Array, BitVec, BitVecSort

    records = []

    class H(logging.Handler):
        def emit(self, r):
            records.append(r.getMessage())

    for name in ("halmos", "halmos.unique"):
        logging.getLogger(name).addHandler(H())
    args = default_config().with_overrides(ConfigSource.command_line, loop=1)
    # f(uint256 n): i = 0; while (i < n) i++   (symbolic loop condition)
    # JUMPDEST(0) ; calldata[4] > i ? loop : stop
    code = "5f" + "5b" + "80" + "600435" + "11" + "6010" + "57" + "00" + "00" * 5 + "5b" + "6001" + "01" + "6001" + "56"
    # layout: 0:PUSH0 1:JUMPDEST 2:DUP1 3:PUSH1 4 5:CALLDATALOAD 6:GT 7:PUSH1 0x10 9:JUMPI 10:STOP ... 16:JUMPDEST 17:PUSH1 1 19:ADD 20:PUSH1 1 22:JUMP
    addr = con_addr(0xCCCC)
    pgm = Contract.from_hexcode(code)
    sevm = SEVM(args, FunctionInfo("T", "f", "f(uint256)", "b3de648b"))
    from halmos.bytevec import ByteVec
    import halmos.sevm as S

    made = []
    orig_init = S.SEVM.__init__

    def init(self, *a, **k):
        orig_init(self, *a, **k)
        made.append(self)

    S.SEVM.__init__ = init
    msg = Message(target=addr, caller=con_addr(1), origin=con_addr(1), value=0, data=ByteVec(), call_scheme=EVM.CALL)
    ex = sevm.mk_exec(code={addr: pgm}, storage={addr: sevm.mk_storagedata()}, transient_storage={addr: sevm.mk_storagedata()}, balance=Array("balance_00", BitVecSort(160), BitVecSort(256)), block=mk_block(), context=CallContext(message=msg), pgm=pgm, path=Path(create_solver()))
    ex.path_slice()
    abi = {"f(uint256)": {"inputs": [{"name": "n", "type": "uint256"}], "stateMutability": "nonpayable"}}
    fi = FunctionInfo("T", "f", "f(uint256)", "b3de648b")
    outs = list(run_target_function(args, ex, addr, abi, fi, BitVec("o", 160), BitVec("s", 160), BitVec("v", 256)))
    S.SEVM.__init__ = orig_init
    reported = [r for r in records if "loop unrolling bound" in r]
    hit = sum(len(x.logs.bounded_loops) for x in made)
    return hit > 0 and not reported, f"{len(outs)} end states from the target call under --loop 1; engine recorded {hit} bounded loop(s); LOOP_BOUND warnings emitted: {len(reported)}"


def d_c10_2():
    """--depth warning is emitted once per process (second run silent)"""
    import logging

    records = []

    class H(logging.Handler):
        def emit(self, r):
            records.append(r.getMessage())

    sevm, run = _sevm()
    from halmos.config import ConfigSource

    sevm.options = sevm.options.with_overrides(ConfigSource.command_line, depth=2)
    h = H()
    logging.getLogger("halmos").addHandler(h)
    # the unique logger filters before handlers of the parent see the record
    counts = []
    for _ in range(3):
        before = len(records)
        run("5f5f5f5f5f00")
        counts.append(len([r for r in records[before:] if "--depth" in r]))
    return counts[0] >= 1 and counts[1] == 0, f"depth warnings per run: {counts}"


def d_c09_1():
    """value-bearing CALL inside a static frame must fail (flag 0)"""
    _, run = _sevm()
    # inner (0xDDDD): CALL(gas=0,to=0xEEEE,value=1,0,0,0,0) ; store flag ; return it
    inner = "5f5f5f5f600161eeee5af1" + "5f5260205ff3"
    # outer: STATICCALL(gas, 0xDDDD, 0,0,0,32) ; return mem[0:32] (= inner flag)
    outer = "60205f5f5f61dddd5afa" + "50" + "60205ff3"
    exs = run(outer, code_extra={0xDDDD: inner})
    vals = []
    for e in exs:
        d = e.context.output.data.unwrap()
        vals.append(int.from_bytes(d, "big") if isinstance(d, bytes) else str(d))
    return any(v == 1 for v in vals), f"inner CALL(value=1) flag inside STATICCALL frame, per path: {vals} (EVM: 0)"


DEMOS = {
    "F-C06-1": d_c06_1,
    "F-C06-2": d_c06_2,
    "F-C06-3": d_c06_3,
    "F-C06-4": d_c06_4,
    "F-C01-2": d_c01_2,
    "F-C19-1": d_c19_1,
    "F-C19-2": d_c19_2,
    "F-C18-1": d_c18_1,
    "F-C17-1": d_c17_1,
    "F-C17-2": d_c17_2,
    "F-C10-1": d_c10_1,
    "F-C10-2": d_c10_2,
    "F-C09-1": d_c09_1,
}

if __name__ == "__main__":
    sel = sys.argv[1:] or list(DEMOS)
    for k in sel:
        try:
            bad, msg = DEMOS[k]()
            print(f"{k}: {'DEFECT' if bad else 'OK    '} {DEMOS[k].__doc__.strip()} :: {msg}")
        except Exception as e:
            import traceback

            traceback.print_exc()
            print(f"{k}: DEMO-ERROR {type(e).__name__}: {e}")
