"""
Common harness: hand-assembled EVM contracts + in-process halmos invariant run.
(inlined into every demo.py so that the demos are standalone)
"""

import contextlib
import io
import sys
import time

# ----------------------------------------------------------------------------
# tiny EVM assembler
# ----------------------------------------------------------------------------

OPS = {
    "STOP": 0x00, "ADD": 0x01, "MUL": 0x02, "SUB": 0x03, "LT": 0x10, "GT": 0x11,
    "EQ": 0x14, "ISZERO": 0x15, "AND": 0x16, "OR": 0x17, "NOT": 0x19, "SHL": 0x1B,
    "SHR": 0x1C, "ADDRESS": 0x30, "CALLER": 0x33, "CALLVALUE": 0x34,
    "CALLDATALOAD": 0x35, "CALLDATASIZE": 0x36, "CODECOPY": 0x39,
    "TIMESTAMP": 0x42, "POP": 0x50, "MLOAD": 0x51, "MSTORE": 0x52, "SLOAD": 0x54,
    "SSTORE": 0x55, "JUMP": 0x56, "JUMPI": 0x57, "GAS": 0x5A, "JUMPDEST": 0x5B,
    "DUP1": 0x80, "DUP2": 0x81, "DUP3": 0x82, "SWAP1": 0x90, "CREATE": 0xF0,
    "CALL": 0xF1, "RETURN": 0xF3, "STATICCALL": 0xFA, "REVERT": 0xFD,
}


def asm(src: str, consts: dict | None = None) -> bytes:
    """
    tokens: MNEMONIC | <int literal> (PUSH, minimal width) | @label (PUSH2 label)
            | label: (JUMPDEST) | $name (PUSH2 of consts[name])
    """
    consts = consts or {}
    toks = []
    for line in src.splitlines():
        line = line.split(";")[0]
        toks.extend(line.split())

    def items(labels):
        out = []
        for t in toks:
            if t.endswith(":"):
                out.append(("label", t[:-1], bytes([0x5B])))
            elif t.startswith("@"):
                v = labels.get(t[1:], 0)
                out.append(("code", None, bytes([0x61]) + v.to_bytes(2, "big")))
            elif t.startswith("$"):
                v = consts[t[1:]]
                out.append(("code", None, bytes([0x61]) + v.to_bytes(2, "big")))
            elif t in OPS:
                out.append(("code", None, bytes([OPS[t]])))
            else:
                v = int(t, 0)
                n = max(1, (v.bit_length() + 7) // 8)
                out.append(("code", None, bytes([0x5F + n]) + v.to_bytes(n, "big")))
        return out

    labels = {}
    pc = 0
    for kind, name, b in items({}):
        if kind == "label":
            labels[name] = pc
        pc += len(b)
    return b"".join(b for _, _, b in items(labels))


def initcode_for(runtime: bytes, prefix_src: str = "", blobs: dict | None = None) -> bytes:
    """
    Creation code: [prefix] ; codecopy(0, rt_off, rt_len); return(0, rt_len) ; runtime ; blobs...
    prefix_src may reference $<blob>_off / $<blob>_len for each blob.
    """
    blobs = blobs or {}

    def build(consts):
        head = asm(
            prefix_src
            + """
            $rt_len $rt_off 0 CODECOPY
            $rt_len 0 RETURN
            """,
            consts,
        )
        return head

    consts = {"rt_len": len(runtime), "rt_off": 0}
    for name, blob in blobs.items():
        consts[f"{name}_off"] = 0
        consts[f"{name}_len"] = len(blob)
    head_len = len(build(consts))
    off = head_len
    consts["rt_off"] = off
    off += len(runtime)
    for name, blob in blobs.items():
        consts[f"{name}_off"] = off
        off += len(blob)
    head = build(consts)
    assert len(head) == head_len
    return head + runtime + b"".join(blobs.values())


PANIC1 = """
    0x4e487b71 224 SHL 0 MSTORE
    1 4 MSTORE
    0x24 0 REVERT
"""

DISPATCH_HEAD = "0 CALLDATALOAD 224 SHR\n"


def dispatch(entries: dict) -> str:
    """entries: selector(int) -> label"""
    s = DISPATCH_HEAD
    for sel, label in entries.items():
        s += f"DUP1 {sel:#x} EQ @{label} JUMPI\n"
    s += "0 0 REVERT\n"
    return s


def fn_abi(name, inputs=(), mutability="nonpayable", outputs=()):
    return {
        "type": "function",
        "name": name,
        "inputs": [{"name": f"a{i}", "type": t, "internalType": t} for i, t in enumerate(inputs)],
        "outputs": [{"name": "", "type": t, "internalType": t} for t in outputs],
        "stateMutability": mutability,
    }


def contract_json(abi, method_identifiers, creation: bytes, runtime: bytes) -> dict:
    return {
        "abi": abi,
        "methodIdentifiers": method_identifiers,
        "bytecode": {"object": "0x" + creation.hex(), "linkReferences": {}},
        "deployedBytecode": {"object": "0x" + runtime.hex()},
    }


def run_invariants(test_name, contracts: dict, funsigs, depth, extra_args=(), inv_ctx=None):
    """
    contracts: name -> contract_json;  test_name is the test contract.
    Returns (list[TestResult], captured stdout, ContractContext)
    """
    import halmos.__main__ as hm
    from halmos.config import default_config
    from halmos.solve import ContractContext

    from halmos.config import ConfigSource, arg_parser

    cli = ["--solver", "z3", "--invariant-depth", str(depth), "--no-status", *extra_args]
    overrides = arg_parser().parse_args(cli)
    args = default_config().with_overrides(
        ConfigSource.command_line,
        **{k: v for k, v in vars(overrides).items() if v is not None},
    )

    build_out_map = {
        "Demo.sol": {name: (cj, "contract", None) for name, cj in contracts.items()}
    }
    cj = contracts[test_name]
    ctx = ContractContext(
        args=args,
        name=test_name,
        funsigs=list(funsigs),
        creation_hexcode=cj["bytecode"]["object"],
        deployed_hexcode=cj["deployedBytecode"]["object"],
        abi=hm.get_abi(cj),
        method_identifiers=cj["methodIdentifiers"],
        contract_json=cj,
        libs={},
        build_out_map=build_out_map,
    )

    if inv_ctx is not None:
        hm.get_invariant_testing_context = lambda _ctx, _ex: inv_ctx(_ctx, _ex)

    buf = io.StringIO()
    with contextlib.redirect_stdout(buf):
        results = hm.run_contract(ctx)
        # probes (assertions inside targets) are solved asynchronously
        time.sleep(0.5)
    return results, buf.getvalue(), ctx


# ----------------------------------------------------------------------------
# Demonstrations for two invariant-testing findings (documentation, not checks):
#   F-C15-1  an assertion failure inside a target function ("probe") prints a counterexample but no test fails
#   F-C10-3  with --early-exit the frontier cache of a depth is published before it is complete; a later
#            invariant test silently reuses the partial frontier and reports a clean PASS
# usage: /venv/bin/python /verif/findings/demo_invariant.py [F-C15-1|F-C10-3]
# ----------------------------------------------------------------------------


def contracts_probe():
    # contract Target { function boom(uint256 x) external { assert(x != 42); } }
    # contract DemoTest { Target t; function invariant_true() external view {} }
    BOOM, INV = 0xAAAA0001, 0xBBBB0001
    target_rt = asm(dispatch({BOOM: "boom"}) + """
    boom:
        POP
        4 CALLDATALOAD 42 EQ ISZERO @ok JUMPI
    """ + PANIC1 + """
    ok:
        STOP
    """)
    target_init = initcode_for(target_rt)
    test_rt = asm(dispatch({INV: "inv"}) + """
    inv:
        POP
        STOP
    """)
    test_init = initcode_for(test_rt, prefix_src="""
        $child_len $child_off 0 CODECOPY
        $child_len 0 0 CREATE
        0 SSTORE
    """, blobs={"child": target_init})
    return {
        "Target": contract_json([fn_abi("boom", inputs=("uint256",))], {"boom(uint256)": f"{BOOM:08x}"}, target_init, target_rt),
        "DemoTest": contract_json([fn_abi("invariant_true")], {"invariant_true()": f"{INV:08x}"}, test_init, test_rt),
    }


def demo_probe():
    res, out, ctx = run_invariants("DemoTest", contracts_probe(), ["invariant_true()"], depth=1)
    time.sleep(1.0)
    detected = "Assertion failure detected" in out
    codes = [r.exitcode for r in res]
    bad = detected and codes == [0]
    print(f"F-C15-1: {'DEFECT' if bad else 'OK    '} target assertion boom(42) reachable at depth 1; halmos printed a probe counterexample: {detected}; test exit codes: {codes} (C15: a sequence that breaks an assertion inside a target yields FAIL)")
    return bad


def contracts_two_invariants():
    # contract Target { uint a; uint b; uint c; function f1() { a = 1; } function f2() { c = 1; } function f3() { b = 1; } function ga()/gb() view }
    # contract DemoTest { Target t; invariant_a: t.a == 0; invariant_b: t.b == 0 }
    F1, F2, F3, GA, GB, IA, IB = 0xAAAA0001, 0xAAAA0002, 0xAAAA0005, 0xAAAA0003, 0xAAAA0004, 0xBBBB0001, 0xBBBB0002
    target_rt = asm(dispatch({F1: "f1", F2: "f2", F3: "f3", GA: "ga", GB: "gb"}) + """
    f1:
        POP
        1 0 SSTORE
        STOP
    f2:
        POP
        1 2 SSTORE
        STOP
    f3:
        POP
        1 1 SSTORE
        STOP
    ga:
        POP
        0 SLOAD 0 MSTORE
        32 0 RETURN
    gb:
        POP
        1 SLOAD 0 MSTORE
        32 0 RETURN
    """)
    target_init = initcode_for(target_rt)

    def inv(getter):
        return f"""
        POP
        {getter:#x} 224 SHL 0 MSTORE
        32 0 4 0 0 SLOAD GAS STATICCALL POP
        0 MLOAD ISZERO @ok{getter} JUMPI
        """ + PANIC1 + f"""
    ok{getter}:
        STOP
    """

    test_rt = asm(dispatch({IA: "inva", IB: "invb"}) + "inva:\n" + inv(GA) + "invb:\n" + inv(GB))
    test_init = initcode_for(test_rt, prefix_src="""
        $child_len $child_off 0 CODECOPY
        $child_len 0 0 CREATE
        0 SSTORE
    """, blobs={"child": target_init})
    return {
        "Target": contract_json(
            [fn_abi("f1"), fn_abi("f2"), fn_abi("f3"), fn_abi("ga", mutability="view", outputs=("uint256",)), fn_abi("gb", mutability="view", outputs=("uint256",))],
            {"f1()": f"{F1:08x}", "f2()": f"{F2:08x}", "f3()": f"{F3:08x}", "ga()": f"{GA:08x}", "gb()": f"{GB:08x}"}, target_init, target_rt),
        "DemoTest": contract_json([fn_abi("invariant_a"), fn_abi("invariant_b")], {"invariant_a()": f"{IA:08x}", "invariant_b()": f"{IB:08x}"}, test_init, test_rt),
    }


def demo_partial_frontier():
    import halmos.__main__ as hm

    sigs = ["invariant_a()", "invariant_b()"]
    res_full, _, _ = run_invariants("DemoTest", contracts_two_invariants(), sigs, depth=1)
    full = [r.exitcode for r in res_full]
    # same run with --early-exit; the exploration is slowed down between target functions so that the solver
    # answer for invariant_a arrives before the frontier of depth 1 is complete (a schedule, not a code change)
    orig = hm.run_target_function

    def slow(*a, **k):
        yield from orig(*a, **k)
        time.sleep(1.5)

    hm.run_target_function = slow
    try:
        res_ee, out, ctx = run_invariants("DemoTest", contracts_two_invariants(), sigs, depth=1, extra_args=("--early-exit",))
    finally:
        hm.run_target_function = orig
    ee = [r.exitcode for r in res_ee]
    n_frontier = len(ctx.frontier_states.get(1, []))
    warned = "incomplete" in out or "early" in out.lower()
    bad = full == [1, 1] and ee[0] == 1 and ee[1] == 0
    print(f"F-C10-3: {'DEFECT' if bad else 'OK    '} two invariants each broken by one call; without --early-exit exit codes {full}; with --early-exit {ee}; cached frontier at depth 1 holds {n_frontier} state(s) (complete = 3); invariant_b reported PASS without any incompleteness warning: {ee[1] == 0 and not warned}")
    return bad


if __name__ == "__main__":
    sel = sys.argv[1:] or ["F-C15-1", "F-C10-3"]
    rc = 0
    if "F-C15-1" in sel:
        rc |= demo_probe()
    if "F-C10-3" in sel:
        rc |= demo_partial_frontier()
    sys.exit(0)
