"""EVM instruction table (Yellow Paper appendix H + EIPs 145, 1014, 1052, 1153, 1344, 1884,
3198, 3855, 5656): value -> (mnemonic, delta = items removed, alpha = items added).

Frozen spec oracle; the repo's own three opcode tables are compared against it (R19.5) and
the dispatcher's stack effects are compared against delta/alpha (R01.2).
"""

OPS: dict[int, tuple[str, int, int]] = {
    0x00: ("STOP", 0, 0),
    0x01: ("ADD", 2, 1),
    0x02: ("MUL", 2, 1),
    0x03: ("SUB", 2, 1),
    0x04: ("DIV", 2, 1),
    0x05: ("SDIV", 2, 1),
    0x06: ("MOD", 2, 1),
    0x07: ("SMOD", 2, 1),
    0x08: ("ADDMOD", 3, 1),
    0x09: ("MULMOD", 3, 1),
    0x0A: ("EXP", 2, 1),
    0x0B: ("SIGNEXTEND", 2, 1),
    0x10: ("LT", 2, 1),
    0x11: ("GT", 2, 1),
    0x12: ("SLT", 2, 1),
    0x13: ("SGT", 2, 1),
    0x14: ("EQ", 2, 1),
    0x15: ("ISZERO", 1, 1),
    0x16: ("AND", 2, 1),
    0x17: ("OR", 2, 1),
    0x18: ("XOR", 2, 1),
    0x19: ("NOT", 1, 1),
    0x1A: ("BYTE", 2, 1),
    0x1B: ("SHL", 2, 1),
    0x1C: ("SHR", 2, 1),
    0x1D: ("SAR", 2, 1),
    0x20: ("SHA3", 2, 1),
    0x30: ("ADDRESS", 0, 1),
    0x31: ("BALANCE", 1, 1),
    0x32: ("ORIGIN", 0, 1),
    0x33: ("CALLER", 0, 1),
    0x34: ("CALLVALUE", 0, 1),
    0x35: ("CALLDATALOAD", 1, 1),
    0x36: ("CALLDATASIZE", 0, 1),
    0x37: ("CALLDATACOPY", 3, 0),
    0x38: ("CODESIZE", 0, 1),
    0x39: ("CODECOPY", 3, 0),
    0x3A: ("GASPRICE", 0, 1),
    0x3B: ("EXTCODESIZE", 1, 1),
    0x3C: ("EXTCODECOPY", 4, 0),
    0x3D: ("RETURNDATASIZE", 0, 1),
    0x3E: ("RETURNDATACOPY", 3, 0),
    0x3F: ("EXTCODEHASH", 1, 1),
    0x40: ("BLOCKHASH", 1, 1),
    0x41: ("COINBASE", 0, 1),
    0x42: ("TIMESTAMP", 0, 1),
    0x43: ("NUMBER", 0, 1),
    0x44: ("DIFFICULTY", 0, 1),
    0x45: ("GASLIMIT", 0, 1),
    0x46: ("CHAINID", 0, 1),
    0x47: ("SELFBALANCE", 0, 1),
    0x48: ("BASEFEE", 0, 1),
    0x49: ("BLOBHASH", 1, 1),
    0x4A: ("BLOBBASEFEE", 0, 1),
    0x50: ("POP", 1, 0),
    0x51: ("MLOAD", 1, 1),
    0x52: ("MSTORE", 2, 0),
    0x53: ("MSTORE8", 2, 0),
    0x54: ("SLOAD", 1, 1),
    0x55: ("SSTORE", 2, 0),
    0x56: ("JUMP", 1, 0),
    0x57: ("JUMPI", 2, 0),
    0x58: ("PC", 0, 1),
    0x59: ("MSIZE", 0, 1),
    0x5A: ("GAS", 0, 1),
    0x5B: ("JUMPDEST", 0, 0),
    0x5C: ("TLOAD", 1, 1),
    0x5D: ("TSTORE", 2, 0),
    0x5E: ("MCOPY", 3, 0),
    0x5F: ("PUSH0", 0, 1),
    0xA0: ("LOG0", 2, 0),
    0xA1: ("LOG1", 3, 0),
    0xA2: ("LOG2", 4, 0),
    0xA3: ("LOG3", 5, 0),
    0xA4: ("LOG4", 6, 0),
    0xF0: ("CREATE", 3, 1),
    0xF1: ("CALL", 7, 1),
    0xF2: ("CALLCODE", 7, 1),
    0xF3: ("RETURN", 2, 0),
    0xF4: ("DELEGATECALL", 6, 1),
    0xF5: ("CREATE2", 4, 1),
    0xFA: ("STATICCALL", 6, 1),
    0xFD: ("REVERT", 2, 0),
    0xFE: ("INVALID", 0, 0),
    0xFF: ("SELFDESTRUCT", 1, 0),
}
for _i in range(1, 33):
    OPS[0x5F + _i] = (f"PUSH{_i}", 0, 1)
for _i in range(1, 17):
    OPS[0x7F + _i] = (f"DUP{_i}", _i, _i + 1)
    OPS[0x8F + _i] = (f"SWAP{_i}", _i + 1, _i + 1)

BY_NAME = {name: (val, d, a) for val, (name, d, a) in OPS.items()}

# opcodes that the spec defines but halmos does not list in its tables (not an error)
OPTIONAL = {"BLOBHASH", "BLOBBASEFEE"}
# aliases accepted for a mnemonic
ALIASES = {"KECCAK256": "SHA3", "PREVRANDAO": "DIFFICULTY"}


def push_len(v: int) -> int:
    """instruction length in bytes"""
    return 1 + (v - 0x5F) if 0x60 <= v <= 0x7F else 1
