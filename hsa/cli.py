"""/verif/check <Cxx> [--tier quick|thorough] [--replay path]

exit 0  every rule instance held (KNOWN-FINDING lines allowed)
exit 1  VIOLATION property=<id> replay=<path>  (one line per unlisted violation)
exit 2  ANALYSIS-ERROR: the checker could not decide (anchor gone, unknown idiom, self-test failed)
"""

from __future__ import annotations

import argparse
import importlib
import json
import os
import sys
import time
import traceback

from hsa import core
from hsa.core import AnalysisError, Repo, Report

PROPS = [f"C{i:02d}" for i in range(1, 21)]


def load_rules(prop: str):
    return importlib.import_module(f"hsa.rules.{prop.lower()}")


def run_property(prop: str, repo: Repo, tier: str = "quick") -> Report:
    mod = load_rules(prop)
    rep = Report(prop)
    rep.units["modules_parsed"] = len(repo.modules)
    rep.units["functions_indexed"] = sum(
        1 for m in repo.modules.values() for _ in m.defs
    )
    rep.units["source_sha256"] = repo.digest.hexdigest()
    for fn in mod.RULES:
        try:
            fn(repo, rep)
        except AnalysisError as e:
            rep.errors.append(f"{fn.__name__}: {e}")
        except Exception as e:  # a crash of the checker is an analysis error, not a verdict
            tb = traceback.format_exc(limit=6)
            rep.errors.append(f"{fn.__name__}: internal error {type(e).__name__}: {e}\n{tb}")
    if tier == "thorough" and hasattr(mod, "THOROUGH"):
        for fn in mod.THOROUGH:
            try:
                fn(repo, rep)
            except AnalysisError as e:
                rep.errors.append(f"{fn.__name__}: {e}")
            except Exception as e:
                tb = traceback.format_exc(limit=6)
                rep.errors.append(f"{fn.__name__}: internal error {type(e).__name__}: {e}\n{tb}")
    return rep


def main(argv=None) -> int:
    ap = argparse.ArgumentParser(prog="check")
    ap.add_argument("prop")
    ap.add_argument("--tier", default=os.environ.get("VERIF_TIER", "quick"), choices=["quick", "thorough"])
    ap.add_argument("--replay", default=None)
    ap.add_argument("--repo", default=None)
    ap.add_argument("--no-evidence", action="store_true")
    ap.add_argument("-v", "--verbose", action="store_true")
    args = ap.parse_args(argv)
    prop = args.prop.upper()
    if prop not in PROPS:
        print(f"ANALYSIS-ERROR: unknown property {prop}")
        return 2
    seed = int(os.environ.get("VERIF_SEED", "0") or 0)
    t0 = time.time()
    try:
        repo = Repo(args.repo)
        rep = run_property(prop, repo, args.tier)
        mod = load_rules(prop)
    except AnalysisError as e:
        print(f"ANALYSIS-ERROR: property={prop} {e}")
        return 2
    except Exception as e:
        traceback.print_exc()
        print(f"ANALYSIS-ERROR: property={prop} internal error {type(e).__name__}: {e}")
        return 2

    selftest_summary = None
    if args.tier == "thorough":
        try:
            from hsa import selftest

            selftest_summary = selftest.run_for(prop, repo)
            if selftest_summary and selftest_summary.get("failed"):
                for f in selftest_summary["failed"]:
                    rep.errors.append(f"self-test: {f}")
            # the agent-made corpora, applied in memory: seeded breaking changes of this property must be reported,
            # behaviour-preserving patches must not raise anything
            corpora = selftest.run_patch_corpora(prop, repo)
            selftest_summary["patch_corpora"] = corpora
            for f in corpora.get("failed", []):
                rep.errors.append(f"self-test: {f}")
        except AnalysisError as e:
            rep.errors.append(f"self-test: {e}")
        except Exception as e:
            rep.errors.append(f"self-test: internal error {type(e).__name__}: {e}\n{traceback.format_exc(limit=5)}")

    findings = core.load_known_findings()
    new, known = [], []
    for inst in rep.violations:
        f = core.match_known(inst, findings, prop)
        if f is not None:
            known.append((inst, f))
        else:
            new.append(inst)

    replay_filter = None
    if args.replay:
        with open(args.replay) as f:
            replay_filter = json.load(f).get("key")
        new = [i for i in new if i.key == replay_filter]

    wall = time.time() - t0
    extra = {}
    if selftest_summary is not None:
        extra["selftest"] = selftest_summary
    # how the analysed tree relates to the reviewed reference snapshot (hsa/align.py, hsa/equiv.py)
    norm = {f"{n}.{q}": e for n, m in repo.modules.items() for q, e in m.normalised.items()}
    norm.update({k: {"<renamed function>": v} for k, v in getattr(repo, "renamed_functions", {}).items()})
    for i, line in enumerate(getattr(repo, "erased", [])):
        norm[f"<data holder {i}>"] = {"<new NamedTuple>": line}
    extra["reference_alignment"] = {
        "functions_differing_from_reference_and_normalised": len(norm),
        "functions_proved_equivalent_to_reference_by_path_summary": sum(1 for e in norm.values() if "<equivalent to reference>" in e),
        "details": dict(list(norm.items())[:40]),
        "rule": "locals are alpha-renamed to the reference names when the renaming is a consistent bijection; helpers that "
        "are new w.r.t. the reference are viewed inlined; a function whose path summary equals that of the reference "
        "function is analysed in its reference form; otherwise it is analysed as written",
    }
    if not args.no_evidence:
        core.write_evidence(
            rep,
            args.tier,
            seed,
            wall,
            getattr(mod, "EXPLANATION", ""),
            getattr(mod, "ASSUMPTIONS", []),
            len(new),
            known,
            extra,
        )

    n_inst = len(rep.instances)
    print(
        f"[{prop}] tier={args.tier} rules={len({i.rule for i in rep.instances})} "
        f"instances={n_inst} held={sum(1 for i in rep.instances if i.ok)} "
        f"known={len(known)} new_violations={len(new)} errors={len(rep.errors)} "
        f"wall={wall:.2f}s"
    )
    if args.verbose:
        for i in rep.instances:
            print(f"  {'ok ' if i.ok else 'BAD'} {i.rule} {i.where} {i.construct}: {i.text[:110]}")
    seen_known = set()
    for inst, f in known:
        line = f"KNOWN-FINDING: property={prop} {f.get('id','')} {inst.rule} {inst.construct}: {f.get('what','')}"
        if line not in seen_known:
            seen_known.add(line)
            print(line)
    for e in rep.errors:
        print(f"ANALYSIS-ERROR: property={prop} {e}")
    for n, inst in enumerate(new):
        path = core.write_violation(prop, n, inst)
        print(f"  {inst.rule} {inst.where} {inst.construct}: {inst.text}\n    -> {inst.msg}")
        print(f"VIOLATION property={prop} replay={path}")
    if new:
        return 1
    if rep.errors:
        return 2
    return 0


if __name__ == "__main__":
    sys.exit(main())
