"""C14 — prank, state-setting cheatcodes and fresh symbols behave as specified."""

from __future__ import annotations

import ast

from hsa.core import AnalysisError, Repo, Report, body_walk, call_name, dotted, find_assign, kwarg, last_attr, src
from hsa.fold import UNKNOWN, class_consts, fold_in
from hsa.keccak import selector
from hsa.rules.common import csrc, guard_set, if_chain, method_calls
from hsa.spec.forge_sigs import ENCODERS, HEVM, SVM

EXPLANATION = (
    "Decides: the active prank is consumed exactly once per call/creation (resolve_prank is called only from "
    "SEVM.call and SEVM.create, before the Message is built, and its results are the caller/origin used), "
    "lookups exempt the cheatcode addresses and clear a one-shot prank, a new frame and a new transaction start "
    "with a fresh Prank and forks deep-copy it; every selector constant of hevm_cheat_code equals the hash of "
    "the Forge-std signature it is dispatched as (63 constants) and the dispatch arm for it has that "
    "cheatcode's effect (warp -> block.timestamp, roll -> number, fee -> basefee, chainId, coinbase, "
    "difficulty, deal -> balance_update(who, amount), store/load -> sstore/sload on the aliased account, etch -> "
    "set_code + setdefault storage, prank family -> the same-named Prank method, random*/env* -> the encoder of "
    "the same type); each of the 20 svm selectors is the hash of its signature and bound to the handler of that "
    "name; every create_* encoder passes the width and type of its signature and encodes by kind (zero-/sign-"
    "extension, left alignment with 32-N/8 zero bytes, dynamic (32, length, data)); widths > 256 are rejected; "
    "every symbol label contains uid() and a per-path counter. Values read back are not decided."
    ' Also evaluated here: fork-copy / per-transaction copy completeness (C20 R20.1): block fields and prank records written by cheatcodes must not be shared with other paths or transactions.'
    ' Round 4: a read-back after deal/store skips an earlier write only under `== unsat` (C02 R02.1 at Exec.select / balance_of).'
    " Round 5: resolve_prank returns (sender, origin) in that order; an Exec's block environment is bound once and is not part of the frame rollback (R14.6)."
    ' Round 7: the pranked sender reaches the callee through the caller field of the sub-message for every opcode that opens a sender context, CALLCODE included (C09 R09.2).'
)
ASSUMPTIONS = ["Forge-std / SVM signatures (hash-verified against the repo's constants)", "dataclass default_factory creates a fresh object per instance"]


def r14_1_prank_consumption(repo: Repo, rep: Report):
    rep.rule("R14.1", "resolve_prank is called exactly once in call and create, before Message(...); lookup semantics; fresh Prank per frame/tx")
    sites = []
    for modname, m in repo.modules.items():
        for c in ast.walk(m.tree):
            if isinstance(c, ast.Call) and last_attr(c) == "resolve_prank":
                sites.append((m, c))
    quals = sorted(m.qual(c) for m, c in sites)
    rep.check("R14.1", quals == ["sevm.SEVM.call", "sevm.SEVM.create"], sites[0][0] if sites else repo.mod("sevm"), sites[0][1] if sites else None, f"resolve_prank called from {quals}", "the active prank must be consumed exactly by the next call and the next creation of the pranking frame (not by nested helpers, not twice)", construct="sevm.Exec.resolve_prank")
    for q, to_arg in (("sevm.SEVM.call", "to"), ("sevm.SEVM.create", "con_addr(0)")):
        m, fn = repo.fn(q)
        rp = [s for s in fn.body if isinstance(s, ast.Assign) and isinstance(s.value, ast.Call) and last_attr(s.value) == "resolve_prank"]
        msg = [s for s in fn.body if isinstance(s, ast.Assign) and src(s.targets[0]) == "message"]
        ok = len(rp) == 1 and len(msg) == 1 and rp[0].lineno < msg[0].lineno and src(rp[0].targets[0]) in ("(pranked_caller, pranked_origin)", "pranked_caller, pranked_origin") and src(rp[0].value.args[0]) == to_arg and src(rp[0].value.func.value) == "ex"
        rep.check("R14.1", ok, m, rp[0] if rp else fn, f"{q}: {src(rp[0]) if rp else '?'} before Message(...)", "prank must be resolved on the calling frame, once, unconditionally, before the message is built")
        if msg:
            mc = msg[0].value
            ok = "pranked_caller" in src(kwarg(mc, "caller")) and src(kwarg(mc, "origin")) == "pranked_origin"
            rep.check("R14.1", ok, m, mc, f"{q}: Message(caller={src(kwarg(mc, 'caller'))}, origin={src(kwarg(mc, 'origin'))})", "the resolved prank must be the sender/origin of the new frame")
    m, rp = repo.fn("sevm.Exec.resolve_prank")
    t = src(rp)
    ok = "prank_result = self.context.prank.lookup(to)" in t and "caller = self.this() if prank_result.sender is None else prank_result.sender" in t and "origin = self.origin() if prank_result.origin is None else prank_result.origin" in t
    rep.check("R14.1", ok, m, rp, "resolve_prank: lookup on this frame's prank; defaults are this()/origin()", "without a prank the sender is the executing contract and the origin is inherited")
    rets = [r for r in body_walk(rp) if isinstance(r, ast.Return)]
    ok = len(rets) == 1 and isinstance(rets[0].value, ast.Tuple) and [src(e) for e in rets[0].value.elts] == ["caller", "origin"]
    rep.check("R14.1", ok, m, rets[0] if rets else rp, f"resolve_prank returns {src(rets[0].value) if rets and rets[0].value is not None else '?'}", "the pair is unpacked as (sender, origin) by call and create: returned in another order the pranked sender becomes tx.origin and vice versa")
    mc, lk = repo.fn("cheatcodes.Prank.lookup")
    ifs = [i for i in body_walk(lk) if isinstance(i, ast.If)]
    ok = bool(ifs) and csrc(ifs[0].test) == csrc("self and to not in [halmos_cheat_code.address, hevm_cheat_code.address]")
    rep.check("R14.1", ok, mc, ifs[0] if ifs else lk, f"lookup: if {src(ifs[0].test) if ifs else '?'}", "cheatcode calls must not consume (or be affected by) the prank")
    t = src(lk)
    ok = "result = self.active" in t and "if not self.keep:\n        self.stopPrank()" in t.replace("            ", "        ") or ("if not self.keep:" in t and "self.stopPrank()" in t and "return result" in t)
    rep.check("R14.1", bool(ok), mc, lk, "lookup: returns the active prank; clears it unless keep (startPrank)", "one-shot prank must be cleared after the first eligible call; startPrank must persist")
    rets = [src(r.value) for r in body_walk(lk) if isinstance(r, ast.Return)]
    rep.check("R14.1", rets == ["result", "NO_PRANK"], mc, lk, f"lookup returns {rets}", "lookup must return the active prank or NO_PRANK")
    _, pk = repo.fn("cheatcodes.Prank.prank")
    t = src(pk)
    ok = "if self.active:\n        return False" in t.replace("            ", "        ") or ("if self.active:" in t and "return False" in t)
    ok = ok and "self.active = PrankResult(sender=sender, origin=origin)" in t and "self.keep = _keep" in t
    rep.check("R14.1", ok, mc, pk, "prank(): refuses to override an active prank; records sender/origin/keep", "prank must not silently replace an active prank")
    _, sp = repo.fn("cheatcodes.Prank.startPrank")
    rep.check("R14.1", "self.prank(sender, origin, _keep=True)" in src(sp), mc, sp, "startPrank = prank(..., _keep=True)", "startPrank must persist until stopPrank")
    _, st = repo.fn("cheatcodes.Prank.stopPrank")
    t = src(st)
    rep.check("R14.1", "self.active = NO_PRANK" in t and "self.keep = False" in t, mc, st, "stopPrank clears active and keep", "stopPrank must clear the prank")
    # fresh prank per frame / transaction; deep copy on fork
    ms, cc = repo.cls("sevm.CallContext")
    f = [s for s in cc.body if isinstance(s, ast.AnnAssign) and src(s.target) == "prank"]
    ok = len(f) == 1 and src(f[0].value) == "field(default_factory=Prank)"
    rep.check("R14.1", ok, ms, f[0] if f else cc, src(f[0]) if f else "prank: ?", "every new frame must start without a prank (nested frames do not inherit it)")
    from hsa.rules.common import class_methods

    for cq in ("sevm.CallContext", "cheatcodes.Prank"):
        mq, cq_ = repo.cls(cq)
        hooks = [k for k in class_methods(cq_) if k in ("__deepcopy__", "__copy__", "__reduce__", "__getstate__")]
        rep.check("R14.1", not hooks, mq, cq_, f"{cq}: default deepcopy (no custom copy hook)", f"custom copy hook {hooks}: the mutable prank record could be shared between sibling paths (a one-shot prank consumed on one path disappears on the other)")
    _, rm = repo.fn("sevm.SEVM.run_message")
    ecs = [c for c in body_walk(rm) if isinstance(c, ast.Call) and call_name(c) == "Exec"]
    ok = len(ecs) == 1 and src(kwarg(ecs[0], "context")) == "CallContext(message=message)"
    rep.check("R14.1", ok, ms, ecs[0] if ecs else rm, "run_message: context=CallContext(message=message)", "a new transaction must start without a prank")
    for q in ("sevm.SEVM.call.call_known", "sevm.SEVM.create"):
        _, fn = repo.fn(q)
        ecs = [c for c in body_walk(fn) if isinstance(c, ast.Call) and call_name(c) == "Exec"]
        ok = len(ecs) == 1 and src(kwarg(ecs[0], "context")).startswith("CallContext(message=message, depth=")
        rep.check("R14.1", ok, ms, ecs[0] if ecs else fn, f"{q}: sub-frame context is a new CallContext", "nested frame must not inherit the caller's prank")
    _, cb = repo.fn("sevm.SEVM.create_branch")
    ecs = [c for c in body_walk(cb) if isinstance(c, ast.Call) and call_name(c) == "Exec"]
    rep.check("R14.1", len(ecs) == 1 and src(kwarg(ecs[0], "context")) == "deepcopy(ex.context)", ms, ecs[0] if ecs else cb, "create_branch: context=deepcopy(ex.context)", "sibling paths must not share the prank state")


def _dispatch_arms(repo):
    m, hf = repo.fn("cheatcodes.hevm_cheat_code.handle")
    heads = [i for i in hf.body if isinstance(i, ast.If) and src(i.test) == "funsig in assert_cheatcode_handler"]
    if len(heads) != 1:
        raise AnalysisError("hevm dispatch chain not found")
    arms = {}
    order = []
    for test, body in if_chain(heads[0]):
        if test is None:
            continue
        t = src(test)
        if t.startswith("funsig == hevm_cheat_code."):
            name = t[len("funsig == hevm_cheat_code."):]
            arms.setdefault(name, []).append(body)
            order.append(name)
    return m, hf, arms, order


def r14_2_selector_effect_table(repo: Repo, rep: Report):
    rep.rule("R14.2", "each hevm/svm selector == keccak4(signature) and its dispatch arm has that cheatcode's effect")
    m, hf, arms, order = _dispatch_arms(repo)
    _, hc = repo.cls("cheatcodes.hevm_cheat_code")
    consts = {k: v for k, v in class_consts(repo, "cheatcodes", hc).items() if k.endswith("_sig")}
    for name, val in sorted(consts.items()):
        spec = HEVM.get(name)
        if spec is None:
            rep.bad("R14.2", m, hc, f"{name} = {val:#010x}", "selector constant without a reviewed Forge-std signature (add it to hsa/spec/forge_sigs.py after review)")
            continue
        sig, frags = spec
        ok = selector(sig) == val
        rep.check("R14.2", ok, m, hc, f"{name} = {val:#010x}  [{sig}]", f"keccak4('{sig}') = {selector(sig):#010x}: the constant is bound to another cheatcode's selector")
        bodies = arms.get(name, [])
        if len(bodies) != 1:
            rep.bad("R14.2", m, hf, f"dispatch arm for {name}", f"expected exactly one dispatch arm, found {len(bodies)}")
            continue
        text = "\n".join(src(s) for s in bodies[0])
        missing = [f for f in frags if f not in text]
        rep.check("R14.2", not missing, m, bodies[0][0], f"{name} [{sig}] -> {'; '.join(frags)[:110]}", f"dispatch arm lacks the effect of {sig}: {missing}")
    missing_consts = sorted(set(HEVM) - set(consts))
    rep.check("R14.2", not missing_consts, m, hc, f"{len(consts)} selector constants", f"constants in the reviewed table that no longer exist: {missing_consts}")
    dup = {v for v in consts.values() if list(consts.values()).count(v) > 1}
    rep.check("R14.2", not dup, m, hc, "selector constants are pairwise distinct", f"duplicate selector values {sorted(hex(d) for d in dup)}: the later arm is unreachable")
    rep.table("hevm selector constants", len(consts))
    # every arm ends by returning (no fall-through into a later cheatcode's effect)
    for name, bodies in arms.items():
        for b in bodies:
            last = b[-1]
            ok = isinstance(last, (ast.Return, ast.Raise))
            if not ok:
                rep.bad("R14.2", m, last, f"arm {name} ends with {type(last).__name__}", "dispatch arm must end with return/raise")
    # store/load resolve the account alias and refuse non-existent accounts for store
    text = "\n".join(src(s) for s in arms.get("store_sig", [[]])[0])
    ok = "store_account_alias = sevm.resolve_address_alias(ex, store_account, stack, allow_branching=False)" in text and "if store_account_alias is None:" in text
    rep.check("R14.2", ok, m, hf, "vm.store resolves the target account (no branching) and rejects a missing account", "vm.store must write the targeted account only")
    text = "\n".join(src(s) for s in arms.get("deal_sig", [[]])[0])
    ok = "who = uint160(arg.get_word(4)).as_z3()" in text and "amount = uint256(arg.get_word(36)).as_z3()" in text
    rep.check("R14.2", ok, m, hf, "vm.deal(who = word 0 as address, amount = word 1)", "deal arguments swapped or truncated")
    # halmos (svm) handlers
    _, sc = repo.cls("cheatcodes.halmos_cheat_code")
    tbl = None
    for st in sc.body:
        if isinstance(st, ast.Assign) and src(st.targets[0]) == "handlers" and isinstance(st.value, ast.Dict):
            tbl = st.value
    if tbl is None:
        raise AnalysisError("halmos_cheat_code.handlers dict not found")
    got = {}
    for k, v in zip(tbl.keys, tbl.values):
        kk = fold_in(repo, "cheatcodes", k)
        got[kk] = src(v)
    want = {selector(sig): fn for sig, fn in SVM.items()}
    for sig, fn in SVM.items():
        sel = selector(sig)
        rep.check("R14.2", got.get(sel) == fn, m, tbl, f"{sel:#010x}: {fn}  [{sig}]", f"svm selector for {sig} must be bound to {fn}, found {got.get(sel)}")
    extra = sorted(hex(k) for k in got if k not in want)
    rep.check("R14.2", not extra, m, tbl, f"{len(got)} svm handlers", f"svm handlers without a reviewed signature: {extra}")
    rep.table("svm selectors", len(got))
    _, hh = repo.fn("cheatcodes.halmos_cheat_code.handle")
    t = src(hh)
    ok = "halmos_cheat_code.handlers.get(funsig)" in t and "handler(ex, arg, sevm=sevm, stack=stack)" in t and "raise HalmosException" in t
    rep.check("R14.2", ok, m, hh, "svm dispatch: handlers.get(funsig)(ex, arg, ...); unknown selector raises", "unknown svm cheatcodes must be errors")
    # cheatcode addresses
    hv = [s for s in hc.body if isinstance(s, ast.Assign) and src(s.targets[0]) == "address"]
    from hsa.keccak import keccak256

    want_h = int.from_bytes(keccak256(b"hevm cheat code")[12:], "big")
    want_s = int.from_bytes(keccak256(b"svm cheat code")[12:], "big")
    hvv = fold_in(repo, "cheatcodes", hv[0].value.args[0]) if hv and isinstance(hv[0].value, ast.Call) else None
    sv = [s for s in sc.body if isinstance(s, ast.Assign) and src(s.targets[0]) == "address"]
    svv = fold_in(repo, "cheatcodes", sv[0].value.args[0]) if sv and isinstance(sv[0].value, ast.Call) else None
    rep.check("R14.2", hvv == want_h and svv == want_s, m, hc, f"HEVM_ADDRESS = {hvv:#x}; SVM_ADDRESS = {svv:#x}", "cheatcode addresses must be the last 20 bytes of keccak('hevm cheat code') / keccak('svm cheat code')")


def r14_3_encoders(repo: Repo, rep: Report):
    rep.rule("R14.3", "create_* encoders: width/type of the signature, encoded by kind; widths > 256 rejected")
    m = repo.mod("cheatcodes")
    for fname, (bits, typ, kind) in ENCODERS.items():
        _, fn = repo.fn(f"cheatcodes.{fname}")
        gen = [c for c in body_walk(fn) if isinstance(c, ast.Call) and call_name(c) == "create_generic"]
        if len(gen) != 1:
            rep.bad("R14.3", m, fn, f"{fname}: create_generic(...)", "exactly one fresh symbol per call expected")
            continue
        g = gen[0]
        ok = src(g.args[0]) == "ex" and src(g.args[1]) == bits and src(g.args[2]) == "name" and src(g.args[3]) == typ
        rep.check("R14.3", ok, m, g, f"{fname}: {src(g)}", f"symbol must be create_generic(ex, {bits}, name, {typ})")
        rets = [r for r in body_walk(fn) if isinstance(r, ast.Return)]
        rt = src(rets[-1].value) if rets else ""
        t = src(fn)
        if kind == "zext":
            ok = rt == f"ByteVec(uint256({src(g)}))"
        elif kind == "sext":
            ok = rt == f"ByteVec(int256({src(g)}))"
        elif kind == "word":
            ok = rt in (f"ByteVec({src(g)})", "ByteVec(symbolic_value)")
        elif kind == "dyn":
            ok = rt.startswith("encode_tuple_bytes(")
        elif kind.startswith("left"):
            pad = int(kind[4:])
            ok = f"result = ByteVec({src(g)})" in t and f"result.append(0 .to_bytes({pad}))" in t and rt == "result"
        rep.check("R14.3", ok, m, rets[-1] if rets else fn, f"{fname}: returns {rt[:80]}  [{kind}]", f"{fname} must encode its value as `{kind}`")
    for fname in ("create_uint", "create_int"):
        _, fn = repo.fn(f"cheatcodes.{fname}")
        rs = [r for r in body_walk(fn) if isinstance(r, ast.Raise) and "bits > 256" in guard_set(m, r)]
        rep.check("R14.3", len(rs) == 1, m, rs[0] if rs else fn, f"{fname}: bits > 256 -> HalmosException", "widths above 256 must be rejected")
        b = [src(v) for v in find_assign(fn, "bits")]
        rep.check("R14.3", len(b) == 1 and "4)" in b[0] and b[0].startswith("int_of("), m, fn, f"{fname}: bits = {b}", "bit width is the first argument word")
    _, et = repo.fn("cheatcodes.encode_tuple_bytes")
    t = src(et)
    ok = "length = data.size() // 8 if is_bv(data) else len(data)" in t and "ByteVec(32 .to_bytes(32) + int(length).to_bytes(32))" in t and "result.append(data)" in t
    rep.check("R14.3", ok, m, et, "encode_tuple_bytes: offset 32, length, data", "dynamic value must be encoded as (offset 32, length, data)")
    _, cg = repo.fn("cheatcodes.create_generic")
    t = src(cg)
    ok = "if not bits:\n        return ByteVec()" in t.replace("            ", "        ") or ("if not bits:" in t and "return ByteVec()" in t)
    ok = ok and "return BitVec(label, BitVecSorts[bits])" in t
    rep.check("R14.3", ok, m, cg, "create_generic: BitVec(label, bits); empty for 0 bits", "fresh symbol must have exactly the requested width")
    mu, i256 = repo.fn("utils.int256")
    rep.check("R14.3", "simplify(SignExt(256 - bitsize, x))" in src(i256), mu, i256, "int256: sign extension to 256 bits", "intN must be sign-extended")
    _, mm = repo.fn("cheatcodes.create_uint256_min_max")
    t = src(mm)
    ok = "min_condition = simplify(UGE(symbolic_value, min_value))" in t and "max_condition = simplify(ULE(symbolic_value, max_value))" in t and "if min_value > max_value:" in t
    rep.check("R14.3", ok, m, mm, "createUint256(min,max): UGE(v, min), ULE(v, max), min <= max", "range of the fresh value must be exactly [min, max], unsigned")


COUNTERS = ("new_symbol_id()", "new_call_id()", "len(self.balances)", "len(ex.storages)")
UID_ONLY_OK = {
    "sevm.SEVM.run": "codeslice_uint…: symbolic CODECOPY offset; uid only (28 random bits), reviewed exception",
    "__main__._compute_frontier": "timestamp name: depth + uid (one per kept state), reviewed exception",
}


def r14_4_freshness(repo: Repo, rep: Report):
    rep.rule("R14.4", "every fresh-symbol label contains uid() and a per-path counter")
    n = 0
    for modname in ("cheatcodes", "sevm", "__main__", "calldata"):
        m = repo.mod(modname)
        for js in ast.walk(m.tree):
            if not isinstance(js, ast.JoinedStr) or "uid()" not in src(js):
                continue
            n += 1
            t = src(js)
            q = m.qual(js)
            has_counter = any(c in t for c in COUNTERS)
            if not has_counter and q in UID_ONLY_OK:
                rep.ok("R14.4", m, js, f"{q}: {t[:70]}  [{UID_ONLY_OK[q]}]")
                continue
            rep.check("R14.4", has_counter, m, js, f"{q}: {t[:90]}", "symbol name without a per-path counter: two values created on one path may get the same name (and thus be the same symbol)")
    if n < 12:
        raise AnalysisError(f"R14.4: only {n} uid()-based labels found")
    ms = repo.mod("sevm")
    for q, key in (("sevm.Exec.new_symbol_id", "symbol"), ("sevm.Exec.new_call_id", "call"), ("sevm.Exec.new_address", "address"), ("sevm.Exec.new_gas_id", "gas")):
        _, fn = repo.fn(q)
        t = src(fn)
        ok = f"self.cnts['{key}'] += 1" in t
        rep.check("R14.4", ok, ms, fn, f"{q}: increments cnts['{key}'] before use", "counter must advance on every use")


def r14_6_block_not_journaled(repo: Repo, rep: Report):
    rep.rule("R14.6", "values set by warp/roll/fee/chainId/coinbase/difficulty are not part of the frame rollback: an Exec's block environment is bound once, at construction")
    n = 0
    for mm in repo.modules.values():
        for node in ast.walk(mm.tree):
            if isinstance(node, ast.Attribute) and node.attr == "block" and isinstance(node.ctx, (ast.Store, ast.Del)):
                where = mm.qual(node)
                n += 1
                rep.check("R14.6", where == "sevm.Exec.__init__" and src(node.value) == "self", mm, node, f"{where}: {src(mm.parents.get(node, node))[:70]}", "the block environment of an existing state is replaced (e.g. restored from a snapshot when a sub-call fails): block cheatcodes issued inside a frame that later reverts are undone, and the caller's subsequent reads return the old values")
    rep.floor("R14.6", 1, "binding of Exec.block")


def r14_5_shared(repo: Repo, rep: Report):
    """state written by cheatcodes (block fields, prank records) must stay inside the path / transaction that wrote it:
    fork-copy and per-transaction copy completeness (shared with C20)"""
    from hsa.rules.c09 import r09_1_snapshot_restore
    from hsa.rules.c20 import r20_1_fork_copies

    r20_1_fork_copies(repo, rep)
    # round 7: the pranked sender reaches the callee through the caller field of the sub-message, for every call
    # opcode that opens a new sender context (CALL, CALLCODE, STATICCALL) (shared with C09 R09.2)
    from hsa.rules.c09 import r09_2_message_construction

    r09_2_message_construction(repo, rep)
    # the caller's context (with its prank record) is deep-copied when a sub-call returns on several paths
    r09_1_snapshot_restore(repo, rep)
    # deal/store followed by a read: the read skips an earlier write only when the keys are proved different
    # (shared with C02 R02.1)
    from hsa.rules.verdicts import check_verdict_sites

    rep.rule("R02.1", "a write is skipped on read-back only under `== unsat` (shared with C02)")
    check_verdict_sites(repo, rep, "R02.1", modules=("sevm",), only_functions={"sevm.Exec.select", "sevm.Exec.balance_of"})


RULES = [r14_5_shared, r14_1_prank_consumption, r14_2_selector_effect_table, r14_3_encoders, r14_4_freshness, r14_6_block_not_journaled]
