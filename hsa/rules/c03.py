"""C03 — PASS means no admissible input violates the test (plumbing from path outcomes to the verdict)."""

from __future__ import annotations

import ast
import re

from hsa.core import AnalysisError, Repo, Report, body_walk, call_name, dotted, find_assign, kwarg, last_attr, src
from hsa.flow import Flow, _loop_level, function_exits, normal_exit_states
from hsa.fold import UNKNOWN, fold_in
from hsa.keccak import selector
from hsa.rules.common import guard_set, if_chain, method_calls
from hsa.rules.verdicts import check_verdict_sites

EXPLANATION = (
    "Decides the plumbing from path outcomes to the verdict: the per-path classification chain of "
    "run_test tests `panic_found or is_global_fail_set(ex.context)` first, then is_stuck(), then success; "
    "a potential violation is always submitted to the solver with a completion callback; Panic recognition "
    "uses the hash-verified selector, length 36 and the slices [0:4]/[4:36] on a Revert; the failure flag is "
    "searched through all nested frames; setUp/constructor are fail-closed (exactly one error-free path, "
    "multi-path filter keeps on != unsat); every test runs against every frontier state of every depth; the "
    "verdict's counter keys are within the producers' domain. The end-to-end claim additionally needs "
    "C01, C02, C05, C10 (checked separately); the engine's values are not decided here."
    ' As the end-to-end statement, C03 also evaluates the rules whose violation produces a false PASS: all C02 rules, the word-semantics rules of C06, constraint ownership / dump writer-reader / refinement exactness (C11, C04 R04.2), the core-cache rules of C16, fork-copy completeness (C20 R20.1/R20.2), the assertion-cheatcode rules of C13 and option forwarding (C18 R18.2/R18.7).'
    ' Round 4: symbol distinctness of calldata leaves (C12 R12.3 / C20 R20.5) and the loop-log / de-duplication rules of C10 (R10.2, R10.3) are evaluated here too, because C03 speaks of PASS without a bound warning.'
    ' Round 5: the vm.assert* selector table (C13 R13.1) is evaluated here too.'
)
ASSUMPTIONS = ["C01/C02/C05/C10 clauses hold (separate checks)", "solc's Panic(uint256) encoding"]


def _path_loop(repo):
    m, fn = repo.fn("__main__.run_test")
    loops = [l for l in body_walk(fn) if isinstance(l, ast.For) and src(l.iter) == "enumerate(exs)"]
    if len(loops) != 1:
        raise AnalysisError("run_test: `for path_id, ex in enumerate(exs)` not found")
    return m, fn, loops[0]


def r03_1_classification(repo: Repo, rep: Report):
    rep.rule("R03.1", "per-path classification: failure test first, then stuck, then success; violations are submitted to the solver")
    m, fn, loop = _path_loop(repo)
    chains = [s for s in loop.body if isinstance(s, ast.If) and "panic_found" in src(s.test)]
    if len(chains) != 1:
        rep.bad("R03.1", m, loop, "if panic_found or is_global_fail_set(ex.context): ...", "classification chain not found at the top level of the path loop")
        return
    arms = if_chain(chains[0])
    tests = [src(t) if t is not None else "<else>" for t, _ in arms]
    ok = len(tests) >= 3 and tests[0] == "panic_found or is_global_fail_set(ex.context)" and tests[1] == "ex.context.is_stuck()" and tests[2] == "not error_output"
    rep.check("R03.1", ok, m, chains[0], f"classification order: {tests}", "a path must be classified as failing before any other arm can absorb it; then stuck; then success")
    # nothing before the chain skips a path (no continue), and the only breaks are the reviewed three
    conts = [c for c in _loop_level(loop.body) if isinstance(c, ast.Continue)]
    rep.check("R03.1", not conts, m, loop, f"path loop has {len(conts)} continue statement(s)", "a `continue` in the path loop skips classification of a path")
    for b in [b for b in _loop_level(loop.body) if isinstance(b, ast.Break)]:
        gs = guard_set(m, b)
        handler = next((a for a in m.ancestors(b) if isinstance(a, ast.ExceptHandler)), None)
        ok = "ctx.solving_ctx.executor.is_shutdown()" in gs or (handler is not None and "ShutdownError" in src(handler.type)) or ("args.width" in gs and "path_id >= args.width" in gs)
        rep.check("R03.1", ok, m, b, f"break under {sorted(gs)[:4]}{' in except ' + src(handler.type) if handler else ''}", "the path loop may stop early only for early-exit shutdown or the reported --width limit")
    # definitions feeding the chain
    pf = [s for s in loop.body if isinstance(s, ast.Assign) and src(s.targets[0]) == "panic_found"]
    ok = len(pf) == 1 and src(pf[0].value) == "ex.is_panic_of(args.panic_error_codes)"
    rep.check("R03.1", ok, m, pf[0] if pf else loop, src(pf[0]) if pf else "panic_found = ?", "panic_found must be ex.is_panic_of(args.panic_error_codes)")
    eo = [s for s in loop.body if isinstance(s, ast.Assign) and src(s.targets[0]) == "error_output"]
    ou = [s for s in loop.body if isinstance(s, ast.Assign) and src(s.targets[0]) == "output"]
    ok = len(eo) == 1 and src(eo[0].value) == "output.error" and len(ou) == 1 and src(ou[0].value) == "ex.context.output"
    rep.check("R03.1", ok, m, eo[0] if eo else loop, "error_output = ex.context.output.error", "error_output must be the path's own error")
    # first arm submits the path
    first_body = arms[0][1]
    calls = [c for s in first_body for c in ast.walk(s) if isinstance(c, ast.Call) and last_attr(c) == "handle_assertion_violation"]
    ok = len(calls) == 1 and src(kwarg(calls[0], "ex")) == "ex" and src(kwarg(calls[0], "panic_found")) == "panic_found"
    rep.check("R03.1", ok, m, calls[0] if calls else chains[0], src(calls[0]) if calls else "handler.handle_assertion_violation(...)", "a failing path must be handed to handle_assertion_violation(ex=ex, ...)")
    pot = [s for s in first_body if isinstance(s, ast.AugAssign) and src(s.target) == "potential"]
    rep.check("R03.1", len(pot) == 1, m, pot[0] if pot else chains[0], "potential += 1", "potential-violation counter must be incremented (the progress loop waits for `potential` futures)")
    # success arm
    nb = arms[2][1] if len(arms) > 2 else []
    inc = [s for s in nb if isinstance(s, ast.AugAssign) and src(s.target) == "normal" and isinstance(s.op, ast.Add)]
    rep.check("R03.1", len(inc) == 1, m, inc[0] if inc else chains[0], "normal += 1 (only for paths without error)", "normal paths must be counted only in the success arm")
    others = [s for s in body_walk(fn) if isinstance(s, (ast.AugAssign, ast.Assign)) and src(s.targets[0] if isinstance(s, ast.Assign) else s.target) == "normal"]
    ok = all((isinstance(s, ast.Assign) and fold_in(repo, "__main__", s.value) == 0) or s in inc for s in others)
    rep.check("R03.1", ok, m, fn, f"{len(others)} writes to `normal`", "`normal` is modified outside the success arm")
    # handle_assertion_violation: every normal exit has submitted the query with the callback
    mh, hv = repo.fn("__main__.CounterexampleHandler.handle_assertion_violation")

    def tr(node, state):
        out = []
        if isinstance(node, (ast.FunctionDef, ast.ClassDef)):
            return out
        for c in ast.walk(node):
            if isinstance(c, ast.Call):
                if last_attr(c) == "submit" and "thread_pool" in dotted(c.func) and c.args and src(c.args[0]) == "solve_end_to_end":
                    out.append("submitted")
                if last_attr(c) == "add_done_callback" and "_solve_end_to_end_callback" in src(c):
                    out.append("callback")
        return out

    states = normal_exit_states(function_exits(hv, tr, calls_raise=False))
    ok = bool(states) and all({"submitted", "callback"} <= s for s in states)
    rep.check("R03.1", ok, mh, hv, "every normal exit of handle_assertion_violation has submitted solve_end_to_end with the completion callback", "a potential violation can be dropped without a solver query")
    q = [s for s in body_walk(hv) if isinstance(s, (ast.Assign, ast.AnnAssign)) and src(s.targets[0] if isinstance(s, ast.Assign) else s.target) == "query"]
    ok = bool(q) and src(q[0].value) == "ex.path.to_smt2(args)"
    rep.check("R03.1", ok, mh, q[0] if q else hv, src(q[0]) if q else "query = ?", "the query must be the failing path's own constraints")
    # is_global_fail_set recursion over nested frames
    mg, gf = repo.fn("__main__.is_global_fail_set")
    t = " ".join(src(s) for s in gf.body)
    ok = "isinstance(context.output.error, FailCheatcode)" in t and "any((is_global_fail_set(x) for x in context.subcalls()))" in t and " or " in t
    rep.check("R03.1", ok, mg, gf, t[:200], "is_global_fail_set must look at the frame's own error and recurse over all subcalls")
    ms, sc = repo.fn("sevm.CallContext.subcalls")
    t = " ".join(src(s) for s in sc.body)
    ok = "for t in self.trace if isinstance(t, CallContext)" in t
    rep.check("R03.1", ok, ms, sc, t[:160], "subcalls() must enumerate every CallContext in the trace")
    # stuck-path filter uses != unsat (shared with R02.1)
    check_verdict_sites(repo, rep, "R03.1", modules=("__main__",), only_functions={"__main__.run_test", "__main__.setup"})


def r03_2_panic_recognition(repo: Repo, rep: Report):
    rep.rule("R03.2", "Panic(k): selector hash-verified, length 36, slices [0:4]/[4:36], Revert only")
    m = repo.mod("sevm")
    ps = repo.const("sevm", "PANIC_SELECTOR")
    want = selector("Panic(uint256)").to_bytes(4, "big")
    rep.check("R03.2", ps == want, m, m.tree, f"PANIC_SELECTOR = {ps!r}", f"must be keccak256('Panic(uint256)')[:4] = {want.hex()}")
    _, fn = repo.fn("sevm.CallOutput.is_panic_of")
    t = [src(s) for s in fn.body if not (isinstance(s, ast.Expr) and isinstance(s.value, ast.Constant))]
    joined = " ; ".join(t)
    checks = {
        "Revert only": "if not isinstance(self.error, Revert):\n    return False" in "\n".join(t) or "not isinstance(self.error, Revert)" in joined,
        "length 36": "byte_length(error_data) != 36" in joined,
        "selector slice": "error_data[0:4].unwrap()" in joined and "error_selector != PANIC_SELECTOR" in joined,
        "code slice": "error_data[4:36].unwrap()" in joined,
        "membership": "error_code in expected_error_codes" in joined,
        "data is output": "error_data = self.data" in joined,
    }
    for k, ok in checks.items():
        rep.check("R03.2", ok, m, fn, f"is_panic_of: {k}", f"Panic recognition lost its `{k}` clause")
    # every early `return False` is one of the three rejections; `return True` only for the wildcard set
    for r in body_walk(fn):
        if isinstance(r, ast.Return) and src(r.value) == "True":
            gs = guard_set(m, r)
            ok = "not (expected_error_codes)" in gs and "error_selector == PANIC_SELECTOR" in gs and "byte_length(error_data) == 36" in gs and "isinstance(self.error, Revert)" in gs
            rep.check("R03.2", ok, m, r, f"return True under {sorted(gs)}", "unconditional match must still require a well-formed Panic revert")
    _, ex_ip = repo.fn("sevm.Exec.is_panic_of")
    ok = "self.context.output.is_panic_of(expected_error_codes)" in src(ex_ip)
    rep.check("R03.2", ok, m, ex_ip, "Exec.is_panic_of delegates to the frame's own output", "Exec.is_panic_of must look at this frame's output")


def _parses(text: str) -> bool:
    try:
        ast.parse(text, mode="eval")
        return True
    except SyntaxError:
        return False


def r03_3_setup_fail_closed(repo: Repo, rep: Report):
    rep.rule("R03.3", "constructor and setUp: exactly one error-free path, otherwise an exception (-> no PASS)")
    m, dt = repo.fn("__main__.deploy_test")
    raises = [r for r in body_walk(dt) if isinstance(r, ast.Raise)]
    gsets = [guard_set(m, r) for r in raises]
    ok1 = any("len(exs) != 1" in g for g in gsets)
    ok2 = any("output.error is not None or not returndata" in " ".join(src(i.test) for i in body_walk(dt) if isinstance(i, ast.If)) for _ in [0]) and any(isinstance(r.exc, ast.Call) and "constructor failed" in src(r.exc) for r in raises)
    rep.check("R03.3", ok1, m, dt, "deploy_test: len(exs) != 1 -> raise", "constructor must produce exactly one path")
    rep.check("R03.3", ok2, m, dt, "deploy_test: error or empty code -> raise", "a failed constructor must abort the contract")
    m, su = repo.fn("__main__.setup")
    # error paths are not kept
    apps = [c for c in method_calls(su, "append") if dotted(c.func) == "setup_exs_no_error.append"]
    ok = len(apps) == 1 and "not (err := setup_ex.context.output.error)" in guard_set(m, apps[0]) or (len(apps) == 1 and any("output.error" in g and g.startswith("not") for g in guard_set(m, apps[0])))
    rep.check("R03.3", bool(ok), m, apps[0] if apps else su, f"setup_exs_no_error.append(...) under {sorted(guard_set(m, apps[0])) if apps else '?'}", "only error-free setUp paths may be kept")
    # 0 or more than one surviving path raises (written as `match len(setup_exs)` or as an if-chain, possibly on a local
    # that holds the length)
    def conditions_of(node):
        """normalised conditions under which `node` runs: if/elif guards, or the case of an enclosing match"""
        out = set()
        for g in guard_set(m, node):
            out.add(g.replace(" ", ""))
        cur = node
        for anc in m.ancestors(node):
            if isinstance(anc, ast.match_case):
                mt = m.parents.get(anc)
                subj = src(mt.subject).replace(" ", "") if isinstance(mt, ast.Match) else "?"
                pat = anc.pattern
                if isinstance(pat, ast.MatchValue):
                    out.add(f"{subj}=={src(pat.value)}")
                elif isinstance(pat, ast.MatchAs) and pat.pattern is None and pat.name and anc.guard is not None:
                    out.add(src(anc.guard).replace(" ", "").replace(pat.name, subj))
            cur = anc
        # a local that holds the length
        res = set()
        for c in out:
            for nm in {n.id for n in ast.walk(ast.parse(c, mode="eval")) if isinstance(n, ast.Name)} if _parses(c) else ():
                vals = [src(v).replace(" ", "") for v in find_assign(su, nm)]
                if vals == ["len(setup_exs)"]:
                    c = re.sub(rf"\b{nm}\b", "len(setup_exs)", c)
            res.add(c)
        return res

    raises = [r for r in body_walk(su) if isinstance(r, ast.Raise) and r.exc is not None and "HalmosException" in src(r.exc)]
    zero = [r for r in raises if conditions_of(r) & {"len(setup_exs)==0", "notsetup_exs", "not(setup_exs)", "len(setup_exs)<1"}]
    many = [r for r in raises if conditions_of(r) & {"len(setup_exs)>1", "len(setup_exs)>=2", "1<len(setup_exs)", "len(setup_exs)!=1"}]
    rep.check("R03.3", bool(zero) and bool(many), m, (zero + many + [su])[0], f"setup: raise when len(setup_exs) == 0 ({len(zero)} site) and when > 1 ({len(many)} site)", "0 or more than 1 surviving setUp path must raise")
    un = [s for s in body_walk(su) if isinstance(s, ast.Assign) and src(s.targets[0]) in ("[setup_ex]", "(setup_ex,)") and src(s.value) == "setup_exs"]
    rep.check("R03.3", bool(un), m, un[0] if un else su, "[setup_ex] = setup_exs", "the returned setUp state must be the single surviving path")
    # run_contract: any setUp exception returns no results
    m, rc = repo.fn("__main__.run_contract")
    hs = [h for s in body_walk(rc) if isinstance(s, ast.Try) for h in s.handlers]
    ok = bool(hs) and all(any(isinstance(r, ast.Return) and src(r.value) == "[]" for r in ast.walk(h)) for h in hs) and any(h.type is not None and src(h.type) == "Exception" for h in hs)
    rep.check("R03.3", ok, m, rc, "run_contract: except Exception -> return []", "a setUp failure must produce no passing result")
    fs = [s for s in body_walk(rc) if isinstance(s, ast.Assign) and src(s.targets[0]) == "ctx.frontier_states[0]"]
    ok = len(fs) == 1 and src(fs[0].value) == "[setup_ex]"
    rep.check("R03.3", ok, m, fs[0] if fs else rc, src(fs[0]) if fs else "ctx.frontier_states[0] = ?", "frontier 0 must be exactly the post-setUp state")


def r03_4_verdict_domain(repo: Repo, rep: Report):
    rep.rule("R03.4", "verdict counter keys are within {sat, unsat, unknown, err}; every test sees every frontier state")
    m, fn = repo.fn("__main__.run_test")
    keys = [fold_in(repo, "__main__", s.slice) for s in body_walk(fn) if isinstance(s, ast.Subscript) and src(s.value) == "counter"]
    ok = bool(keys) and all(k in ("sat", "unsat", "unknown", "err") for k in keys) and {"sat", "err", "unknown"} <= set(keys)
    rep.check("R03.4", ok, m, fn, f"counter keys used: {keys}", "a misspelt key silently reads 0")
    # run_message: both loops complete, every state is executed
    mm, rm = repo.fn("__main__.run_message")
    loops = [l for l in body_walk(rm) if isinstance(l, ast.For)]
    ok = len(loops) == 2 and src(loops[0].iter) == "range(ctx.max_call_depth + 1)" and src(loops[1].iter) == "get_frontier(contract_ctx, depth)"
    rep.check("R03.4", ok, mm, rm, f"loops: {[src(l.iter) for l in loops]}", "run_message must iterate depth 0..max_call_depth and every frontier state")
    for l in loops:
        bc = [b for b in _loop_level(l.body) if isinstance(b, (ast.Break, ast.Continue))]
        rep.check("R03.4", not bc, mm, l, f"for {src(l.target)} in {src(l.iter)}: no break/continue", "frontier iteration is cut short")
    ys = [y for y in body_walk(rm) if isinstance(y, ast.YieldFrom)]
    ok = len(ys) == 1 and src(ys[0].value) == "sevm.run_message(ex, message, path)" and not [g for g in guard_set(mm, ys[0])]
    rep.check("R03.4", ok, mm, ys[0] if ys else rm, src(ys[0]) if ys else "yield from ?", "every frontier state must be executed and all its paths yielded")
    # run_test consumes run_message's generator
    exs = [s for s in body_walk(fn) if isinstance(s, ast.Assign) and src(s.targets[0]) == "exs"]
    ok = len(exs) == 1 and src(exs[0].value) == "run_message(ctx, sevm, message, dyn_params)"
    rep.check("R03.4", ok, m, exs[0] if exs else fn, src(exs[0]) if exs else "exs = ?", "run_test must explore via run_message")
    # the test message targets the test contract with the generated calldata
    msg = [c for c in body_walk(fn) if isinstance(c, ast.Call) and call_name(c) == "Message"]
    ok = len(msg) == 1 and src(kwarg(msg[0], "target")) == "FOUNDRY_TEST" and src(kwarg(msg[0], "data")) == "cd"
    rep.check("R03.4", ok, m, msg[0] if msg else fn, src(msg[0])[:150] if msg else "Message(...)", "the test transaction must call the test contract with the symbolic calldata")


def r03_5_shared(repo: Repo, rep: Report):
    """end-to-end PASS also rests on: the query is the path's constraints (C11), every length candidate is laid
    out and explored (C12), PASS-dominance and the join barrier (C05), sound cache hits (C16)"""
    from hsa.rules.c05 import r05_1_pass_dominance, r05_4_order_independence
    from hsa.rules.c11 import r11_1_serialisation
    from hsa.rules.c12 import r12_4_candidates
    from hsa.rules.c16 import r16_2_subset_test

    rep.rule("R11.1", "serialisation is complete, ids are term ids (shared with C11)")
    rep.rule("R12.4", "all length candidates recorded, registered, laid out for the maximum (shared with C12)")
    rep.rule("R05.1", "PASS only under the negation of all failure guards (shared with C05)")
    rep.rule("R05.4", "verdict after the join barrier (shared with C05)")
    rep.rule("R16.2", "cache hit needs a full core (shared with C16)")
    for f in (r11_1_serialisation, r12_4_candidates, r05_1_pass_dominance, r05_4_order_independence, r16_2_subset_test):
        f(repo, rep)
    # C03 is the end-to-end statement: a false PASS results from any of -- a feasible path dropped (C02), a word
    # operation modelled wrongly (C06), a query that is not the path's constraints or a refinement that is not exact
    # (C11, C04 R04.2), an unsound cache hit (C16), state shared between sibling paths (C20 R20.1/R20.2), an
    # assert/assume cheatcode with another meaning (C13), or an option of the test's own annotation that is dropped
    # (C18 R18.2/R18.4/R18.7, e.g. --panic-error-codes leaking from or dropped for a test).  Their rules are evaluated here too.
    from hsa.rules import c02, c04, c06, c11, c13, c16, c18, c20

    shared = [
        *[f for f in c02.RULES],
        c04.r04_2_refine_exact,
        c06.r06_1_zero_divisor, c06.r06_3_operator_table, c06.r06_4_wrapper_term_boundary, c06.r06_5_bool_closedness, c06.r06_6_byte_and_signextend,
        c11.r11_2_constraint_ownership, c11.r11_3_dump_writer_reader, c11.r11_4_refine,
        c13.r13_1_selector_table, c13.r13_2_mk_cond, c13.r13_3_sign_and_arity, c13.r13_5_branching,
        c16.r16_1_core_recording, c16.r16_3_ids_equal_asserted, c16.r16_4_id_stability, c16.r16_5_scope,
        c18.r18_2_lookup, c18.r18_4_scoping, c18.r18_7_override_forwarding,
        c20.r20_1_fork_copies, c20.r20_2_inactive_paths,
    ]
    # ... two parameters that become one symbol (C12 R12.3 / C20 R20.5: a failure that needs them to differ is pruned),
    # or a cut whose warning is lost ("PASS without a bound warning": C10 R10.2 / R10.3)
    from hsa.rules import c10, c12

    shared += [c12.r12_3_leaf_freshness, c20.r20_5_uid_nominal, c10.r10_2_loop_logs_reported, c10.r10_3_reports_not_deduplicated]
    seen = set()
    for f in shared:
        if f.__name__ in seen:
            continue
        seen.add(f.__name__)
        f(repo, rep)


RULES = [r03_1_classification, r03_2_panic_recognition, r03_3_setup_fail_closed, r03_4_verdict_domain, r03_5_shared]
