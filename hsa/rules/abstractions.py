"""Shared facts about the arithmetic abstractions (f_evm_*): declarations, refinement, EVM operator chain."""

from __future__ import annotations

import ast
import re

from hsa.core import AnalysisError, Repo, body_walk, call_name, src
from hsa.fold import UNKNOWN, fold_in

# EVM opcode -> SMT-LIB operator of its exact semantics (division/remainder by zero = 0 handled by the ite)
EVM_SMT = {"MUL": "bvmul", "DIV": "bvudiv", "SDIV": "bvsdiv", "MOD": "bvurem", "SMOD": "bvsrem", "EXP": "exp"}
# HalmosBitVec method per opcode
EVM_METHOD = {"ADD": "add", "SUB": "sub", "MUL": "mul", "DIV": "div", "SDIV": "sdiv", "MOD": "mod", "SMOD": "smod", "EXP": "exp"}
DIV_FAMILY = {"bvudiv", "bvurem", "bvsdiv", "bvsrem"}
NEVER_REFINED = {"exp"}

_SORT = re.compile(r"^BitVecSort(\d+)$|^BitVecSorts\[(\d+)\]$")


def declared_abstractions(repo: Repo) -> dict[str, dict]:
    """symbol expression text (e.g. 'f_div', 'f_mod[264]') -> {name, op, width, sorts, node}"""
    m = repo.mod("sevm")
    out = {}

    def parse_fn(call: ast.Call):
        if not (isinstance(call, ast.Call) and call_name(call) == "Function" and call.args):
            return None
        name = fold_in(repo, "sevm", call.args[0])
        if not isinstance(name, str):
            return None
        sorts = []
        for a in call.args[1:]:
            mm = _SORT.match(src(a))
            sorts.append(int(mm.group(1) or mm.group(2)) if mm else None)
        return name, sorts

    for st in m.tree.body:
        if not (isinstance(st, ast.Assign) and len(st.targets) == 1 and isinstance(st.targets[0], ast.Name)):
            continue
        var = st.targets[0].id
        if isinstance(st.value, ast.Dict):
            for k, v in zip(st.value.keys, st.value.values):
                p = parse_fn(v)
                if p and p[0].startswith("f_evm"):
                    kk = fold_in(repo, "sevm", k)
                    out[f"{var}[{kk}]"] = {"name": p[0], "sorts": p[1], "node": v, "key": kk, "var": var}
        else:
            p = parse_fn(st.value)
            if p and p[0].startswith("f_evm"):
                out[var] = {"name": p[0], "sorts": p[1], "node": st.value, "key": None, "var": var}
    for sym, d in out.items():
        mm = re.match(r"^f_evm_([a-z]+)_(\d+)$", d["name"])
        d["op"] = mm.group(1) if mm else None
        d["width"] = int(mm.group(2)) if mm else None
    if len(out) < 6:
        raise AnalysisError(f"only {len(out)} f_evm_* abstractions found in sevm.py")
    return out


def refine_regexes(repo: Repo):
    """[(pattern, replacement)] literals of the re.sub calls in solve.refine"""
    m, fn = repo.fn("solve.refine")
    subs = []
    for c in body_walk(fn):
        if isinstance(c, ast.Call) and src(c.func) == "re.sub" and len(c.args) >= 3:
            p, r = fold_in(repo, "solve", c.args[0]), fold_in(repo, "solve", c.args[1])
            if not isinstance(p, str) or not isinstance(r, str):
                raise AnalysisError("refine: re.sub pattern/replacement is not a literal")
            subs.append((p, r, c))
    if not subs:
        raise AnalysisError("refine: no re.sub calls found")
    return m, fn, subs


def sexpr(text: str):
    """tiny S-expression reader -> nested lists of atoms"""
    toks = re.findall(r"\(|\)|[^\s()]+", text)
    pos = 0

    def rd():
        nonlocal pos
        t = toks[pos]
        pos += 1
        if t == "(":
            lst = []
            while toks[pos] != ")":
                lst.append(rd())
            pos += 1
            return lst
        if t == ")":
            raise ValueError("unbalanced")
        return t

    out = []
    while pos < len(toks):
        out.append(rd())
    return out


def expected_definition(name: str, op: str, width: int):
    bv = ["_", "BitVec", str(width)]
    zero = ["_", "bv0", str(width)]
    head = ["define-fun", name, [["x", bv], ["y", bv]], bv]
    if op in DIV_FAMILY:
        return head + [["ite", ["=", "y", zero], zero, [op, "x", "y"]]]
    if op == "bvmul":
        return head + [[op, "x", "y"]]
    return None


def declaration_text(name: str, width: int) -> str:
    return f"(declare-fun {name} ((_ BitVec {width}) (_ BitVec {width})) (_ BitVec {width}))"
