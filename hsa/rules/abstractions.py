"""Shared facts about the arithmetic abstractions (f_evm_*): declarations, refinement, EVM operator chain."""

from __future__ import annotations

import ast
import re

from hsa.core import AnalysisError, Repo, body_walk, call_name, src
from hsa.fold import UNKNOWN, fold_in

# EVM opcode -> SMT-LIB operator of its exact semantics (division/remainder by zero = 0 handled by the ite)
EVM_SMT = {"MUL": "bvmul", "DIV": "bvudiv", "SDIV": "bvsdiv", "MOD": "bvurem", "SMOD": "bvsrem", "EXP": "exp"}
# HalmosBitVec method per opcode
EVM_METHOD = {"ADD": "add", "SUB": "sub", "MUL": "mul", "DIV": "div", "SDIV": "sdiv", "MOD": "mod", "SMOD": "smod", "EXP": "exp"}
DIV_FAMILY = {"bvudiv", "bvurem", "bvsdiv", "bvsrem"}
NEVER_REFINED = {"exp"}

_SORT = re.compile(r"^BitVecSort(\d+)$|^BitVecSorts\[(\d+)\]$")


def declared_abstractions(repo: Repo) -> dict[str, dict]:
    """symbol expression text (e.g. 'f_div', 'f_mod[264]') -> {name, op, width, sorts, node}"""
    m = repo.mod("sevm")
    out = {}

    from hsa.fold import Folder

    def sort_width(a, env, local_defs):
        # BitVecSort256 | BitVecSorts[256] | BitVecSorts[<const expr>] | a local bound to one of these
        if isinstance(a, ast.Name) and a.id in local_defs:
            a = local_defs[a.id]
        mm = _SORT.match(src(a))
        if mm:
            return int(mm.group(1) or mm.group(2))
        if isinstance(a, ast.Subscript) and src(a.value) == "BitVecSorts":
            v = Folder(repo, "sevm", env).fold(a.slice)
            return v if isinstance(v, int) else None
        return None

    def parse_fn(call, env=None, local_defs=None, depth=0):
        env = env or {}
        local_defs = local_defs or {}
        if not isinstance(call, ast.Call):
            return None
        if call_name(call) == "Function" and call.args:
            name = Folder(repo, "sevm", env).fold(call.args[0])
            if not isinstance(name, str):
                return None
            return name, [sort_width(a, env, local_defs) for a in call.args[1:]]
        # a declaration helper of the module: fold it on the constant arguments of this call
        h = m.defs.get(call_name(call)) if isinstance(call.func, ast.Name) else None
        if isinstance(h, ast.FunctionDef) and depth < 2:
            params = [a.arg for a in h.args.args]
            defaults = dict(zip(params[len(params) - len(h.args.defaults):], h.args.defaults))
            env2 = {}
            for i, pn in enumerate(params):
                node = call.args[i] if i < len(call.args) else next((k.value for k in call.keywords if k.arg == pn), defaults.get(pn))
                if node is None:
                    return None
                v = Folder(repo, "sevm", env).fold(node)
                if v is UNKNOWN:
                    return None
                env2[pn] = v
            body = [x for x in h.body if not (isinstance(x, ast.Expr) and isinstance(x.value, ast.Constant))]
            defs = {}
            for x in body[:-1]:
                if isinstance(x, ast.Assign) and len(x.targets) == 1 and isinstance(x.targets[0], ast.Name):
                    defs[x.targets[0].id] = x.value
                else:
                    return None
            if body and isinstance(body[-1], ast.Return) and isinstance(body[-1].value, ast.Call):
                return parse_fn(body[-1].value, env2, defs, depth + 1)
        return None

    def add(sym, var, key, node, p):
        if p and p[0].startswith("f_evm"):
            out[sym] = {"name": p[0], "sorts": p[1], "node": node, "key": key, "var": var}

    for st in m.tree.body:
        if not (isinstance(st, ast.Assign) and len(st.targets) == 1 and isinstance(st.targets[0], ast.Name)):
            continue
        var = st.targets[0].id
        if isinstance(st.value, ast.Dict):
            for k, v in zip(st.value.keys, st.value.values):
                kk = fold_in(repo, "sevm", k)
                add(f"{var}[{kk}]", var, kk, v, parse_fn(v))
        elif isinstance(st.value, ast.DictComp) and len(st.value.generators) == 1 and isinstance(st.value.generators[0].target, ast.Name) and not st.value.generators[0].ifs:
            g = st.value.generators[0]
            it = fold_in(repo, "sevm", g.iter)
            if isinstance(it, (tuple, list)):
                for item in it:
                    env = {g.target.id: item}
                    kk = Folder(repo, "sevm", env).fold(st.value.key)
                    add(f"{var}[{kk}]", var, kk, st.value.value, parse_fn(st.value.value, env))
        else:
            add(var, var, None, st.value, parse_fn(st.value))
    for sym, d in out.items():
        mm = re.match(r"^f_evm_([a-z]+)_(\d+)$", d["name"])
        d["op"] = mm.group(1) if mm else None
        d["width"] = int(mm.group(2)) if mm else None
    if len(out) < 6:
        raise AnalysisError(f"only {len(out)} f_evm_* abstractions found in sevm.py")
    return out


def refine_regexes(repo: Repo):
    """[(pattern, replacement)] literals of the re.sub calls in solve.refine"""
    m, fn = repo.fn("solve.refine")
    subs = []
    for c in body_walk(fn):
        if isinstance(c, ast.Call) and src(c.func) == "re.sub" and len(c.args) >= 3:
            p, r = fold_in(repo, "solve", c.args[0]), fold_in(repo, "solve", c.args[1])
            if not isinstance(p, str) or not isinstance(r, str):
                raise AnalysisError("refine: re.sub pattern/replacement is not a literal")
            subs.append((p, r, c))
    if not subs:
        raise AnalysisError("refine: no re.sub calls found")
    return m, fn, subs


def sexpr(text: str):
    """tiny S-expression reader -> nested lists of atoms"""
    toks = re.findall(r"\(|\)|[^\s()]+", text)
    pos = 0

    def rd():
        nonlocal pos
        t = toks[pos]
        pos += 1
        if t == "(":
            lst = []
            while toks[pos] != ")":
                lst.append(rd())
            pos += 1
            return lst
        if t == ")":
            raise ValueError("unbalanced")
        return t

    out = []
    while pos < len(toks):
        out.append(rd())
    return out


def expected_definition(name: str, op: str, width: int):
    bv = ["_", "BitVec", str(width)]
    zero = ["_", "bv0", str(width)]
    head = ["define-fun", name, [["x", bv], ["y", bv]], bv]
    if op in DIV_FAMILY:
        return head + [["ite", ["=", "y", zero], zero, [op, "x", "y"]]]
    if op == "bvmul":
        return head + [[op, "x", "y"]]
    return None


def declaration_text(name: str, width: int) -> str:
    return f"(declare-fun {name} ((_ BitVec {width}) (_ BitVec {width})) (_ BitVec {width}))"
