"""C09 — message calls are atomic and see the right context."""

from __future__ import annotations

import ast
import re

from hsa.core import AnalysisError, Repo, Report, body_walk, call_name, dotted, find_assign, kwarg, last_attr, src
from hsa.flow import guard_text, guards_at
from hsa.fold import UNKNOWN, Folder, fold_in
from hsa.origin import origin_text
from hsa.rules.common import guard_set, method_calls

EXPLANATION = (
    "Decides, for both frame creators (call_known, create): a snapshot of every world-state component (code, "
    "storage, transient storage, balance) is taken before the first mutation and is a copy for containers; "
    "the callback's failure branch - and only it - assigns every component back from its snapshot through a "
    "fresh copy; the success flag pushed is ONE iff the sub-frame has no error; the parent's VM state and "
    "context are restored by copy; the Message built for each of CALL/CALLCODE/DELEGATECALL/STATICCALL "
    "(conditional arguments folded per opcode) carries the EVM-specified target, caller, value, code address "
    "and static flag (inherited, never reset except by CREATE); every world-state mutator reachable from an "
    "instruction is dominated by the static-context test; value transfer debits before it reads the "
    "recipient's balance, with the same amount; returndata semantics. Values of balances are not decided."
    ' Also evaluated here: fork-copy completeness and the absence of custom copy hooks (C20 R20.1, C14 R14.1): a prank or frame record shared between sibling paths changes the sender a call sees.'
    ' Round 4: is_create recognises exactly CREATE and CREATE2 in any comparison form; the insufficient-funds branch is kept unless proved infeasible (C02 R02.1 at handle_insufficient_fund_case / transfer_value).'
    ' Round 5: table of EVM failure classes, each an ExceptionalHalt (R09.7); any further static-context failure site must not decide by a structural test of the value term and must exempt CALLCODE.'
    ' Round 7: the insufficient-funds branch is skipped only for a zero value - every early return of handle_insufficient_fund_case is guarded by tests over the value alone (C02 R02.7).'
)
ASSUMPTIONS = ["deepcopy / dict.copy semantics", "StorageData has no custom __deepcopy__ that shares state (checked)"]

W = ("code", "storage", "transient_storage", "balance")
SNAP_SHAPE = {
    "code": ("{}.copy()",),
    "storage": ("deepcopy({})",),
    "transient_storage": ("deepcopy({})",),
    "balance": ("{}",),
}


def _snapshots(m, fn):
    """{component: (varname, assign stmt)} for `orig_x = <copy of ex.x>` at the top level of fn"""
    out = {}
    for st in fn.body:
        if isinstance(st, ast.Assign) and len(st.targets) == 1 and isinstance(st.targets[0], ast.Name):
            v = src(st.value)
            for w in W:
                if v in [s.format(f"ex.{w}") for s in SNAP_SHAPE[w]]:
                    out[w] = (st.targets[0].id, st)
    return out


def _check_frame(repo, rep, creator_q, callback_q, mutators, failure_guards):
    m, fn = repo.fn(creator_q)
    _, cb = repo.fn(callback_q)
    snaps = _snapshots(m, fn)
    for w in W:
        ok = w in snaps
        rep.check("R09.1", ok, m, snaps[w][1] if ok else fn, f"{creator_q}: snapshot of {w}: {src(snaps[w][1]) if ok else 'MISSING'}", f"no copy-snapshot of ex.{w} before the sub-frame starts: a failing frame cannot be rolled back")
    # snapshot precedes the first mutation
    first_mut = None
    for st in fn.body:
        for c in ast.walk(st) if not isinstance(st, (ast.FunctionDef, ast.ClassDef)) else []:
            if isinstance(c, ast.Call) and (call_name(c) in mutators or last_attr(c) in mutators):
                if first_mut is None or c.lineno < first_mut.lineno:
                    first_mut = c
        if isinstance(st, ast.Assign) and any(isinstance(t, ast.Subscript) and src(t.value) in ("ex.storage", "ex.transient_storage", "ex.code") for t in st.targets):
            if first_mut is None or st.lineno < first_mut.lineno:
                first_mut = st
    if first_mut is None:
        raise AnalysisError(f"{creator_q}: no world-state mutation found (anchor lost)")
    for w, (var, st) in snaps.items():
        rep.check("R09.1", st.lineno < first_mut.lineno, m, st, f"{creator_q}: {src(st)} precedes first mutation `{src(first_mut)[:50]}` (line {first_mut.lineno})", "snapshot taken after the state was already modified (the value transfer / account setup would survive a revert)")
    # restores in the callback
    restores = {w: [] for w in W}
    for st in body_walk(cb):
        if isinstance(st, ast.Assign) and len(st.targets) == 1:
            t = src(st.targets[0])
            for w in W:
                if t == f"new_ex.{w}":
                    restores[w].append(st)
    for w in W:
        rs = restores[w]
        if w not in snaps:
            continue
        var = snaps[w][0]
        ok = len(rs) == 1
        if ok:
            want = [s.format(var) for s in SNAP_SHAPE[w]]
            gs = guard_set(m, rs[0])
            ok = src(rs[0].value) in want and bool(gs & failure_guards)
            rep.check("R09.1", ok, m, rs[0], f"{callback_q}: {src(rs[0])} under {sorted(gs & failure_guards) or sorted(gs)}", f"failed frame must restore {w} from a fresh copy of its snapshot, only on the failure branch")
        else:
            rep.bad("R09.1", m, cb, f"{callback_q}: {len(rs)} assignment(s) to new_ex.{w}", f"exactly one restore of {w} expected on the failure branch ({'none: effects of a failed frame persist' if not rs else 'several'})")
    # parent's VM state/context restored by copy
    vm = {
        "new_ex.pgm": ("ex.pgm",),
        "new_ex.pc": ("ex.pc",),
        "new_ex.insn": ("ex.insn",),
        "new_ex.st": ("deepcopy(ex.st)",),
        "new_ex.jumpis": ("deepcopy(ex.jumpis)",),
        "new_ex.context": ("deepcopy(ex.context)",),
        "new_ex.callback": ("ex.callback",),
    }
    for tgt, want in vm.items():
        sts = [s for s in body_walk(cb) if isinstance(s, ast.Assign) and src(s.targets[0]) == tgt]
        ok = len(sts) == 1 and src(sts[0].value) in want
        rep.check("R09.1", ok, m, sts[0] if sts else cb, f"{callback_q}: {src(sts[0]) if sts else tgt + ' = ?'}", f"{tgt} must be restored from the parent ({want[0]}); sub-paths share the parent Exec, so containers need a copy")
    app = [c for c in method_calls(cb, "append") if dotted(c.func) == "new_ex.context.trace.append"]
    ok = len(app) == 1 and src(app[0].args[0]) == "subcall"
    rep.check("R09.1", ok, m, app[0] if app else cb, f"{callback_q}: new_ex.context.trace.append(subcall)", "the finished sub-frame must be recorded in the parent's trace (returndata and failure-flag search depend on it)")
    sc = [src(v) for v in find_assign(cb, "subcall")]
    rep.check("R09.1", sc == ["new_ex.context"], m, cb, f"{callback_q}: subcall = {sc}", "subcall must be the finished frame's context, captured before the context is replaced")
    # sub-frame shares the world state by reference (effects of a successful frame persist)
    ex_calls = [c for c in fn.body if isinstance(c, ast.Assign) and isinstance(c.value, ast.Call) and call_name(c.value) == "Exec"]
    if len(ex_calls) != 1:
        raise AnalysisError(f"{creator_q}: sub-frame Exec(...) construction not found")
    ec = ex_calls[0].value
    want = {"code": "ex.code", "storage": "ex.storage", "transient_storage": "ex.transient_storage", "balance": "ex.balance", "path": "ex.path", "block": "ex.block", "callback": "callback", "pc": "0", "st": "State()", "jumpis": "{}", "alias": "ex.alias", "cnts": "ex.cnts", "sha3s": "ex.sha3s", "storages": "ex.storages", "balances": "ex.balances"}
    for k, v in want.items():
        got = kwarg(ec, k)
        rep.check("R09.1", got is not None and src(got) == v, m, ec, f"{creator_q}: sub-frame {k}={src(got) if got is not None else None}", f"sub-frame must be created with {k}={v}")
    ctx = kwarg(ec, "context")
    ok = ctx is not None and src(ctx) == "CallContext(message=message, depth=ex.context.depth + 1)"
    rep.check("R09.1", ok, m, ec, f"{creator_q}: sub-frame context={src(ctx) if ctx is not None else None}", "sub-frame needs a fresh CallContext (fresh prank/output) one level deeper")
    pushes = [c for c in method_calls(fn, "push") if dotted(c.func) == "stack.push" and src(c.args[0]) == "sub_ex"]
    rep.check("R09.1", len(pushes) == 1, m, pushes[0] if pushes else fn, f"{creator_q}: stack.push(sub_ex)", "the sub-frame must be scheduled")


def r09_1_snapshot_restore(repo: Repo, rep: Report):
    rep.rule("R09.1", "snapshot before first mutation (by copy); failure branch restores every component from a copy; flag; VM state restored")
    _check_frame(repo, rep, "sevm.SEVM.call.call_known", "sevm.SEVM.call.call_known.callback", {"send_callvalue", "transfer_value", "set_code", "balance_update"}, {"not (subcall_success)"})
    _check_frame(repo, rep, "sevm.SEVM.create", "sevm.SEVM.create.callback", {"transfer_value", "set_code", "balance_update"}, {"subcall.output.error is not None"})
    m, cb = repo.fn("sevm.SEVM.call.call_known.callback")
    ss = [src(v) for v in find_assign(cb, "subcall_success")]
    rep.check("R09.1", ss == ["subcall.output.error is None"], m, cb, f"subcall_success = {ss}", "success must mean: the sub-frame ended without error")
    pushes = [c for c in method_calls(cb, "push") if dotted(c.func) == "new_ex.st.push"]
    ok = len(pushes) == 1 and src(pushes[0].args[0]) == "ONE if subcall_success else ZERO" and not (guard_set(m, pushes[0]) - {"not (subcall.is_stuck())"})
    rep.check("R09.1", ok, m, pushes[0] if pushes else cb, src(pushes[0]) if pushes else "new_ex.st.push(ONE if subcall_success else ZERO)", "call flag must be 1 iff the sub-frame succeeded")
    rd = [c for c in body_walk(cb) if isinstance(c, ast.Call) and call_name(c) == "copy_returndata_to_memory"]
    ok = len(rd) == 1 and [src(a) for a in rd[0].args] == ["returndata", "ret_loc", "ret_size", "new_ex"] and [src(v) for v in find_assign(cb, "returndata")] == ["subcall.output.data"]
    rep.check("R09.1", ok, m, rd[0] if rd else cb, src(rd[0]) if rd else "copy_returndata_to_memory(...)", "return data of the sub-frame must be copied to the caller's memory window")
    if rd and pushes:
        st_restore = [s for s in body_walk(cb) if isinstance(s, ast.Assign) and src(s.targets[0]) == "new_ex.st"]
        ok = bool(st_restore) and st_restore[0].lineno < rd[0].lineno < 10**9 and st_restore[0].lineno < pushes[0].lineno
        rep.check("R09.1", ok, m, rd[0], "memory copy and flag push happen after new_ex.st is restored", "writes into a state object that is replaced afterwards are lost")
    # create callback: success installs code + pushes address; failure pushes 0
    m, cc = repo.fn("sevm.SEVM.create.callback")
    sc = [c for c in method_calls(cc, "set_code") if dotted(c.func) == "new_ex.set_code"]
    ok = len(sc) == 1 and "subcall.output.error is None" in guard_set(m, sc[0]) and src(sc[0].args[0]) == "new_addr"
    rep.check("R09.1", ok, m, sc[0] if sc else cc, f"{src(sc[0]) if sc else 'new_ex.set_code(new_addr, new_code)'} on success", "deployed code must be installed only on success, at the new address")
    nc = [src(v) for v in find_assign(cc, "new_code")]
    dc = [src(v) for v in find_assign(cc, "deployed_bytecode")]
    rep.check("R09.1", nc == ["Contract(deployed_bytecode)"] and dc == ["subcall.output.data"], m, cc, f"new_code = {nc}; deployed_bytecode = {dc}", "the installed code must be the creation frame's return data")
    pa = [c for c in method_calls(cc, "push_any") if src(c.args[0]) == "new_addr"]
    pz = [c for c in method_calls(cc, "push") if dotted(c.func) == "new_ex.st.push" and src(c.args[0]) == "ZERO"]
    ok = len(pa) == 1 and "subcall.output.error is None" in guard_set(m, pa[0]) and len(pz) == 1 and "subcall.output.error is not None" in guard_set(m, pz[0])
    rep.check("R09.1", ok, m, cc, "create: push new_addr on success, ZERO on failure", "CREATE result must be the new address iff creation succeeded")
    # address collision: push 0, no state change
    m, cr = repo.fn("sevm.SEVM.create")
    col = [i for i in cr.body if isinstance(i, ast.If) and src(i.test) == "new_addr in ex.code"]
    ok = len(col) == 1 and "ex.st.push(ZERO)" in src(col[0]) and "stack.push(ex)" in src(col[0]) and isinstance(col[0].body[-1], ast.Return)
    rep.check("R09.1", ok, m, col[0] if col else cr, "address collision: push ZERO, continue, return before any state change", "collision must fail the creation without touching state")
    if col:
        snaps = _snapshots(m, cr)
        ok = all(st.lineno > col[0].lineno for _, st in snaps.values())
        rep.check("R09.1", ok, m, col[0], "collision check precedes account setup", "collision detected after the account was already reset")


SPEC = {
    # op: (target, caller, value)
    "OP_CALL": ("resolved_to", "pranked_caller", "fund"),
    "OP_CALLCODE": ("ex.this()", "pranked_caller", "fund"),
    "OP_DELEGATECALL": ("ex.this()", "ex.caller()", "ex.callvalue()"),
    "OP_STATICCALL": ("resolved_to", "pranked_caller", "fund"),
}


def _choose(repo, node, env):
    """resolve conditional expressions whose tests fold under env; return the text of the chosen leaf"""
    f = Folder(repo, "sevm", env)
    while isinstance(node, ast.IfExp):
        t = f.fold(node.test)
        if t is UNKNOWN:
            return src(node)
        node = node.body if t else node.orelse
    return src(node)


def r09_2_message_construction(repo: Repo, rep: Report):
    rep.rule("R09.2", "Message(target, caller, value, static, code) per call scheme equals the EVM table")
    m, fn = repo.fn("sevm.SEVM.call")
    msgs = [s for s in fn.body if isinstance(s, ast.Assign) and src(s.targets[0]) == "message" and isinstance(s.value, ast.Call) and call_name(s.value) == "Message"]
    if len(msgs) != 1:
        raise AnalysisError("SEVM.call: Message(...) construction not found")
    mc = msgs[0].value
    for op, (tgt, caller, value) in SPEC.items():
        v = repo.const("contract", op)
        env = {"op": v}
        got = (_choose(repo, kwarg(mc, "target"), env), _choose(repo, kwarg(mc, "caller"), env), _choose(repo, kwarg(mc, "value"), env))
        rep.check("R09.2", got == (tgt, caller, value), m, mc, f"{op}: target={got[0]}, caller={got[1]}, value={got[2]}", f"EVM: {op} runs with target={tgt}, msg.sender={caller}, msg.value={value}")
        st = kwarg(mc, "is_static")
        f = Folder(repo, "sevm", env)
        static_ok = False
        if isinstance(st, ast.BoolOp) and isinstance(st.op, ast.Or):
            inherit = [x for x in st.values if src(x) in ("ex.context.message.is_static", "ex.message().is_static")]
            rest = [x for x in st.values if x not in inherit]
            vals = [f.fold(x) for x in rest]
            static_ok = len(inherit) == 1 and len(rest) == 1 and vals[0] is (op == "OP_STATICCALL")
        rep.check("R09.2", static_ok, m, mc, f"{op}: is_static={src(st)}", "static flag must be inherited from the caller and set by STATICCALL only")
        # fund: popped for CALL/CALLCODE, zero for STATICCALL/DELEGATECALL
        fv = find_assign(fn, "fund")
        got_f = _choose(repo, fv[0], env) if len(fv) == 1 else "?"
        want_f = "ZERO" if op in ("OP_STATICCALL", "OP_DELEGATECALL") else "ex.st.popi()"
        rep.check("R09.2", got_f == want_f, m, fv[0] if fv else fn, f"{op}: fund = {got_f}", f"{op} must take its value operand as {want_f}")
    for k, want in (("origin", "pranked_origin"), ("data", "arg"), ("call_scheme", "op")):
        rep.check("R09.2", src(kwarg(mc, k)) == want, m, mc, f"Message {k}={src(kwarg(mc, k))}", f"Message {k} must be {want}")
    rt = [src(v) for v in find_assign(fn, "resolved_to")]
    rep.check("R09.2", rt == ["to_alias if to_alias is not None else to"], m, fn, f"resolved_to = {rt}", "call target must be the resolved alias of the address operand")
    arg = [src(v) for v in find_assign(fn, "arg")]
    rep.check("R09.2", arg == ["ex.st.mslice(arg_loc, arg_size)"], m, fn, f"arg = {arg}", "calldata must be the caller's memory window")
    # code executed: the alias' code for every scheme (delegatecall runs callee code in caller context)
    _, ck = repo.fn("sevm.SEVM.call.call_known")
    ecs = [c for c in body_walk(ck) if isinstance(c, ast.Call) and call_name(c) == "Exec"]
    ok = len(ecs) == 1 and src(kwarg(ecs[0], "pgm")) == "ex.code[to]"
    rep.check("R09.2", ok, m, ecs[0] if ecs else ck, f"sub-frame pgm={src(kwarg(ecs[0], 'pgm')) if ecs else '?'}", "the code run must be the code at the called address")
    calls = [c for c in fn.body if isinstance(c, ast.Expr) and isinstance(c.value, ast.Call) and call_name(c.value) == "call_known"]
    ok = len(calls) == 1 and src(calls[0].value.args[0]) == "to_alias"
    rep.check("R09.2", ok, m, calls[0] if calls else fn, "call_known(to_alias)", "known calls must execute the aliased account")
    # value transfer only for CALL (CALLCODE transfers to itself; DELEGATECALL/STATICCALL none)
    _, sv = repo.fn("sevm.SEVM.call.send_callvalue")
    tv = [c for c in body_walk(sv) if isinstance(c, ast.Call) and last_attr(c) == "transfer_value"]
    ok = len(tv) == 1 and "op == OP_CALL" in guard_set(m, tv[0]) and [src(a) for a in tv[0].args] == ["ex", "pranked_caller", "to", "fund", "condition"]
    rep.check("R09.2", ok, m, tv[0] if tv else sv, f"send_callvalue: {src(tv[0]) if tv else '?'} under op == OP_CALL", "value moves from the (pranked) caller to the callee for CALL only")
    # CREATE
    mcr, cr = repo.fn("sevm.SEVM.create")
    msgs = [s for s in cr.body if isinstance(s, ast.Assign) and src(s.targets[0]) == "message"]
    if len(msgs) != 1:
        raise AnalysisError("SEVM.create: Message(...) construction not found")
    mc = msgs[0].value
    want = {"target": "new_addr", "caller": "pranked_caller", "origin": "pranked_origin", "value": "value", "is_static": "False", "call_scheme": "op", "data": "create_hexcode"}
    for k, v in want.items():
        rep.check("R09.2", src(kwarg(mc, k)) == v, mcr, mc, f"CREATE Message {k}={src(kwarg(mc, k))}", f"creation frame must have {k}={v}")
    ecs = [c for c in cr.body if isinstance(c, ast.Assign) and isinstance(c.value, ast.Call) and call_name(c.value) == "Exec"]
    ok = len(ecs) == 1 and src(kwarg(ecs[0].value, "pgm")) == "create_code" and [src(v) for v in find_assign(cr, "create_code")] == ["Contract(create_hexcode)"]
    rep.check("R09.2", ok, mcr, ecs[0] if ecs else cr, "creation frame runs Contract(create_hexcode) from memory[loc:loc+size]", "creation code must be the init code taken from memory")
    tv = [c for c in cr.body if isinstance(c, ast.Expr) and isinstance(c.value, ast.Call) and last_attr(c.value) == "transfer_value"]
    ok = len(tv) == 1 and [src(a) for a in tv[0].value.args] == ["ex", "pranked_caller", "new_addr", "value"]
    rep.check("R09.2", ok, mcr, tv[0] if tv else cr, src(tv[0]) if tv else "transfer_value(ex, pranked_caller, new_addr, value)", "endowment goes from the creator to the new account")


MUTATORS = {"store": "storage_model.store", "emit_log": "emit_log", "set_code": "set_code", "transfer_value": "transfer_value", "balance_update": "balance_update"}
STATIC_GUARDS = {"not (ex.message().is_static)", "not (ex.context.message.is_static)"}


def r09_3_static_context(repo: Repo, rep: Report):
    rep.rule("R09.3", "every world-state mutator reachable from an instruction is dominated by the static-context test")
    m = repo.mod("sevm")
    sites = []
    for q in ("sevm.SEVM.sstore", "sevm.SEVM.run", "sevm.SEVM.create", "sevm.SEVM.call.send_callvalue"):
        _, fn = repo.fn(q)
        for c in body_walk(fn):
            if not isinstance(c, ast.Call):
                continue
            d = dotted(c.func)
            if d.endswith("storage_model.store") or last_attr(c) in ("emit_log", "set_code", "transfer_value"):
                if q == "sevm.SEVM.create" and m.qual(c) != q:
                    continue
                sites.append((q, fn, c))
            elif isinstance(c.func, ast.Attribute) and c.func.attr == "balance_update" and q != "sevm.SEVM.sstore":
                sites.append((q, fn, c))
    for q, fn, c in sites:
        gs = guard_set(m, c)
        ok = bool(gs & STATIC_GUARDS)
        if not ok and q == "sevm.SEVM.call.send_callvalue":
            # the guard may live in the enclosing call()
            _, callfn = repo.fn("sevm.SEVM.call")
            for i in callfn.body:
                if isinstance(i, ast.If) and "is_static" in src(i.test) and any(isinstance(x, ast.Raise) and "WriteInStaticContext" in src(x) for x in ast.walk(i)):
                    ok = True
        rep.check("R09.3", ok, m, c, f"{q}: {src(c)[:80]} under {sorted(gs)[:3]}", "state-modifying operation is not dominated by `if ex.message().is_static: raise WriteInStaticContext`: it succeeds inside a static frame")
    storage_resets = [s for s in repo.fn("sevm.SEVM.create")[1].body if isinstance(s, ast.Assign) and isinstance(s.targets[0], ast.Subscript) and src(s.targets[0].value) in ("ex.storage", "ex.transient_storage")]
    for s in storage_resets:
        rep.check("R09.3", bool(guard_set(m, s) & STATIC_GUARDS), m, s, f"create: {src(s)}", "account reset outside the static guard")
    rep.floor("R09.3", 5, "sstore, LOG, create.set_code, create.transfer_value, call.send_callvalue")
    # the raise sites use WriteInStaticContext
    n = 0
    for q in ("sevm.SEVM.sstore", "sevm.SEVM.run", "sevm.SEVM.create"):
        _, fn = repo.fn(q)
        for r in body_walk(fn):
            if isinstance(r, ast.Raise) and "WriteInStaticContext" in src(r):
                n += 1
                gs = guard_set(m, r)
                rep.check("R09.3", bool(gs & {"ex.message().is_static", "ex.context.message.is_static"}), m, r, f"{q}: raise WriteInStaticContext under {sorted(gs)[-2:]}", "static violation raised under the wrong condition")
    if n < 3:
        rep.bad("R09.3", m, None, f"{n} WriteInStaticContext raise sites", "expected SSTORE/TSTORE, LOG and CREATE to reject static frames", construct="sevm.SEVM")
    # any further site that raises WriteInStaticContext (e.g. a repair of the value-transfer TODO in call): the value
    # operand is a term, so `fund != ZERO` is a structural test (a symbolic value that may be 0 would fail the frame,
    # dropping the executions where the zero-value call succeeds), and CALLCODE with value is legal in a static frame
    reviewed = {"sevm.SEVM.sstore", "sevm.SEVM.run", "sevm.SEVM.create"}
    for q, fn in repo.functions("sevm"):
        full = f"sevm.{q}"
        if full in reviewed:
            continue
        for r in body_walk(fn):
            if isinstance(r, ast.Raise) and "WriteInStaticContext" in src(r) and m.qual(r) == full:
                gs = guard_set(m, r)
                structural = [g for g in gs if re.search(r"\b(fund|value|arg_value)\b\s*(!=|==)\s*(ZERO|0)\b|\b(ZERO|0)\s*(!=|==)\s*(fund|value)\b", g) and "check(" not in g]
                scheme = any(re.search(r"op\s*(==\s*OP_CALL\b|!=\s*OP_CALLCODE\b)", g) for g in gs)
                rep.check("R09.3", not structural and scheme, m, r, f"{full}: raise WriteInStaticContext under {sorted(gs)[-3:]}", "static-context failure of a value transfer decided by a structural comparison of the value term and/or for every call scheme: a symbolic value that may be zero fails the frame, and CALLCODE (which moves no balance) is rejected")
    # TSTORE goes through the same guarded sstore
    _, run = repo.fn("sevm.SEVM.run")
    ts = [c for c in body_walk(run) if isinstance(c, ast.Call) and dotted(c.func) == "self.sstore"]
    ok = len(ts) == 2 and sum(1 for c in ts if kwarg(c, "transient") is not None and src(kwarg(c, "transient")) == "True") == 1
    rep.check("R09.3", ok, m, ts[0] if ts else run, f"SSTORE and TSTORE both go through self.sstore ({len(ts)} sites)", "a storage write bypasses the guarded sstore")


def r09_4_value_transfer(repo: Repo, rep: Report):
    rep.rule("R09.4", "transfer: same amount debited and credited; debit precedes the recipient's balance read; zero is a no-op")
    m, fn = repo.fn("sevm.SEVM.transfer_value")
    ups = [c for c in method_calls(fn, "balance_update") if dotted(c.func) == "ex.balance_update"]
    ok = len(ups) == 2
    if ok:
        d, c = ups
        ok = src(d.args[0]) == "caller" and src(d.args[1]) == "BV(caller_balance).sub(value)" and src(c.args[0]) == "to" and src(c.args[1]) == "BV(ex.balance_of(to)).add(value)" and d.lineno < c.lineno
    rep.check("R09.4", ok, m, ups[0] if ups else fn, f"debit: {src(ups[0]) if ups else '?'} ; credit: {src(ups[1]) if len(ups) > 1 else '?'}", "total balance is conserved only if the same amount is subtracted from the sender first and then added to the recipient's (updated) balance")
    cb = [src(v) for v in find_assign(fn, "caller_balance")]
    rep.check("R09.4", cb == ["ex.balance_of(caller)"], m, fn, f"caller_balance = {cb}", "debit must start from the sender's current balance")
    first = fn.body[0] if not (isinstance(fn.body[0], ast.Expr) and isinstance(fn.body[0].value, ast.Constant)) else fn.body[1]
    ok = isinstance(first, ast.If) and src(first.test) == "value.is_concrete and value.value == 0" and isinstance(first.body[0], ast.Return)
    rep.check("R09.4", ok, m, first, "no-op for concrete zero value", "zero-value transfer must not touch balances")
    cond = [s for s in body_walk(fn) if isinstance(s, ast.Assign) and src(s.targets[0]) == "value" and "If(condition" in src(s.value)]
    ok = len(cond) == 1 and src(cond[0].value) == "If(condition, value, Z3_ZERO)" and "condition is not None" in guard_set(m, cond[0]) and (not ups or cond[0].lineno < ups[0].lineno)
    rep.check("R09.4", ok, m, cond[0] if cond else fn, src(cond[0]) if cond else "value = If(condition, value, Z3_ZERO)", "conditional transfer must gate both debit and credit")
    # balance_update defines a fresh array = Store(old, addr, value)
    _, bu = repo.fn("sevm.Exec.balance_update")
    t = src(bu)
    ok = "new_balance = Store(self.balance, addr, value)" in t and "self.balance = new_balance_var" in t and "self.balances[new_balance_var] = new_balance" in t
    rep.check("R09.4", ok, m, bu, "balance_update: balance' = Store(balance, addr, value)", "balance update must write exactly one account")


def r09_5_returndata(repo: Repo, rep: Report):
    rep.rule("R09.5", "returndata is the last sub-frame's output (empty after successful creation); copy min(ret_size, actual)")
    m, fn = repo.fn("sevm.Exec.returndata")
    rets = [(src(r.value), guard_set(m, r)) for r in body_walk(fn) if isinstance(r, ast.Return)]
    ls_ = [src(v) for v in find_assign(fn, "last_subcall")]
    out_ = [src(v) for v in find_assign(fn, "output")]
    ok = (
        ls_ == ["self.context.last_subcall()"]
        and out_ == ["last_subcall.output"]
        and len(rets) == 3
        and rets[0] == ("EMPTY_BYTES", {"not (last_subcall)"})
        and rets[1][0] == "EMPTY_BYTES"
        and {"last_subcall.message.is_create()", "not (output.error)"} <= rets[1][1]
        and rets[2][0] == "output.data"
    )
    rep.check("R09.5", ok, m, fn, f"returndata(): returns {[(v, sorted(g)) for v, g in rets]}", "RETURNDATA must be the last sub-frame's output; empty if there is none or after a successful creation")
    _, ls = repo.fn("sevm.CallContext.last_subcall")
    ok = "for c in reversed(self.trace)" in src(ls) and "isinstance(c, CallContext)" in src(ls)
    rep.check("R09.5", ok, m, ls, "last_subcall(): last CallContext of the trace", "last sub-frame lookup changed")
    _, cp = repo.fn("sevm.copy_returndata_to_memory")
    e = [src(v) for v in find_assign(cp, "effective_ret_size")]
    a = [src(v) for v in find_assign(cp, "actual_ret_size")]
    ok = e == ["min(ret_size, actual_ret_size)"] and a == ["len(returndata)"]
    rep.check("R09.5", ok, m, cp, f"effective_ret_size = {e}", "only min(requested, actual) bytes may be written to the caller's memory")
    d = [src(v) for v in find_assign(cp, "data")]
    ok = d == ["returndata.slice(0, effective_ret_size) if effective_ret_size < actual_ret_size else returndata"] and "ex.st.set_mslice(ret_loc, data)" in src(cp)
    rep.check("R09.5", ok, m, cp, f"data = {d}", "returned bytes must be written at ret_loc, truncated to the effective size")
    _, rs = repo.fn("sevm.Exec.returndatasize")
    rep.check("R09.5", "len(returndata) if returndata is not None else 0" in src(rs), m, rs, "returndatasize = len(returndata())", "RETURNDATASIZE must be the size of returndata()")
    _, ic = repo.fn("sevm.Message.is_create")
    rets_ic = [r for r in body_walk(ic) if isinstance(r, ast.Return) and r.value is not None]
    got = None
    if len(rets_ic) == 1 and isinstance(rets_ic[0].value, ast.Compare) and len(rets_ic[0].value.ops) == 1 and src(rets_ic[0].value.left) == "self.call_scheme":
        cmp_ = rets_ic[0].value
        v = fold_in(repo, "sevm", cmp_.comparators[0])
        if v is not UNKNOWN:
            if isinstance(cmp_.ops[0], ast.In) and isinstance(v, (tuple, list, set, frozenset)):
                got = set(v)
            elif isinstance(cmp_.ops[0], ast.Eq) and isinstance(v, int):
                got = {v}
    elif len(rets_ic) == 1 and isinstance(rets_ic[0].value, ast.BoolOp) and isinstance(rets_ic[0].value.op, ast.Or):
        parts = set()
        for x in rets_ic[0].value.values:
            if isinstance(x, ast.Compare) and len(x.ops) == 1 and isinstance(x.ops[0], ast.Eq) and src(x.left) == "self.call_scheme":
                v = fold_in(repo, "sevm", x.comparators[0])
                if isinstance(v, int):
                    parts.add(v)
                    continue
            parts = None
            break
        got = parts
    if got is None:
        raise AnalysisError("Message.is_create: not a membership / equality test of self.call_scheme")
    rep.check("R09.5", got == {0xF0, 0xF5}, m, ic, f"is_create: call_scheme in {sorted(got)}", "is_create must recognise exactly CREATE (0xf0) and CREATE2 (0xf5): it decides whether RETURNDATA is empty after a successful creation and whether the frame's input is code")


def r09_7_exception_classes(repo: Repo, rep: Report):
    rep.rule("R09.7", "every EVM failure class is an EvmException (fails the frame atomically, caller resumes with flag 0); tool limits are HalmosExceptions (abandon the path)")
    m = repo.mod("exceptions")
    bases = {c.name: [src(b) for b in c.bases] for c in m.tree.body if isinstance(c, ast.ClassDef)}
    nodes = {c.name: c for c in m.tree.body if isinstance(c, ast.ClassDef)}
    # frozen from the reviewed tree / the execution specs (ethereum/execution-specs: ExceptionalHalt subclasses)
    halts = ["StackUnderflowError", "StackOverflowError", "OutOfGasError", "InsufficientFunds", "InvalidOpcode", "InvalidJumpDestError", "MessageDepthLimitError", "WriteInStaticContext", "OutOfBoundsRead", "InvalidParameter", "InvalidContractPrefix", "AddressCollision"]
    want = {h: ["ExceptionalHalt"] for h in halts}
    want.update({"ExceptionalHalt": ["EvmException"], "Revert": ["EvmException"], "EvmException": ["Exception"]})
    for name, b in want.items():
        if name not in bases:
            raise AnalysisError(f"exceptions.{name} not found")
        rep.check("R09.7", bases[name] == b, m, nodes[name], f"class {name}({', '.join(bases[name])})", f"{name} must derive from {b[0]}: raised inside a sub-frame it has to end that frame only (state restored, flag 0 to the caller), not the whole path")
    # nothing else may claim to be an EVM failure
    extra = sorted(n for n, b in bases.items() if n not in want and any(x in ("ExceptionalHalt", "EvmException", "Revert") for x in b))
    rep.check("R09.7", not extra, m, nodes[extra[0]] if extra else m.tree, f"EVM failure classes beyond the reviewed table: {extra}", "a new EVM failure class needs review: which instruction raises it and whether the frame rollback applies")


def r09_6_shared(repo: Repo, rep: Report):
    """the context a call sees (sender under prank, frame state) must not be shared between sibling paths or frames:
    fork-copy completeness and the absence of custom copy hooks (shared with C20 / C14)"""
    from hsa.rules.c14 import r14_1_prank_consumption
    from hsa.rules.c20 import r20_1_fork_copies, r20_8_no_aliasing_assignment

    r20_1_fork_copies(repo, rep)
    r20_8_no_aliasing_assignment(repo, rep)
    r14_1_prank_consumption(repo, rep)
    # "the call fails when the sender's balance is insufficient": the failing branch is kept unless the solver proves
    # the balance sufficient (shared with C02 R02.1)
    from hsa.rules.verdicts import check_verdict_sites

    rep.rule("R02.1", "insufficient-funds branch kept unless proved infeasible (shared with C02)")
    check_verdict_sites(repo, rep, "R02.1", modules=("sevm",), only_functions={"sevm.SEVM.handle_insufficient_fund_case", "sevm.SEVM.transfer_value"})
    # round 7: ... and it is skipped only for a zero value (a transfer to oneself / CALLCODE needs the balance too)
    from hsa.rules.c02 import funds_early_exit

    rep.rule("R02.7", "the insufficient-funds branch is skipped only for a zero value (shared with C02)")
    funds_early_exit(repo, rep, "R02.7")


RULES = [r09_1_snapshot_restore, r09_2_message_construction, r09_3_static_context, r09_4_value_transfer, r09_5_returndata, r09_6_shared, r09_7_exception_classes]
