"""C20 — tests are isolated from each other and results are deterministic."""

from __future__ import annotations

import ast

from hsa.core import AnalysisError, Repo, Report, body_walk, call_name, dotted, find_assign, kwarg, last_attr, src, stmt_of
from hsa.flow import _loop_level
from hsa.rules.common import class_methods, guard_set, method_calls

EXPLANATION = (
    "Decides the copy discipline that isolation rests on: every field of Exec is classified (immutable term / "
    "mutable container / shared by design) and at both fork sites (create_branch, run_message) every mutable "
    "field receives a copy of at least the required depth (a new, unclassified Exec field is a violation); the "
    "supporting copy methods really copy (State.__deepcopy__, ByteVec.copy, KeccakRegistry.copy, OffsetMap.copy, "
    "Path.branch / extend_path) and chunk objects are written only in their constructors; a freshly branched "
    "(inactive) path is not touched before it is pushed; each test iteration builds a fresh solver and Path and "
    "resets it; nothing assigns into the shared pre-state; process-wide mutable state is limited to a reviewed "
    "list; uid() randomness only flows into symbol names. It does not run test orders."
    " Also evaluated here: per-function configuration layers are built from the contract's configuration, never from the previous function's (C18 R18.4)."
    ' Round 5: no dataclass default that is one shared object, results of the memoising get_var_set are not modified by callers (R20.10); key/signature bookkeeping is not shared between the post-setUp state and the tests started from it.'
)
ASSUMPTIONS = [
    "deepcopy semantics; z3 terms are immutable",
    "dynamic features (setattr/getattr with computed names, exec/eval, monkey-patching) are absent: checked by the meta-rule R20.0",
]

# field -> (kind, minimum copy depth required at a fork).  depth: 0 alias ok, 1 shallow copy, 2 deep copy / fresh object
FIELDS = {
    "code": ("dict of immutable Contract", 1),
    "storage": ("dict of mutable StorageData", 2),
    "transient_storage": ("dict of mutable StorageData", 2),
    "balance": ("immutable z3 term", 0),
    "block": ("mutable Block (cheatcodes assign its fields)", 2),
    "context": ("mutable CallContext (trace, prank, output)", 2),
    "callback": ("function", 0),
    "pgm": ("Contract (immutable apart from caches)", 0),
    "pc": ("int", 0),
    "insn": ("derived from pgm/pc", 0),
    "st": ("State: mutable stack + memory", 2),
    "jumpis": ("dict of dict (loop counters)", 2),
    "addresses_to_delete": ("set (unused by the engine)", 0),
    "path": ("Path: must be a branch() of the parent / the fresh per-test path", 2),
    "alias": ("dict of immutable terms", 1),
    "cnts": ("defaultdict(int) of counters", 1),
    "sha3s": ("KeccakRegistry (two dicts)", 1),
    "storages": ("dict: append-only log of immutable terms", 1),
    "balances": ("dict: append-only log of immutable terms", 1),
    "known_keys": ("reviewed exception: append-only axiom cache shared across paths (source comment: pass by reference)", 0),
    "known_sigs": ("reviewed exception: append-only axiom cache shared across paths", 0),
    "call_sequence": ("reviewed exception: list never mutated in place (rebuilt with +)", 0),
}


def _depth(expr: ast.AST | None, parent_names=("ex", "pre_ex")) -> tuple[int, str]:
    """copy depth of a keyword value at a fork site"""
    if expr is None:
        return 2, "default (fresh)"
    t = src(expr)
    if isinstance(expr, ast.Call):
        f = dotted(expr.func)
        if f == "deepcopy":
            return 2, t
        if f.endswith(".copy") and len(expr.args) == 0:
            return 1, t
        if f in ("State", "CallContext", "KeccakRegistry", "Path", "defaultdict", "dict", "set", "list"):
            return 2, t
        if f in ("self.fresh_transient_storage",):
            return 2, t
        return 0, t
    if isinstance(expr, (ast.Dict, ast.List, ast.Set)) and not getattr(expr, "keys", getattr(expr, "elts", [])):
        return 2, t
    if isinstance(expr, ast.Constant):
        return 2, t
    if isinstance(expr, ast.Name) and expr.id in ("new_path", "path", "target", "message"):
        return 2, t
    return 0, t


def r20_0_no_dynamic_features(repo: Repo, rep: Report):
    rep.rule("R20.0", "meta: no dynamic attribute tricks in the analysed modules (resolution assumptions hold)")
    allowed_setattr = {
        "solve.ContractContext.set_invariant_testing_context",
        "solve.FunctionContext.__post_init__",
        "contract.Instruction.set_srcmap",
        "config.ParseTimeout.__call__", "config.ParseCSVTraceEvent.__call__", "config.ParseCSVInt.__call__",
        "config.ParseErrorCodes.__call__", "config.ParseArrayLengths.__call__",
    }
    n = 0
    for modname, m in repo.modules.items():
        for c in ast.walk(m.tree):
            if isinstance(c, ast.ImportFrom) and any(a.name == "*" for a in c.names):
                rep.bad("R20.0", m, c, src(c), "star import defeats name resolution")
            if not isinstance(c, ast.Call):
                continue
            f = dotted(c.func)
            if f in ("exec", "eval", "globals", "locals", "__import__", "importlib.import_module"):
                n += 1
                rep.bad("R20.0", m, c, src(c)[:80], "dynamic code / namespace access defeats static resolution")
            elif f in ("setattr", "object.__setattr__"):
                n += 1
                q = m.qual(c)
                lit = len(c.args) >= 2 and isinstance(c.args[1], ast.Constant)
                ok = q in allowed_setattr and (lit or f == "setattr" and src(c.args[0]) == "namespace")
                rep.check("R20.0", ok, m, c, f"{q}: {src(c)[:80]}", "setattr outside the reviewed frozen-dataclass initialisers / argparse actions")
            elif f == "getattr" and len(c.args) >= 2 and not isinstance(c.args[1], ast.Constant):
                n += 1
                ok = modname in ("config", "flamegraphs", "memtrace", "env", "ui", "traces", "mapper", "build", "bitvec")
                rep.check("R20.0", ok, m, c, f"{m.qual(c)}: {src(c)[:80]}", "getattr with a computed name in an engine module")
    rep.units["R20.0_dynamic_sites"] = n
    # monkey-patching: assignment to an attribute of an imported module/class from another module
    for modname, m in repo.modules.items():
        for st in ast.walk(m.tree):
            if isinstance(st, ast.Assign):
                for t in st.targets:
                    if isinstance(t, ast.Attribute) and isinstance(t.value, ast.Name) and t.value.id in m.imports and t.value.id[0].isupper():
                        src_mod = m.imports[t.value.id][0]
                        if src_mod.startswith("halmos"):
                            rep.bad("R20.0", m, st, src(st)[:80], "assignment to an attribute of a class imported from another halmos module")


def r20_1_fork_copies(repo: Repo, rep: Report):
    rep.rule("R20.1", "every mutable Exec field is copied (to the required depth) at create_branch and run_message; copy helpers really copy")
    m, cls = repo.cls("sevm.Exec")
    declared = [src(s.target) for s in cls.body if isinstance(s, ast.AnnAssign)]
    _, init = repo.fn("sevm.Exec.__init__")
    assigned = [t.attr for s in body_walk(init) if isinstance(s, ast.Assign) for t in s.targets if isinstance(t, ast.Attribute) and src(t.value) == "self"]
    for f in sorted(set(declared) | set(assigned)):
        rep.check("R20.1", f in FIELDS, m, cls, f"Exec.{f}: {FIELDS.get(f, ('UNCLASSIFIED', 0))[0]}", "new Exec field without a reviewed copy discipline: add it to the fork sites and to the table")
    missing = [f for f in FIELDS if f not in assigned]
    rep.check("R20.1", not missing, m, init, f"Exec.__init__ assigns {len(assigned)} fields", f"fields in the table that Exec no longer has: {missing}")
    for q in ("sevm.SEVM.create_branch", "sevm.SEVM.run_message"):
        mm, fn = repo.fn(q)
        ecs = [c for c in body_walk(fn) if isinstance(c, ast.Call) and call_name(c) == "Exec"]
        if len(ecs) != 1:
            raise AnalysisError(f"{q}: Exec(...) construction not found")
        ec = ecs[0]
        if ec.args or any(k.arg is None for k in ec.keywords):
            rep.bad("R20.1", mm, ec, f"{q}: Exec(...) with positional/** arguments", "fork site must pass fields by keyword so that copies are visible")
        for f, (kind, need) in FIELDS.items():
            if f in ("insn", "addresses_to_delete"):
                continue
            v = kwarg(ec, f)
            if v is None and f in ("known_keys", "known_sigs", "call_sequence", "pc"):
                rep.ok("R20.1", mm, ec, f"{q}: {f} not passed (fresh default)")
                continue
            if v is None:
                rep.bad("R20.1", mm, ec, f"{q}: {f} not passed", f"fork site does not initialise {f}")
                continue
            d, txt = _depth(v)
            if q == "sevm.SEVM.run_message" and f in ("known_keys", "known_sigs"):
                # sharing these between sibling paths of one transaction is the reviewed exception; between the
                # post-setUp state and the tests started from it, it makes one test's vm.sign/vm.addr bookkeeping
                # visible to the next (a repeated vm.sign takes the `existing signature` shortcut without constraints)
                need = max(need, 1)
            rep.check("R20.1", d >= need, mm, v, f"{q}: {f}={txt}  [{kind}; copy depth {d} >= {need}]", f"{f} is a {kind}: the fork needs copy depth {need} but passes `{txt}` (sibling paths / later tests would share it)")
    # create_branch: the path really is a branch of the parent's path
    mm, cb = repo.fn("sevm.SEVM.create_branch")
    np_ = [src(v) for v in find_assign(cb, "new_path")]
    rep.check("R20.1", np_ == ["ex.path.branch(cond)"], mm, cb, f"new_path = {np_}", "a sibling path must be created by Path.branch(cond)")
    # supporting copy helpers
    ms, dc = repo.fn("sevm.State.__deepcopy__")
    r = [s for s in body_walk(dc) if isinstance(s, ast.Return)]
    ok = len(r) == 1 and src(r[0].value) == "State(stack=self.stack.copy(), memory=self.memory.copy())"
    rep.check("R20.1", ok, ms, r[0] if r else dc, src(r[0]) if r else "?", "State deep copy must copy both the stack and the memory container")
    mb, bc = repo.fn("bytevec.ByteVec.copy")
    r = [s for s in body_walk(bc) if isinstance(s, ast.Return)]
    ok = len(r) == 1 and "_chunks=self.chunks.copy()" in src(r[0].value) and "_length=self.length" in src(r[0].value)
    rep.check("R20.1", ok, mb, r[0] if r else bc, src(r[0]) if r else "?", "ByteVec.copy must copy the chunk container")
    # chunks are immutable: their fields are written only in __init__
    for modname in ("bytevec", "sevm", "contract", "cheatcodes", "calldata", "utils"):
        m2 = repo.mod(modname)
        for st in ast.walk(m2.tree):
            if isinstance(st, (ast.Assign, ast.AugAssign)):
                for t in (st.targets if isinstance(st, ast.Assign) else [st.target]):
                    if isinstance(t, ast.Attribute) and t.attr in ("data", "start", "length", "data_byte_length") and modname == "bytevec":
                        q = m2.qual(st)
                        base = src(t.value)
                        if base == "self" and q.split(".")[1] in ("Chunk", "ConcreteChunk", "SymbolicChunk"):
                            rep.check("R20.1", q.endswith(".__init__"), m2, st, f"{q}: {src(st)[:60]}", "chunk field written outside the constructor: shared chunks are no longer immutable")
                        elif base == "self" and q.split(".")[1] == "ByteVec" and t.attr == "length":
                            pass
                        elif base != "self" and t.attr in ("data", "start"):
                            rep.bad("R20.1", m2, st, f"{q}: {src(st)[:60]}", "chunk field written from outside")
    _, kc = repo.fn("sevm.KeccakRegistry.copy")
    t = src(kc)
    ok = "new_registry._hash_ids = self._hash_ids.copy()" in t and "new_registry._hash_values = self._hash_values.copy()" in t
    rep.check("R20.1", ok, ms, kc, "KeccakRegistry.copy copies both maps", "hash registry shared between sibling paths")
    mu, oc = repo.fn("utils.OffsetMap.copy")
    rep.check("R20.1", "new_map._map = self._map.copy()" in src(oc), mu, oc, "OffsetMap.copy copies the dict", "offset map shared between sibling paths")
    # copy helpers have no shortcut that hands out the original
    for q, want in (("sevm.KeccakRegistry.copy", "new_registry"), ("utils.OffsetMap.copy", "new_map"), ("bytevec.ByteVec.copy", None), ("sevm.State.__deepcopy__", None)):
        mq, fq = repo.fn(q)
        rets_q = [r for r in body_walk(fq) if isinstance(r, ast.Return)]
        ok = len(rets_q) == 1 and (want is None or src(rets_q[0].value) == want) and src(rets_q[0].value) != "self"
        rep.check("R20.1", ok, mq, fq, f"{q}: single return of the fresh copy ({[src(r.value)[:40] for r in rets_q]})", "a copy helper can return the original object (shortcut): the `copy` is then shared between sibling paths / tests")
    _, pdc = repo.fn("sevm.Path.__deepcopy__")
    rep.check("R20.1", any(isinstance(s, ast.Raise) for s in body_walk(pdc)), ms, pdc, "Path.__deepcopy__ raises (paths are only forked through branch())", "deep-copying a Path would share its solver silently")
    _, br = repo.fn("sevm.Path.branch")
    t = src(br)
    need = ["path.conditions = self.conditions.copy()", "path.concretization = deepcopy(self.concretization)", "path.related = self.related.copy()", "path.var_to_conds = deepcopy(self.var_to_conds)"]
    miss = [x for x in need if x not in t]
    rep.check("R20.1", not miss, ms, br, "Path.branch copies conditions, concretization, related, var_to_conds", f"Path.branch shares {miss}")
    _, ep = repo.fn("sevm.Path.extend_path")
    t = src(ep)
    need = ["self.conditions = path.conditions.copy()", "self.concretization = deepcopy(path.concretization)", "self.related = path.related.copy()", "self.var_to_conds = deepcopy(path.var_to_conds)"]
    miss = [x for x in need if x not in t]
    rep.check("R20.1", not miss, ms, ep, "Path.extend_path copies conditions, concretization, related, var_to_conds", f"extend_path shares {miss} with the setUp / frontier state")
    # StorageData / Block / CallContext have no custom __deepcopy__ that shares state
    for cq in ("sevm.StorageData", "sevm.Block", "sevm.CallContext", "sevm.CallOutput", "cheatcodes.Prank", "sevm.Concretization"):
        mc, c = repo.cls(cq)
        ms_ = class_methods(c)
        rep.check("R20.1", "__deepcopy__" not in ms_ and "__copy__" not in ms_, mc, c, f"{cq}: default deepcopy", "custom copy hook on a mutable state class must be reviewed")


BENIGN_ATTRS = {"alias", "st", "context", "jumpis", "advance", "halt", "pc", "insn", "callback", "pgm", "call_sequence", "block"}
TOUCHES_PATH = {"balance_of", "balance_update", "sha3_data", "sha3", "check", "select", "sload", "sstore", "transfer_value", "path_slice", "resolve_address_alias", "handle_insufficient_fund_case", "path"}


def _after(m, fn, st):
    """statements that can execute after `st` inside fn (later siblings at every enclosing level)"""
    out = []
    child = st
    for anc in m.ancestors(st):
        for name in ("body", "orelse", "finalbody"):
            lst = getattr(anc, name, None)
            if isinstance(lst, list) and any(s is child for s in lst):
                idx = next(i for i, s in enumerate(lst) if s is child)
                out += lst[idx + 1:]
        if isinstance(anc, (ast.For, ast.While)):
            out += anc.body  # next iteration
        if anc is fn:
            break
        child = anc
    return out


def r20_2_inactive_paths(repo: Repo, rep: Report):
    rep.rule("R20.2", "a freshly branched execution (inactive path) is not used for path operations before it is pushed")
    n = 0
    for modname in ("sevm", "cheatcodes"):
        m = repo.mod(modname)
        for q, fn in repo.functions(modname):
            for st in body_walk(fn):
                if not (isinstance(st, ast.Assign) and len(st.targets) == 1 and isinstance(st.targets[0], ast.Name)):
                    continue
                v = st.value
                if isinstance(v, ast.IfExp):
                    cands = [v.body, v.orelse]
                else:
                    cands = [v]
                if not any(isinstance(c, ast.Call) and last_attr(c) == "create_branch" for c in cands):
                    continue
                n += 1
                var = st.targets[0].id
                bad = []
                maybe_parent = isinstance(v, ast.IfExp)
                for later in _after(m, fn, st):
                    if isinstance(later, (ast.Assign,)) and any(isinstance(t, ast.Name) and t.id == var for t in later.targets):
                        break
                    for node in ast.walk(later):
                        if isinstance(node, ast.Attribute) and isinstance(node.value, ast.Name) and node.value.id == var:
                            if node.attr in TOUCHES_PATH:
                                bad.append(src(m.parents.get(node, node))[:60])
                        if isinstance(node, ast.Call) and dotted(node.func).split(".")[-1] in TOUCHES_PATH and dotted(node.func).split(".")[0] in ("self", "sevm"):
                            if any(isinstance(a, ast.Name) and a.id == var for a in node.args):
                                bad.append(src(node)[:60])
                rep.check("R20.2", not bad, m, st, f"{modname}.{q}: {var} = {src(v)[:70]}", f"the new (not yet activated) path is used before activation: {bad[:3]} - constraints would be added to the wrong solver scope")
    if n < 7:
        raise AnalysisError(f"R20.2: only {n} create_branch sites found")
    # run loop activates before any other use of the path
    m, run = repo.fn("sevm.SEVM.run")
    loop = [w for w in body_walk(run) if isinstance(w, ast.While) and "stack.pop()" in src(w.test)][0]
    acts = [c for c in method_calls(loop, "activate")]
    ok = len(acts) == 1 and "not (ex.path.is_activated())" in guard_set(m, acts[0])
    rep.check("R20.2", ok, m, acts[0] if acts else loop, "if not ex.path.is_activated(): ex.path.activate()", "an inactive path must be activated when it is taken from the worklist")
    if acts:
        first_other = None
        for node in ast.walk(loop):
            if isinstance(node, ast.Attribute) and src(node) == "ex.path" and node.lineno < acts[0].lineno and "is_activated" not in src(m.parents[node]):
                first_other = node
        rep.check("R20.2", first_other is None, m, acts[0], "activation precedes every other use of ex.path in the loop body", "path used before activation")
    _, ac = repo.fn("sevm.Path.activate")
    t = src(ac)
    ok = "self.solver.num_scopes() < self.num_scopes" in t and "raise ValueError" in t and "self.solver.pop(self.solver.num_scopes() - self.num_scopes)" in t and "self.pending = []" in t
    rep.check("R20.2", ok, m, ac, "activate: refuses a scope inversion, pops back to the saved scope, clears pending", "activation must restore the solver scope saved at branch time")
    _, br = repo.fn("sevm.Path.branch")
    t = src(br)
    ok = "len(self.pending) > 0" in t and "raise ValueError" in t and t.count("self.solver.push()") == 1 and "path.num_scopes = self.solver.num_scopes()" in t
    rep.check("R20.2", ok, m, br, "branch: refuses a pending parent, saves the scope, pushes exactly one solver scope", "branch must save the scope before pushing exactly one new scope")
    if ok:
        lines = {k: next(s.lineno for s in body_walk(br) if k in src(s) and isinstance(s, (ast.Assign, ast.Expr))) for k in ("path.num_scopes = self.solver.num_scopes()", "self.solver.push()")}
        rep.check("R20.2", lines["path.num_scopes = self.solver.num_scopes()"] < lines["self.solver.push()"], m, br, "scope saved before the push", "saved scope would include the new scope: siblings see each other's constraints")


def r20_3_fresh_per_test(repo: Repo, rep: Report):
    rep.rule("R20.3", "each test/state iteration builds a fresh solver + Path extending the shared state, and resets it; the shared pre-state is never assigned to")
    m, rm = repo.fn("__main__.run_message")
    inner = [l for l in body_walk(rm) if isinstance(l, ast.For) and "get_frontier" in src(l.iter)]
    if len(inner) != 1:
        raise AnalysisError("run_message: frontier loop not found")
    body_txt = src(inner[0])
    need = ["solver = mk_solver(args)", "path = Path(solver)", "path.extend_path(ex.path)", "reset(solver)"]
    miss = [x for x in need if x not in body_txt]
    rep.check("R20.3", not miss, m, inner[0], "per state: mk_solver, Path(solver), extend_path(ex.path), finally reset(solver)", f"missing {miss}: solver state would leak between tests/states")
    tr = [t for t in body_walk(inner[0]) if isinstance(t, ast.Try)]
    ok = len(tr) == 1 and tr[0].finalbody and "reset(solver)" in src(tr[0].finalbody[0])
    rep.check("R20.3", bool(ok), m, tr[0] if tr else inner[0], "reset(solver) in finally", "solver must be reset even when exploration raises")
    mm, tf = repo.fn("__main__.run_target_function")
    t = src(tf)
    need = ["sevm = SEVM(args, fun_info)", "solver = mk_solver(args)", "path = Path(solver)", "path.extend_path(ex.path)", "reset(solver)"]
    miss = [x for x in need if x not in t]
    rep.check("R20.3", not miss, mm, tf, "run_target_function: fresh SEVM, solver, Path per target call", f"missing {miss}")
    _, rt = repo.fn("__main__.run_test")
    rep.check("R20.3", "sevm = SEVM(args, fun_info)" in src(rt), mm, rt, "run_test: fresh SEVM (and loop log) per test", "engine object shared between tests")
    # no assignment into the shared pre-state
    shared = {"__main__.run_message": {"ex"}, "__main__.run_test": {"ctx.setup_ex"}, "__main__.run_target_function": {"ex"}, "__main__.run_target_contract": {"ex"}, "sevm.SEVM.run_message": {"pre_ex"}, "__main__._compute_frontier": {"pre_ex"}}
    mutators = {"append", "add", "update", "pop", "clear", "extend", "insert", "remove", "setdefault", "set_code", "balance_update", "reset", "halt", "path_slice"}
    for q, names in shared.items():
        m2, fn = repo.fn(q)
        for node in body_walk(fn):
            if isinstance(node, (ast.Assign, ast.AugAssign)):
                for t_ in (node.targets if isinstance(node, ast.Assign) else [node.target]):
                    base = t_
                    while isinstance(base, (ast.Attribute, ast.Subscript)):
                        base = base.value
                    if isinstance(t_, (ast.Attribute, ast.Subscript)) and isinstance(base, ast.Name) and base.id in names:
                        rep.bad("R20.3", m2, node, f"{q}: {src(node)[:80]}", "assignment into the shared pre-state (setUp / frontier state) is visible to every later test")
            if isinstance(node, ast.Call) and isinstance(node.func, ast.Attribute) and node.func.attr in mutators:
                base = node.func.value
                while isinstance(base, (ast.Attribute, ast.Subscript)):
                    base = base.value
                if isinstance(base, ast.Name) and base.id in names and src(node.func.value) not in names:
                    rep.bad("R20.3", m2, node, f"{q}: {src(node)[:80]}", "mutating call on the shared pre-state")
        rep.ok("R20.3", m2, fn, f"{q}: no write through {sorted(names)}")
    # reviewed exception: the symbol counter of the pre-state (naming only)
    _, rtc = repo.fn("__main__.run_target_contract")
    uses = [c for c in body_walk(rtc) if isinstance(c, ast.Call) and src(c.func) == "ex.new_symbol_id"]
    rep.check("R20.3", all(any(isinstance(a, ast.JoinedStr) for a in m.ancestors(c)) for c in uses), mm, rtc, f"ex.new_symbol_id() used {len(uses)}x, only inside symbol names (reviewed exception: naming only)", "pre-state counter used for something other than naming")


REVIEWED_GLOBAL_STATE = {
    # singletons / module state: why it cannot change a verdict
    "mapper.SingletonMeta": "singleton registry",
    "mapper.SourceFileMap": "source locations for coverage rendering",
    "mapper.BuildOut": "build artifacts: set per contract by run_contract (set_build_out) before use",
    "mapper.Mapper": "AST name mapping for trace rendering",
    "mapper.DeployAddressMapper": "address -> name for trace rendering",
    "contract.CoverageReporter": "coverage counters (report only)",
    "sevm.Profiler": "instruction counters (report only)",
    "processes.ExecutorRegistry": "weak set of executors for shutdown at exit",
    "memtrace.MemTracer": "memory tracing (diagnostics)",
    "bytevec.Chunk": "Chunk._empty: immutable empty chunk",
    "logs.UniqueLoggingFilter": "de-duplicates debug/warn text; leaks into the --depth report (known finding F-C10-2)",
}


def r20_4_process_wide_state(repo: Repo, rep: Report):
    rep.rule("R20.4", "process-wide mutable state is limited to a reviewed list (rendering / statistics / immutable after import)")
    found = {}
    for modname, m in repo.modules.items():
        for q, node in m.defs.items():
            if not isinstance(node, ast.ClassDef):
                continue
            is_single = any(isinstance(k, ast.keyword) and k.arg == "metaclass" and src(k.value) == "SingletonMeta" for k in node.keywords)
            has_inst = any(isinstance(s, (ast.Assign, ast.AnnAssign)) and src(s.targets[0] if isinstance(s, ast.Assign) else s.target) in ("_instance", "_instances", "_empty") for s in node.body)
            if is_single or has_inst:
                found[f"{modname}.{q}"] = node
        # module-level names rebound or mutated from inside functions
        for fnq, fn in m.defs.items():
            if isinstance(fn, (ast.FunctionDef, ast.AsyncFunctionDef)):
                for g in body_walk(fn):
                    if isinstance(g, ast.Global):
                        for name in g.names:
                            found[f"{modname}.<global {name}>"] = g
        # memoisation decorators
        for fnq, fn in m.defs.items():
            if isinstance(fn, (ast.FunctionDef, ast.AsyncFunctionDef)):
                for d in fn.decorator_list:
                    t = src(d)
                    if "lru_cache" in t or t in ("cache", "functools.cache"):
                        found[f"{modname}.{fnq}@cache"] = fn
    reviewed = dict(REVIEWED_GLOBAL_STATE)
    reviewed["config.Config.__getattribute__@cache"] = "memo of a pure lookup on an immutable layer stack"
    for k, node in sorted(found.items()):
        modname = k.split(".")[0]
        rep.check("R20.4", k in reviewed, repo.mod(modname), node, f"{k}: {reviewed.get(k, 'UNREVIEWED')}", "new process-wide mutable state: it outlives a test and must be classified (can it change a verdict?)")
    # the logging filter is module-level state too
    ml = repo.mod("logs")
    filt = [s for s in ml.tree.body if isinstance(s, ast.Expr) and "addFilter(UniqueLoggingFilter())" in src(s)]
    rep.check("R20.4", len(filt) == 1, ml, filt[0] if filt else ml.tree, "logger_unique.addFilter(UniqueLoggingFilter())  [reviewed]", "logging filter setup changed")
    # module-level mutable containers that functions mutate
    for modname in ("sevm", "__main__", "solve", "cheatcodes", "utils", "calldata", "bitvec", "bytevec", "contract"):
        m = repo.mod(modname)
        mod_names = set()
        for st in m.tree.body:
            if isinstance(st, ast.Assign) and isinstance(st.value, (ast.Dict, ast.List, ast.Set)) or (isinstance(st, ast.Assign) and isinstance(st.value, ast.Call) and call_name(st.value) in ("dict", "list", "set", "defaultdict", "Counter", "OrderedDict")):
                for t in st.targets:
                    if isinstance(t, ast.Name):
                        mod_names.add(t.id)
        for fnq, fn in m.defs.items():
            if not isinstance(fn, (ast.FunctionDef, ast.AsyncFunctionDef)):
                continue
            local = {a.arg for a in fn.args.args + fn.args.kwonlyargs} | {t.id for n in body_walk(fn) if isinstance(n, ast.Assign) for t in n.targets if isinstance(t, ast.Name)}
            for n in body_walk(fn):
                tgt = None
                if isinstance(n, ast.Call) and isinstance(n.func, ast.Attribute) and isinstance(n.func.value, ast.Name) and n.func.attr in ("append", "add", "update", "pop", "clear", "extend", "setdefault", "insert"):
                    tgt = n.func.value.id
                if isinstance(n, (ast.Assign, ast.AugAssign)):
                    for t in (n.targets if isinstance(n, ast.Assign) else [n.target]):
                        if isinstance(t, ast.Subscript) and isinstance(t.value, ast.Name):
                            tgt = t.value.id
                if tgt and tgt in mod_names and tgt not in local:
                    rep.bad("R20.4", m, n, f"{modname}.{fnq}: {src(n)[:70]}", f"module-level container `{tgt}` is mutated at run time (state shared across tests)")
    rep.ok("R20.4", repo.mod("sevm"), None, "no module-level container of the engine modules is mutated from a function", construct="engine modules")


SYMBOL_CTORS = {"BitVec", "Array", "BV", "mk_addr", "Bool", "Function", "HalmosBitVec"}


def r20_5_uid_nominal(repo: Repo, rep: Report):
    rep.rule("R20.5", "uid() randomness flows only into symbol / array names")
    n = 0
    for modname, m in repo.modules.items():
        for c in ast.walk(m.tree):
            if not (isinstance(c, ast.Call) and call_name(c) == "uid" and not c.args):
                continue
            if m.qual(c) == "utils.uid":
                continue
            n += 1
            js = next((a for a in m.ancestors(c) if isinstance(a, ast.JoinedStr)), None)
            if js is None:
                rep.bad("R20.5", m, c, src(stmt_of(m, c))[:90], "uid() used outside an f-string name")
                continue
            par = m.parents[js]
            ok = False
            if isinstance(par, ast.Call) and call_name(par).split(".")[-1] in SYMBOL_CTORS and par.args and par.args[0] is js:
                ok = True
            elif isinstance(par, ast.Assign) and len(par.targets) == 1 and isinstance(par.targets[0], ast.Name):
                var = par.targets[0].id
                fn = m.enclosing_func(par)
                uses = [u for u in body_walk(fn) if isinstance(u, ast.Name) and u.id == var and isinstance(u.ctx, ast.Load)]
                ok = bool(uses)
                for u in uses:
                    up = m.parents[u]
                    if not (isinstance(up, ast.Call) and call_name(up).split(".")[-1] in SYMBOL_CTORS and up.args and up.args[0] is u):
                        ok = False
            rep.check("R20.5", ok, m, c, src(stmt_of(m, c))[:100], "the random suffix flows into something other than the first argument of a symbol constructor")
    if n < 12:
        raise AnalysisError(f"R20.5: only {n} uid() call sites found")
    mu, uf = repo.fn("utils.uid")
    rep.check("R20.5", "uuid.uuid4().hex[:7]" in src(uf), mu, uf, "uid() = uuid4().hex[:7]", "uid() changed")
    # deterministic names where the source says so
    _, em = repo.fn("sevm.SolidityStorage.empty")
    rep.check("R20.5", "uid()" not in src(em), repo.mod("sevm"), em, "base storage array names contain no random part", "base array name must be deterministic: load() and init() must name the same array")
    _, em = repo.fn("sevm.GenericStorage.empty")
    rep.check("R20.5", "uid()" not in src(em), repo.mod("sevm"), em, "base storage array names (generic) contain no random part", "base array name must be deterministic")


def r20_6_shared(repo: Repo, rep: Report):
    from hsa.rules.c09 import r09_1_snapshot_restore

    rep.rule("R09.1", "failed sub-frames restore the caller's state from fresh copies (shared with C09: sibling paths must not share restored containers)")
    r09_1_snapshot_restore(repo, rep)


def r20_8_no_aliasing_assignment(repo: Repo, rep: Report):
    rep.rule("R20.8", "no chained assignment binds one fresh mutable object to two places (two state components would alias)")
    n = 0
    for m in repo.modules.values():
        for node in ast.walk(m.tree):
            if isinstance(node, ast.Assign) and len(node.targets) >= 2:
                n += 1
                v = node.value
                immutable = isinstance(v, ast.Constant) or (isinstance(v, ast.UnaryOp) and isinstance(v.operand, ast.Constant)) or (isinstance(v, ast.Name) and v.id in ("None", "True", "False")) or (isinstance(v, ast.Tuple) and all(isinstance(e, ast.Constant) for e in v.elts))
                stateful = any(isinstance(t, (ast.Attribute, ast.Subscript)) for t in node.targets)
                rep.check("R20.8", immutable or not stateful, m, node, src(node)[:120], "the same object is stored in two places: a write through one is visible through the other (e.g. persistent and transient storage of a new account, or the state of two paths)")
    rep.ok("R20.8", repo.mod("sevm"), repo.mod("sevm").tree, f"chained assignments in the package: {n}")


MUTATORS = {"append", "extend", "add", "update", "pop", "popitem", "remove", "clear", "insert", "setdefault", "sort", "reverse", "discard", "appendleft"}


def r20_10_shared_defaults_and_memo(repo: Repo, rep: Report):
    rep.rule("R20.10", "no object is shared through a class-level default (dataclass fields get per-instance objects through default_factory); results handed out by a memoising getter are not modified by the caller")
    IMMUTABLE_CALLS = {"frozenset", "tuple", "field", "int", "str", "bytes", "float", "bool", "con", "BitVecVal", "BitVecSort", "Path", "PurePath", "Decimal", "Fraction"}
    n = 0
    for modname, m in repo.modules.items():
        for cls in [c for c in ast.walk(m.tree) if isinstance(c, ast.ClassDef)]:
            if not any("dataclass" in src(d) for d in cls.decorator_list):
                continue
            for st in cls.body:
                if isinstance(st, ast.AnnAssign) and st.value is not None and "ClassVar" not in src(st.annotation):
                    n += 1
                    v = st.value
                    shared = isinstance(v, ast.Call) and call_name(v) not in IMMUTABLE_CALLS and call_name(v)[:1].isupper()
                    rep.check("R20.10", not shared, m, st, f"{modname}.{cls.name}.{src(st.target)} = {src(v)[:50]}", "the default is one object created when the class is defined: every instance (every test's context) shares it - e.g. one solver executor whose shutdown flag, set by an early exit in one test, makes every later test abort")
    if n < 20:
        raise AnalysisError(f"R20.10: only {n} dataclass defaults found")
    # memoising getters: Path.get_var_set returns the memo entry itself
    ms, gv = repo.fn("sevm.Path.get_var_set")
    memo = any(isinstance(r, ast.Return) and r.value is not None and src(r.value).startswith("self.term_to_vars[") for r in body_walk(gv))
    rep.check("R20.10", memo, ms, gv, "Path.get_var_set returns the entry of the shared term_to_vars memo", "anchor changed: get_var_set no longer memoises (re-review its callers)")
    MUT = {"update", "add", "discard", "remove", "clear", "pop", "difference_update", "intersection_update", "symmetric_difference_update"}
    for modname in ("sevm", "__main__", "cheatcodes"):
        m = repo.mod(modname)
        for q, fn in repo.functions(modname):
            names = {x.targets[0].id for x in body_walk(fn) if isinstance(x, ast.Assign) and len(x.targets) == 1 and isinstance(x.targets[0], ast.Name) and isinstance(x.value, ast.Call) and last_attr(x.value) == "get_var_set"}
            if not names:
                continue
            for c in body_walk(fn):
                if isinstance(c, ast.Call) and isinstance(c.func, ast.Attribute) and c.func.attr in MUT and isinstance(c.func.value, ast.Name) and c.func.value.id in names:
                    rep.bad("R20.10", m, c, f"{modname}.{q}: {src(c)[:70]}", "the set returned by get_var_set is the memo entry shared by sibling paths (and by later tests): modifying it changes what other paths slice, hence their state identity")
                elif isinstance(c, ast.AugAssign) and isinstance(c.target, ast.Name) and c.target.id in names and isinstance(c.op, (ast.BitOr, ast.BitAnd, ast.Sub, ast.BitXor)):
                    rep.bad("R20.10", m, c, f"{modname}.{q}: {src(c)[:70]}", "in-place set operation on the memo entry returned by get_var_set")
            rep.ok("R20.10", m, fn, f"{modname}.{q}: results of get_var_set ({sorted(names)}) are only read")


def r20_9_module_containers_and_config(repo: Repo, rep: Report):
    rep.rule("R20.9", "no function writes into a module-level container (a cache shared by all contracts/tests), and configuration values are never mutated")
    REVIEWED = {
        # module.name: reason
    }
    n_cont = 0
    for modname, m in repo.modules.items():
        containers = {}
        for st in m.tree.body:
            tgt = st.targets[0] if isinstance(st, ast.Assign) and len(st.targets) == 1 else (st.target if isinstance(st, ast.AnnAssign) and st.value is not None else None)
            if isinstance(tgt, ast.Name):
                v = st.value
                if isinstance(v, (ast.Dict, ast.List, ast.Set)) or (isinstance(v, ast.Call) and call_name(v) in ("dict", "list", "set", "defaultdict", "OrderedDict", "Counter", "deque", "WeakValueDictionary", "WeakKeyDictionary")):
                    containers[tgt.id] = st
        n_cont += len(containers)
        for q, fn in m.defs.items():
            if not isinstance(fn, (ast.FunctionDef, ast.AsyncFunctionDef)):
                continue
            shadow = {a.arg for a in ast.walk(fn.args) if isinstance(a, ast.arg)} | {n.id for n in ast.walk(fn) if isinstance(n, ast.Name) and isinstance(n.ctx, ast.Store)}
            for n in body_walk(fn):
                name = None
                if isinstance(n, ast.Subscript) and isinstance(n.ctx, (ast.Store, ast.Del)) and isinstance(n.value, ast.Name):
                    name = n.value.id
                elif isinstance(n, ast.Call) and isinstance(n.func, ast.Attribute) and n.func.attr in MUTATORS and isinstance(n.func.value, ast.Name):
                    name = n.func.value.id
                if name in containers and name not in shadow and f"{modname}.{name}" not in REVIEWED:
                    rep.bad("R20.9", m, n, f"{modname}.{q} writes module-level `{name}`: {src(m.parents.get(n, n))[:90]}", "a module-level container written at run time is shared by every contract, test and path of the process: results depend on what ran before (e.g. analysis results keyed by a partial identity)")
    rep.ok("R20.9", repo.mod("sevm"), repo.mod("sevm").tree, f"module-level containers in the package: {n_cont}; none is written from a function")
    # configuration values are shared by all tests (layers point at their parents): never mutated
    n_sites = 0
    for modname, m in repo.modules.items():
        if modname == "config":
            continue
        for node in ast.walk(m.tree):
            tgt = None
            if isinstance(node, ast.Call) and isinstance(node.func, ast.Attribute) and node.func.attr in MUTATORS:
                tgt = node.func.value
            elif isinstance(node, ast.Subscript) and isinstance(node.ctx, (ast.Store, ast.Del)):
                tgt = node.value
            elif isinstance(node, ast.Attribute) and isinstance(node.ctx, (ast.Store, ast.Del)):
                tgt = node.value
                if not (isinstance(tgt, ast.Name) and tgt.id in ("args", "config")) and not (isinstance(tgt, ast.Attribute) and tgt.attr == "args"):
                    tgt = None
                else:
                    n_sites += 1
                    rep.bad("R20.9", m, node, f"{m.qual(node)}: {src(m.parents.get(node, node))[:90]}", "an option is overwritten on a shared configuration object")
                    continue
            if tgt is None:
                continue
            chain = src(tgt)
            parts = chain.split(".")
            if len(parts) >= 2 and ("args" in parts[:-1]) and parts[0] in ("args", "self", "ctx", "sevm", "ex", "path_ctx", "test_config", "setup_config") and not chain.endswith(".args"):
                n_sites += 1
                rep.bad("R20.9", m, node, f"{m.qual(node)}: {src(m.parents.get(node, node))[:90]}", "a configuration value (e.g. the --array-lengths dictionary of the default layer) is mutated in place: what one test resolves leaks into every later test")
    rep.ok("R20.9", repo.mod("calldata"), repo.mod("calldata").tree, f"in-place writes to configuration values: {n_sites}")


def r20_7_shared(repo: Repo, rep: Report):
    """the configuration of one test must not leak into the next: per-function layers are built from the contract's
    configuration, never from the previous function's (shared with C18 R18.4)"""
    from hsa.rules.c18 import r18_4_scoping

    r18_4_scoping(repo, rep)


RULES = [r20_9_module_containers_and_config, r20_8_no_aliasing_assignment, r20_7_shared, r20_6_shared, r20_0_no_dynamic_features, r20_1_fork_copies, r20_2_inactive_paths, r20_3_fresh_per_test, r20_4_process_wide_state, r20_5_uid_nominal, r20_10_shared_defaults_and_memo]
