"""C02 — no feasible behaviour is dropped during exploration."""

from __future__ import annotations

import ast
import re

from hsa.core import AnalysisError, Repo, Report, body_walk, call_name, dotted, find_assign, kwarg, last_attr, src
from hsa.flow import Flow, _loop_level, function_exits, guard_text, guards_at, normal_exit_states, split_cond
from hsa.fold import UNKNOWN, fold_in
from hsa.origin import origin_text
from hsa.rules.common import guard_set, method_calls
from hsa.rules.verdicts import check_verdict_sites

EXPLANATION = (
    "Decides that a solver answer can only remove an alternative when it is `unsat` (every comparison "
    "with sat/unsat/unknown in sevm.py, cheatcodes.py and the setUp / stuck-path filters of __main__.py "
    "is classified as keep-site `!= unsat`, prove-site `== unsat` or the certainty pair); that the "
    "solver-free `unsat` answers of quick_custom_check are guarded by the three sound recognisers and the "
    "dynamic-array overflow pattern conjoins all seven atoms with a bound consistent with the hash-range "
    "axiom; that InfeasiblePath (the only silent drop) is raised only under is_false(<simplified>) or an "
    "empty candidate list built by `!= unsat` filters; that every execution state popped by the run loop "
    "is pushed, continued, finalised or handed to a helper that pushes on every exit; that loops pushing "
    "one branch per alternative are unfiltered; that every non-branching path constraint has a reviewed "
    "shape; and that the branch conditions of splits are syntactic complements. It does not decide that "
    "the union of path conditions covers the input space (values)."
    ' Also evaluated here: the jump-destination scanner rules of C19 (a JUMPDEST the scanner loses is a feasible target that is never explored).'
    ' Also evaluated here (round 4): fork-copy completeness (C20 R20.1) - state shared between sibling paths makes the later sibling skip alternatives.'
    " Round 5: address-alias resolution gives each alternative's address and condition to the same branch (R02.10)."
    ' Round 7: the insufficient-funds branch is skipped only for a zero value (R02.7).'
)
ASSUMPTIONS = [
    "z3 simplify() and is_false()/is_true() are sound",
    "for-loops over candidate lists execute at least once (lists are validated non-empty by config parsing, R18.6)",
    "documented modelling assumptions (hash range/injectivity, MAX_ETH, address freshness) are part of the property statement",
]


def r02_1_verdict_discipline(repo: Repo, rep: Report):
    rep.rule("R02.1", "keep-sites compare != unsat, prove-sites == unsat, == sat only in the certainty pair")
    n = check_verdict_sites(repo, rep, "R02.1")
    if n < 14:
        raise AnalysisError(f"R02.1: only {n} verdict comparisons found, at least 14 expected")
    # Exec.check: quick answer or the real solver; nothing else
    m, fn = repo.fn("sevm.Exec.check")
    rets = [r for r in body_walk(fn) if isinstance(r, ast.Return)]
    texts = [src(r.value) for r in rets]
    ok = texts == ["result", "self.path.check(cond)"] and any(isinstance(n_, ast.NamedExpr) and src(n_.value) == "self.quick_custom_check(cond)" for n_ in body_walk(fn))
    rep.check("R02.1", ok, m, fn, f"Exec.check returns {texts}", "Exec.check must return the quick answer if any, else the solver's answer")
    m, fn = repo.fn("sevm.Path.check")
    rets = [src(r.value) for r in body_walk(fn) if isinstance(r, ast.Return)]
    rep.check("R02.1", rets == ["self.solver.check(cond)"], m, fn, f"Path.check returns {rets}", "Path.check must return the solver's own answer")


SOUND_UNSAT = {"is_false(cond)", "match_dynamic_array_overflow_condition(cond)", "simplify(Not(cond)) in self.path.conditions"}
SOUND_SAT = {"is_true(cond)", "cond in self.path.conditions"}
OVERFLOW_ATOMS = {
    "is_not($cond)",
    "is_app_of($cond.arg(0), Z3_OP_ULEQ)",
    "is_f_sha3_name($cond.arg(0).arg(0).decl().name())",
    "is_app_of($cond.arg(0).arg(1), Z3_OP_BADD)",
    "eq($cond.arg(0).arg(0), $cond.arg(0).arg(1).arg(1))",
    "is_bv_value($cond.arg(0).arg(1).arg(0))",
}


def r02_2_solver_free_unsat(repo: Repo, rep: Report):
    rep.rule("R02.2", "every `return unsat` without the solver is guarded by a sound recogniser; the overflow pattern is complete")
    m, fn = repo.fn("sevm.Exec.quick_custom_check")
    n = 0
    for r in body_walk(fn):
        if not isinstance(r, ast.Return) or r.value is None:
            continue
        v = src(r.value)
        gs = guard_set(m, r)
        if v == "unsat":
            n += 1
            rep.check("R02.2", bool(gs & SOUND_UNSAT), m, r, f"return unsat under {sorted(gs)}", "solver-free unsat without a recognised sound predicate")
        elif v == "sat":
            rep.check("R02.2", bool(gs & SOUND_SAT), m, r, f"return sat under {sorted(gs)}", "solver-free sat without a recognised predicate")
        elif v != "None":
            rep.bad("R02.2", m, r, src(r), "quick_custom_check returns something other than sat/unsat/None")
    if n < 3:
        raise AnalysisError(f"R02.2: expected 3 solver-free unsat returns, found {n}")
    # the dynamic-array overflow recogniser
    mu, mf = repo.fn("utils.match_dynamic_array_overflow_condition")
    truthy = []
    for r in body_walk(mf):
        if isinstance(r, ast.Return) and r.value is not None:
            if fold_in(repo, "utils", r.value) is False:
                continue
            truthy.append(r)
    if len(truthy) != 1:
        rep.bad("R02.2", mu, mf, f"{len(truthy)} accepting returns", "expected a single accepting return in match_dynamic_array_overflow_condition")
        return
    r = truthy[0]
    atoms = set()
    for t, pol in guards_at(mu, r) + split_cond(r.value, True):
        txt = origin_text(mu, mf, t)
        atoms.add(txt if pol else f"not ({txt})")
    missing = sorted(a for a in OVERFLOW_ATOMS if a not in atoms)
    rep.check("R02.2", not missing, mu, r, f"accepting path requires {sorted(atoms)}", f"overflow pattern lost the atom(s) {missing}: it now matches conditions that can be satisfiable")
    bound = None
    for t, pol in split_cond(r.value, True):
        if isinstance(t, ast.Compare) and len(t.ops) == 1 and isinstance(t.ops[0], (ast.Lt, ast.LtE)) and "as_long()" in src(t.left):
            if origin_text(mu, mf, t.left) == "$cond.arg(0).arg(1).arg(0).as_long()":
                b = fold_in(repo, "utils", t.comparators[0])
                if b is not UNKNOWN:
                    bound = b + (1 if isinstance(t.ops[0], ast.LtE) else 0)
    # hash range axiom in sha3_data
    ms, sd = repo.fn("sevm.Exec.sha3_data")
    limit = None
    for c in body_walk(sd):
        if isinstance(c, ast.Call) and call_name(c) == "ULE" and len(c.args) == 2 and src(c.args[0]) == "sha3_expr":
            limit = fold_in(repo, "sevm", c.args[1])
    conc = None
    for c in body_walk(sd):
        if isinstance(c, ast.Compare) and len(c.ops) == 1 and isinstance(c.ops[0], ast.Gt) and src(c.left) == "sha3_hash_int":
            conc = fold_in(repo, "sevm", c.comparators[0])
    ok = bound is not None and limit not in (None, UNKNOWN) and bound <= 2**256 - limit and conc == limit
    rep.check("R02.2", ok, mu, r, f"offset bound {bound} vs hash range axiom ULE(h, {limit}) and concrete-hash check > {conc}", "the overflow pattern's offset bound must not exceed 2**256 - (hash range limit), and the concrete-hash range check must agree with the axiom")


def r02_3_infeasible_path(repo: Repo, rep: Report):
    rep.rule("R02.3", "InfeasiblePath is raised only under is_false(<simplified>) or an empty list built by != unsat filters")
    n = 0
    for modname in ("sevm", "cheatcodes", "__main__", "calldata", "bytevec", "utils"):
        m = repo.mod(modname)
        for q, fn in repo.functions(modname):
            for r in body_walk(fn):
                if not (isinstance(r, ast.Raise) and r.exc is not None and "InfeasiblePath" in src(r.exc)):
                    continue
                n += 1
                ok = False
                why = ""
                for t, pol in guards_at(m, r):
                    txt = src(t)
                    if pol and isinstance(t, ast.Call) and call_name(t) == "is_false" and len(t.args) == 1:
                        o = origin_text(m, fn, t.args[0])
                        # is_false is applied to a simplified term; origin strips simplify(), so check the binding
                        arg = t.args[0]
                        simplified = isinstance(arg, ast.Call) and call_name(arg) == "simplify"
                        if isinstance(arg, ast.Name):
                            from hsa.core import find_assign

                            vals = find_assign(fn, arg.id)
                            simplified = bool(vals) and all(isinstance(v, ast.Call) and call_name(v) == "simplify" for v in vals)
                        ok, why = simplified, f"is_false({o})"
                    if not pol and isinstance(t, ast.Name):
                        lst = t.id
                        apps = [c for c in method_calls(fn, "append") if dotted(c.func) == f"{lst}.append"]
                        good = bool(apps)
                        for a in apps:
                            gs = guards_at(m, a)
                            good = good and any(isinstance(g, ast.Compare) and isinstance(g.ops[0], ast.NotEq) and "unsat" in src(g) and p for g, p in gs)
                        ok, why = good, f"empty {lst} (appended only under `!= unsat`)"
                rep.check("R02.3", ok, m, r, f"{src(r)}  [{why}]", "InfeasiblePath raised without proof of infeasibility: a feasible path would be dropped silently")
    if n < 3:
        raise AnalysisError(f"R02.3: expected at least 3 InfeasiblePath raise sites, found {n}")
    # the only handler that drops silently is in the run loop
    m, run = repo.fn("sevm.SEVM.run")
    hs = [h for t in body_walk(run) if isinstance(t, ast.Try) for h in t.handlers if h.type is not None and "InfeasiblePath" in src(h.type)]
    rep.check("R02.3", len(hs) == 1 and [type(s) for s in hs[0].body] == [ast.Continue], m, hs[0] if hs else run, "except InfeasiblePath: continue", "exactly one InfeasiblePath handler that just continues is expected in SEVM.run")
    # resolve_address_alias: candidates loop has no break and only the FOUNDRY_TEST continue
    m, ra = repo.fn("sevm.SEVM.resolve_address_alias")
    for lp in [l for l in body_walk(ra) if isinstance(l, ast.For) and src(l.iter) == "ex.code"]:
        brk = [b for b in _loop_level(lp.body) if isinstance(b, ast.Break)]
        conts = [c for c in _loop_level(lp.body) if isinstance(c, ast.Continue)]
        ok = not brk and all("eq(addr, FOUNDRY_TEST)" in guard_set(m, c) for c in conts)
        rep.check("R02.3", ok, m, lp, "for addr in ex.code: <alias candidates>", "alias candidate enumeration must consider every account (only the test contract is skipped)")
    emp = [c for c in body_walk(ra) if isinstance(c, ast.Call) and call_name(c) == "And" and "target != addr for addr in ex.code" in src(c)]
    rep.check("R02.3", bool(emp), m, emp[0] if emp else ra, src(emp[0]) if emp else "emptyness_cond", "the non-existent-account alternative must be And(target != addr for every addr in ex.code)")


CONSUMERS = {"jumpi", "call", "create", "calldataload"}


def _handoff_transfer(node, state):
    facts = []
    if isinstance(node, (ast.FunctionDef, ast.AsyncFunctionDef, ast.ClassDef)):
        return facts
    if isinstance(node, ast.Assign) and any(src(t) == "next_ex" for t in node.targets) and src(node.value) == "ex":
        facts.append("handed")
    for n in ast.walk(node):
        if isinstance(n, ast.Call):
            la = last_attr(n)
            f = dotted(n.func)
            if la == "push" and f.split(".")[0] == "stack":
                facts.append("handed")
            elif f in {f"self.{c}" for c in CONSUMERS}:
                facts.append("handed")
            elif f == "warn" and "--depth" in src(n):
                facts.append("depth-reported")
        elif isinstance(n, ast.YieldFrom) and src(n.value).startswith("finalize(ex"):
            facts.append("handed")
        elif isinstance(n, ast.Yield) and n.value is not None and src(n.value) in ("ex", "new_ex"):
            facts.append("handed")
    return facts


def _push_transfer(var_ok=None):
    def tr(node, state):
        facts = []
        if isinstance(node, (ast.FunctionDef, ast.AsyncFunctionDef, ast.ClassDef)):
            return facts
        for n in ast.walk(node):
            if isinstance(n, ast.Call):
                f = dotted(n.func)
                if f == "stack.push":
                    facts.append("pushed")
                elif f in ("call_unknown", "call_known"):
                    facts.append("pushed")  # summaries checked separately
            elif isinstance(n, ast.Yield) and n.value is not None:
                facts.append("pushed")
        return facts

    return tr


def r02_4_worklist_conservation(repo: Repo, rep: Report):
    rep.rule("R02.4", "every popped execution state is pushed, continued, finalised or handed to a consuming helper on every path")
    m, run = repo.fn("sevm.SEVM.run")
    loops = [w for w in body_walk(run) if isinstance(w, ast.While) and "stack.pop()" in src(w.test)]
    if len(loops) != 1:
        raise AnalysisError("R02.4: run loop `while (ex := next_ex or stack.pop())` not found")
    loop = loops[0]
    # next_ex is reset at the top of each iteration, so a state is never executed twice
    rst = [s for s in _loop_level(loop.body) if isinstance(s, ast.Assign) and src(s) == "next_ex = None"]
    rep.check("R02.4", bool(rst), m, rst[0] if rst else loop, "next_ex = None at the top of the iteration", "next_ex is not reset: the same state would be re-executed")
    flow = Flow(_handoff_transfer, guard_facts=True, calls_raise=False, loops_nonempty=True)
    out = flow.run(loop.body)
    n_paths = 0
    bad_paths = []
    for kind in ("continue", "fall"):
        for st in out.get(kind, ()):
            n_paths += 1
            if "handed" in st:
                continue
            if kind == "continue" and "depth-reported" in st:
                continue
            if ("G", "except InfeasiblePath") in st:
                continue
            gs = sorted(g[1] for g in st if isinstance(g, tuple) and g[0] == "G")
            bad_paths.append((kind, gs[-3:]))
    rep.units["R02.4_run_loop_paths"] = n_paths
    if n_paths < 60:
        raise AnalysisError(f"R02.4: only {n_paths} paths through the run loop body were enumerated")
    rep.check("R02.4", not bad_paths, m, loop, f"{n_paths} paths through the run-loop body reach `continue`/the back edge with the state handed off", f"paths that lose the popped state: {bad_paths[:4]}")
    for kind in ("break", "return"):
        if out.get(kind):
            rep.bad("R02.4", m, loop, f"run loop body can `{kind}`", "leaving the run loop abandons every state still on the worklist")
    # helper summaries: every normal exit has pushed (or yielded) a successor
    summaries = [
        ("sevm.SEVM.calldataload", {}),
        ("sevm.SEVM.create", {}),
        ("sevm.SEVM.call", {}),
        ("sevm.SEVM.call.call_known", {}),
        ("sevm.SEVM.call.call_unknown", {}),
        ("sevm.SEVM.call.call_known.callback", {}),
        ("sevm.SEVM.create.callback", {}),
    ]
    for q, _ in summaries:
        mm, fn = repo.fn(q)
        out = function_exits(fn, _push_transfer(), calls_raise=False, loops_nonempty=True)
        states = normal_exit_states(out)
        ok = bool(states) and all("pushed" in s for s in states)
        rep.check("R02.4", ok, mm, fn, f"{q}: all {len(states)} normal exit state(s) have pushed/yielded a successor", "a path returns from the helper without pushing the execution state back")
    # jumpi: the pushes are tied to follow_* which are tied to potential_* (R10.1 ties the rest to the loop log)
    mm, jf = repo.fn("sevm.SEVM.jumpi")
    for side, neg in (("true", "false"), ("false", "true")):
        var = f"new_ex_{side}"
        pushes = [c for c in method_calls(jf, "push") if dotted(c.func) == "stack.push" and src(c.args[0]) == var]
        ok = len(pushes) == 1 and guard_set(mm, pushes[0]) == {var}
        rep.check("R02.4", ok, mm, pushes[0] if pushes else jf, f"stack.push({var}) under {{{var}}}", f"{var} must be pushed exactly when it was created")
        # every path under `if follow_<side>:` binds new_ex_<side> (or raises)
        ifs = [i for i in jf.body if isinstance(i, ast.If) and src(i.test) == f"follow_{side}"]
        ok = False
        if len(ifs) == 1:
            def tr(node, state, var=var):
                if isinstance(node, ast.Assign) and any(src(t) == var for t in node.targets) and src(node.value) != "None":
                    return ["bound"]
                return []
            o = Flow(tr, calls_raise=False).run(ifs[0].body)
            sts = o.get("fall", set())
            ok = bool(sts) and all("bound" in s for s in sts) and not o.get("return") and not o.get("continue")
        rep.check("R02.4", ok, mm, ifs[0] if ifs else jf, f"if follow_{side}: ... {var} = <branch>", f"a followed side does not produce an execution state")
    fl = {}
    for st in body_walk(jf):
        if isinstance(st, ast.Assign) and len(st.targets) == 1 and src(st.targets[0]) in ("follow_true", "follow_false"):
            fl.setdefault(src(st.targets[0]), []).append(st)
    for var, sts in fl.items():
        side = var.split("_")[1]
        for st in sts:
            v = src(st.value)
            gs = guard_set(mm, st)
            if v == "False":
                continue
            if "is_symbolic_cond" in gs:
                ok = v == f"potential_{side} and visited[{side.capitalize()}] < self.options.loop"
            elif "not (is_symbolic_cond)" in gs:
                ok = v == f"potential_{side}"
            else:
                ok = False
            rep.check("R02.4", ok, mm, st, f"{src(st)}  under {sorted(gs)}", "follow flag must be potential_<side> (and the loop bound only for symbolic conditions)")


def r02_5_unfiltered_alternatives(repo: Repo, rep: Report):
    rep.rule("R02.5", "loops that push one branch per alternative have no break/continue and an unguarded push")
    m = repo.mod("sevm")
    n = 0
    for q, fn in repo.functions("sevm"):
        if not q.startswith("SEVM."):
            continue
        for lp in body_walk(fn):
            if not isinstance(lp, ast.For):
                continue
            pushes = [c for c in _loop_level(lp.body) if isinstance(c, ast.Call) and dotted(c.func) == "stack.push"]
            if not pushes:
                continue
            n += 1
            bc = [b for b in _loop_level(lp.body) if isinstance(b, (ast.Break, ast.Continue))]
            inner_guards = []
            for p in pushes:
                inner_guards += [guard_text(t, pol) for t, pol in guards_at(m, p, stop=lp)]
            outer = {guard_text(t, pol) for t, pol in guards_at(m, lp)}
            inner = [g for g in inner_guards if g not in outer and not g.startswith("isinstance(ret_, ByteVec)")]
            sliced = any(isinstance(n_, ast.Subscript) and isinstance(n_.slice, ast.Slice) for n_ in ast.walk(lp.iter)) or any(isinstance(n_, ast.Call) and call_name(n_) in ("islice", "itertools.islice", "zip", "filter", "random.sample") for n_ in ast.walk(lp.iter))
            ok = not bc and not inner and not sliced
            rep.check("R02.5", ok, m, lp, f"for {src(lp.target)} in {src(lp.iter)[:60]}: ... stack.push(...)", f"alternative enumeration is filtered (break/continue: {len(bc)}, guards on push: {inner})")
    rep.floor("R02.5", 4, "calldataload candidates, symbolic JUMP targets, alias tail, cheatcode return list")


# R02.6 — reviewed non-branching constraints: function -> {origin text: reason}
WHITELIST: dict[str, dict[str, str]] = {
    "sevm.Exec.balance_of": {
        "Select(EMPTY_BALANCE, $addr) == ZERO": "emptiness axiom of the base balance array (per index)",
        "ULE($self.select($self.balance, $addr, $self.balances), con(MAX_ETH))": "documented assumption: balances <= MAX_ETH",
    },
    "sevm.Exec.balance_update": {
        "Array('<fstr>', BitVecSort160, BitVecSort256) == Store($self.balance, $addr, $value)": "definition of a fresh array symbol (conservative extension)",
    },
    "sevm.Exec.sha3_data": {
        "$self.sha3_expr($data) == (bytes_to_bv_value($self.sha3_hash($data)) if $self.sha3_hash($data) is not None else None)": "hash term equals its concrete hash",
        "$self.sha3_expr($data) != ZERO": "documented assumption: hashes are non-zero",
        "ULE($self.sha3_expr($data), 2 ** 256 - 2 ** 64)": "documented assumption: hash range",
    },
    "sevm.Exec.assume_sha3_distinct": {
        "f_inv_sha3_size(Extract(159, 0, $sha3_expr)) == ZERO": "injectivity (size) for the empty hash",
        "Function(f_inv_sha3_name($sha3_expr.arg(0).size()), BitVecSort160, BitVecSorts[$sha3_expr.arg(0).size()])(Extract(159, 0, $sha3_expr)) == $sha3_expr.arg(0)": "injectivity: inverse function returns the preimage",
        "f_inv_sha3_size(Extract(159, 0, $sha3_expr)) == con($sha3_expr.arg(0).size())": "injectivity: inverse size function",
    },
    "sevm.SolidityStorage.load": {
        "Select($cls.empty($addr, $cls.get_key_structure($ex, $loc)['[0]'], $cls.get_key_structure($ex, $loc)['[1]']), concat($cls.get_key_structure($ex, $loc)['[1]'])) == Z3_ZERO": "emptiness axiom of the base storage array (only when not symbolic)",
    },
    "sevm.SolidityStorage.store": {
        "Array('<fstr>', BitVecSorts[$cls.get_key_structure($ex, $loc)['[3]']], BitVecSort256) == Store($storage[$addr][$cls.get_key_structure($ex, $loc)['[0]'], $cls.get_key_structure($ex, $loc)['[2]'], $cls.get_key_structure($ex, $loc)['[3]']], concat($cls.get_key_structure($ex, $loc)['[1]']), $val)": "definition of a fresh array symbol",
    },
    "sevm.GenericStorage.load": {
        "Select($cls.empty($addr, $loc), $loc) == Z3_ZERO": "emptiness axiom of the base storage array (only when not symbolic)",
    },
    "sevm.GenericStorage.store": {
        "Array('<fstr>', BitVecSorts[$loc.size()], BitVecSort256) == Store($storage[$addr][$loc.size()], $loc, $val)": "definition of a fresh array symbol",
    },
    "sevm.SEVM.mk_div": {"ULE(f_div($x, $y), $x)": "(x / y) <= x holds for every y including 0"},
    "sevm.SEVM.mk_mod": {"ULE(f_mod[$x.size()]($x, $y), $y)": "(x % y) <= y holds for every y including 0 (ULT would exclude y = 0)"},
    "sevm.SEVM.arith": {
        "ULE(term.as_z3(), $w1.as_z3())": "(x / y) <= x",
        "ULE(term.as_z3(), $w2.as_z3())": "(x % y) <= y (not ULT: y may be 0)",
    },
    "sevm.SEVM.transfer_value": {
        "UGE($ex.balance_of($caller), $value.as_z3())": "sufficient balance; the complement is explored by handle_insufficient_fund_case (R02.7)",
    },
    "sevm.SEVM.call.call_unknown": {
        "BitVec('<fstr>', BitVecSort256) == exit_code": "definition of a fresh exit-code symbol",
    },
    "sevm.SEVM.create": {"new_addr != %each($ex.code)": "documented assumption: a new address is fresh"},
    "cheatcodes.create_calldata_generic": {
        "BitVec('<fstr>', 4 * 8) != con(int(%each[1](BuildOut().get_by_name($contract_name, $filename)['methodIdentifiers'].items()), 16), 32)": "fallback selector differs from every declared selector (definition of fallback)",
    },
    "cheatcodes.create_uint256_min_max": {
        "UGE(create_generic($ex, 256, $name, 'uint256'), min_value)": "range requested by the cheatcode",
        "ULE(create_generic($ex, 256, $name, 'uint256'), max_value)": "range requested by the cheatcode",
    },
    "cheatcodes.apply_vmaddr": {
        "Implies($private_key != %each[0]($ex.known_keys.items()), addr != %each[1]($ex.known_keys.items()))": "distinct keys give distinct addresses",
    },
    "cheatcodes.hevm_cheat_code.handle": {
        "And(Or(v == 27, v == 28), ULT(0, r), ULT(r, secp256k1n), ULT(0, s), ULT(s, secp256k1n))": "signature component ranges",
        "f_ecrecover(try_bytes_to_bv_value($arg.get_word(4 + 32)), v, r, s) == addr": "ecrecover of a produced signature is the signer",
        "f_ecrecover(try_bytes_to_bv_value($arg.get_word(4 + 32)), v ^ 1, r, secp256k1n - s) == addr": "malleable twin recovers the signer",
        "Implies(Or(try_bytes_to_bv_value($arg.get_word(4)) != %each[0][0]($ex.known_sigs.items()), try_bytes_to_bv_value($arg.get_word(4 + 32)) != %each[0][1]($ex.known_sigs.items())), Or(v != %each[1][0]($ex.known_sigs.items()), r != %each[1][1]($ex.known_sigs.items()), s != %each[1][2]($ex.known_sigs.items())))": "distinct (key, digest) give distinct signatures",
    },
    "__main__.run_target_function": {"$msg_sender_cond": "invariant sender filter built from target/excluded sender sets (R15.5)"},
    "__main__._compute_frontier": {
        "%each(run_target_contract($ctx, %each[1](enumerate($ctx.frontier_states[$depth - 1])), %each(resolve_target_contracts($ctx.inv_ctx, %each[1](enumerate($ctx.frontier_states[$depth - 1])))))).block.timestamp >= %each[1](enumerate($ctx.frontier_states[$depth - 1])).block.timestamp": "timestamps are non-decreasing across transactions",
    },
}

BRANCHING_OK = {
    "sevm.SEVM.resolve_address_alias",
    "sevm.SEVM.jumpi",
    "cheatcodes.hevm_cheat_code.handle",
}


def path_append_sites(repo: Repo):
    for modname in ("sevm", "cheatcodes", "__main__", "calldata", "assertions", "traces", "solve"):
        m = repo.mod(modname)
        for q, fn in repo.functions(modname):
            if q.startswith("Path."):
                continue
            for c in body_walk(fn):
                if isinstance(c, ast.Call) and last_attr(c) in ("append", "extend") and dotted(c.func).endswith("path." + last_attr(c)) and c.args:
                    yield modname, m, q, fn, c


def r02_6_side_constraints(repo: Repo, rep: Report):
    rep.rule("R02.6", "every non-branching path constraint has a reviewed shape (operator + operand origins)")
    n = 0
    for modname, m, q, fn, c in path_append_sites(repo):
        full = f"{modname}.{q}"
        br = kwarg(c, "branching")
        branching = br is not None and fold_in(repo, modname, br) is True
        if branching:
            rep.check("R02.6", full in BRANCHING_OK, m, c, f"{src(c)[:100]}  [branching]", "branching constraint appended outside the reviewed branch points")
            continue
        n += 1
        if last_attr(c) == "extend":
            rep.bad("R02.6", m, c, src(c), "bulk path.extend outside Path is not reviewed")
            continue
        o = origin_text(m, fn, c.args[0])
        allowed = WHITELIST.get(full, {})
        ok = o in allowed
        rep.check("R02.6", ok, m, c, f"{full}: {o[:220]}", "path constraint with an unreviewed shape: it restricts the explored inputs beyond the documented modelling assumptions" if allowed else "new non-branching path constraint in a function that had none")
    if n < 28:
        raise AnalysisError(f"R02.6: only {n} non-branching path.append sites found")
    # emptiness axioms only when the storage is not symbolic
    for q in ("sevm.SolidityStorage.load", "sevm.GenericStorage.load"):
        m, fn = repo.fn(q)
        for c in method_calls(fn, "append"):
            if dotted(c.func).endswith("path.append"):
                gs = guard_set(m, c)
                rep.check("R02.6", "not (symbolic)" in gs, m, c, f"{src(c)} under {sorted(gs)}", "the emptiness axiom must not be asserted for symbolic storage")
    # division/remainder axioms only for symbolic results
    m, fn = repo.fn("sevm.SEVM.arith")
    for c in method_calls(fn, "append"):
        gs = guard_set(m, c)
        rep.check("R02.6", "term.is_symbolic" in gs, m, c, f"{src(c)} under {sorted(gs)[:3]}", "arith axiom must be limited to symbolic results")


COMPLEMENT = {"ULT": "UGE", "UGE": "ULT", "ULE": "UGT", "UGT": "ULE"}


def funds_early_exit(repo: Repo, rep: Report, rid: str):
    """round 7: handle_insufficient_fund_case may leave without forking the failing branch only because the value is
    zero - every `return` in it is guarded by tests over the transferred value alone (the EVM requires the balance
    even for a transfer to oneself, and for CALLCODE)"""
    m, hi = repo.fn("sevm.SEVM.handle_insufficient_fund_case")
    n = 0
    for r in body_walk(hi):
        if not isinstance(r, ast.Return):
            continue
        n += 1
        gs = guards_at(m, r)
        names = {x.id for t, _ in gs for x in ast.walk(t) if isinstance(x, ast.Name)}
        # a local bound once to an expression over the value alone (e.g. `no_value = value == ZERO`) reads as the value
        for _ in range(4):
            for nm in sorted(names - {"value", "ZERO"}):
                defs = find_assign(hi, nm)
                if len(defs) == 1:
                    names = (names - {nm}) | {x.id for x in ast.walk(defs[0]) if isinstance(x, ast.Name)}
        names -= {"is_zero", "is_bv_value", "int", "bool", "isinstance", "BV", "len"}
        ok = bool(gs) and names <= {"value", "ZERO"}
        rep.check(rid, ok, m, r, f"handle_insufficient_fund_case: early return under {sorted(guard_text(t, p) for t, p in gs)}", "the insufficient-funds branch may be skipped only for a zero value (not by sender/target, opcode or any other test)")
    if n == 0:
        rep.check(rid, True, m, hi, "handle_insufficient_fund_case: no early return", "")


def r02_7_complement_pairs(repo: Repo, rep: Report):
    rep.rule("R02.7", "conditions that split a path are syntactic complements over the same operands")
    m, hi = repo.fn("sevm.SEVM.handle_insufficient_fund_case")
    _, tv = repo.fn("sevm.SEVM.transfer_value")
    ic = [s for s in body_walk(hi) if isinstance(s, ast.Assign) and src(s.targets[0]) == "insufficiency_cond"]
    bc = [s for s in body_walk(tv) if isinstance(s, ast.Assign) and src(s.targets[0]) == "balance_cond"]
    if not ic or not bc:
        raise AnalysisError("R02.7: insufficiency_cond / balance_cond not found")
    o1 = origin_text(m, hi, ic[0].value)
    o2 = origin_text(m, tv, bc[0].value)
    p = re.compile(r"^(\w+)\(\$ex\.balance_of\(\$caller\), \$value\.as_z3\(\)\)$")
    m1, m2 = p.match(o1), p.match(o2)
    ok = bool(m1 and m2) and COMPLEMENT.get(m1.group(1)) == m2.group(1) and m1.group(1) == "ULT"
    rep.check("R02.7", ok, m, ic[0], f"{o1}  vs  {o2}", "insufficient-funds branch and the assumed balance condition must be ULT / UGE over (balance_of(caller), value)")
    # same (caller, value) at the call sites
    for q in ("sevm.SEVM.call", "sevm.SEVM.create"):
        _, fn = repo.fn(q)
        his = [c for c in ast.walk(fn) if isinstance(c, ast.Call) and last_attr(c) == "handle_insufficient_fund_case"]
        tvs = [c for c in ast.walk(fn) if isinstance(c, ast.Call) and last_attr(c) == "transfer_value"]
        ok = len(his) == 1 and len(tvs) >= 1 and all(src(his[0].args[0]) == src(t.args[1]) and src(his[0].args[1]) == src(t.args[3]) for t in tvs)
        rep.check("R02.7", ok, m, his[0] if his else fn, f"{q}: handle_insufficient_fund_case({src(his[0].args[0]) if his else '?'}, {src(his[0].args[1]) if his else '?'}) / transfer_value(.., same caller, .., same value)", "the two sides of the funds split use different operands")
        if his and tvs:
            rep.check("R02.7", his[0].lineno < min(t.lineno for t in tvs), m, his[0], f"{q}: insufficient-funds branch is forked before the balance is assumed sufficient", "the failing branch must be created before balance_cond is appended to the path")
    funds_early_exit(repo, rep, "R02.7")
    # the failing branch pushes 0 and is pushed on the worklist
    body_txt = " ; ".join(src(s) for s in ast.walk(hi) if isinstance(s, ast.Expr))
    ok = "fail_ex.st.push(ZERO)" in body_txt and "stack.push(fail_ex)" in body_txt and "fail_ex.advance()" in body_txt
    rep.check("R02.7", ok, m, hi, "fail_ex: push(ZERO), advance(), stack.push(fail_ex)", "insufficient-funds branch must continue after the call with flag 0")
    # jumpi / vm.assert negations
    _, jf = repo.fn("sevm.SEVM.jumpi")
    cf = [s for s in body_walk(jf) if isinstance(s, ast.Assign) and src(s.targets[0]) == "cond_false"]
    ok = bool(cf) and origin_text(m, jf, cf[0].value) == "Not($cond.as_z3())"
    rep.check("R02.7", ok, m, cf[0] if cf else jf, src(cf[0]) if cf else "cond_false = ?", "cond_false must be the negation of cond_true")
    apps = [(src(c.func.value), src(c.args[0])) for c in method_calls(jf, "append") if dotted(c.func).endswith("path.append")]
    cb = [src(c.args[1]) for c in method_calls(jf, "create_branch")]
    ok = ("new_ex_true.path", "cond_true") in apps and ("new_ex_false.path", "cond_false") in apps and cb == ["cond_true"]
    rep.check("R02.7", ok, m, jf, f"jumpi: appends {apps}, branch on {cb}", "each side of a JUMPI must carry its own condition")
    mc, hf = repo.fn("cheatcodes.hevm_cheat_code.handle")
    nc = [s for s in body_walk(hf) if isinstance(s, ast.Assign) and src(s.targets[0]) == "not_cond"]
    ok = bool(nc) and src(nc[0].value) == "simplify(Not(cond))"
    rep.check("R02.7", ok, mc, nc[0] if nc else hf, src(nc[0]) if nc else "not_cond = ?", "not_cond must be the negation of the asserted condition")


RULES = [
    r02_1_verdict_discipline,
    r02_2_solver_free_unsat,
    r02_3_infeasible_path,
    r02_4_worklist_conservation,
    r02_5_unfiltered_alternatives,
    r02_6_side_constraints,
    r02_7_complement_pairs,
]


def r02_8_fork_before_constrain(repo: Repo, rep: Report):
    """A sibling created by create_branch(ex, ...) copies ex.path: the parent's own branching
    condition must not have been appended yet (otherwise every sibling inherits it and becomes
    contradictory, silently losing all alternatives but the first)."""
    rep.rule("R02.8", "the parent path is constrained with its own branch condition only after all siblings have been forked")
    n = 0
    for modname in ("sevm", "cheatcodes"):
        m = repo.mod(modname)
        for q, fn in repo.functions(modname):
            forks = [c for c in body_walk(fn) if isinstance(c, ast.Call) and last_attr(c) == "create_branch"]
            if not forks:
                continue
            aliases = {"ex"}
            for st in body_walk(fn):
                if isinstance(st, ast.Assign) and isinstance(st.value, ast.Name) and st.value.id == "ex":
                    aliases |= {t.id for t in st.targets if isinstance(t, ast.Name)}
            bad_sites = []

            def tr(node, state, aliases=aliases, bad_sites=bad_sites):
                out = []
                if isinstance(node, (ast.FunctionDef, ast.ClassDef)):
                    return out
                for c in ast.walk(node):
                    if not isinstance(c, ast.Call):
                        continue
                    if last_attr(c) == "create_branch" and "constrained" in state and c.args and src(c.args[0]) == "ex":
                        bad_sites.append(c)
                    d = dotted(c.func)
                    if d.endswith(".path.append") and d.split(".")[0] in aliases:
                        br = kwarg(c, "branching")
                        if br is not None and src(br) == "True":
                            out.append("constrained")
                return out

            Flow(tr, calls_raise=False).run(fn.body)
            n += 1
            rep.check("R02.8", not bad_sites, m, bad_sites[0] if bad_sites else fn, f"{modname}.{q}: {len(forks)} fork site(s), none after the parent's own branching constraint", "create_branch(ex, ...) after ex.path.append(<branch condition>, branching=True): the sibling inherits the parent's choice and its path condition becomes contradictory")
    if n < 6:
        raise AnalysisError(f"R02.8: only {n} forking functions found")


RULES.append(r02_8_fork_before_constrain)


def r02_9_shared(repo: Repo, rep: Report):
    """the set of jump targets enumerated for a symbolic JUMP is the scanner's table: a JUMPDEST the scanner loses is a
    feasible behaviour that is never explored (shared with C19)"""
    from hsa.rules.c19 import r19_1_insn_len, r19_2_scanner_decoder, r19_7_concreteness_predicate

    for f in (r19_1_insn_len, r19_2_scanner_decoder, r19_7_concreteness_predicate):
        f(repo, rep)
    # state shared between sibling paths makes the sibling explored later skip alternatives the first one recorded (size
    # candidates substituted by a stale constant) or assume axioms it never established (a copy that forgets `symbolic`):
    # fork-copy completeness (shared with C20)
    from hsa.rules.c20 import r20_1_fork_copies

    r20_1_fork_copies(repo, rep)


RULES.append(r02_9_shared)


def r02_10_alias_recording(repo: Repo, rep: Report):
    rep.rule("R02.10", "address-alias resolution: every alternative (address, condition) constrains its own branch with that condition and records that address")
    m, fn = repo.fn("sevm.SEVM.resolve_address_alias")
    # alternatives are (address, condition) pairs: the condition of an address candidate is `target == addr`
    apps = [c for c in body_walk(fn) if isinstance(c, ast.Call) and src(c.func) == "potential_aliases.append" and len(c.args) == 1 and isinstance(c.args[0], ast.Tuple) and len(c.args[0].elts) == 2]
    texts = sorted(src(c.args[0]) for c in apps)
    ok = texts == ["(None, emptyness_cond)", "(addr, alias_cond)"] and [src(v) for v in find_assign(fn, "alias_cond")] in (["target == addr"], ["addr == target"])
    rep.check("R02.10", ok, m, apps[0] if apps else fn, f"alternatives appended: {texts}; alias_cond = {[src(v) for v in find_assign(fn, 'alias_cond')]}", "an alternative must pair a candidate address with the condition that the target equals it (and None with `equals none of them`)")
    stores = [n for n in body_walk(fn) if isinstance(n, ast.Subscript) and isinstance(n.ctx, ast.Store) and isinstance(n.value, ast.Attribute) and n.value.attr == "alias"]
    if len(stores) < 2:
        raise AnalysisError("resolve_address_alias: alias stores not found")
    # names bound by unpacking a pair: name -> (the unpacking, position)
    unpack = {}
    for n in body_walk(fn):
        tgt = n.targets[0] if isinstance(n, ast.Assign) and len(n.targets) == 1 else (n.target if isinstance(n, ast.For) else None)
        if isinstance(tgt, ast.Tuple) and len(tgt.elts) == 2 and all(isinstance(e, ast.Name) for e in tgt.elts):
            for i, e in enumerate(tgt.elts):
                unpack.setdefault(e.id, []).append((id(tgt), i, n))
    for n in stores:
        st = m.parents[n]
        recv = src(n.value.value)
        blk = m.parents[st]
        sibs = list(getattr(blk, "body", []))
        ok = isinstance(st, ast.Assign) and isinstance(st.value, ast.Name) and src(n.slice) == "target" and st in sibs
        conds = []
        if ok:
            for x in sibs:
                if isinstance(x, ast.Assign) and src(x.targets[0]) == recv and isinstance(x.value, ast.Call) and last_attr(x.value) == "create_branch" and len(x.value.args) >= 2 and src(x.value.args[0]) == "ex":
                    conds.append(x.value.args[1])
                elif isinstance(x, ast.Expr) and isinstance(x.value, ast.Call) and src(x.value.func) == f"{recv}.path.append" and x.value.args and kwarg(x.value, "branching") is not None and src(kwarg(x.value, "branching")) == "True":
                    conds.append(x.value.args[0])
            # the pair in force at this store: the enclosing loop's target, or the last unpacking before the store
            def pair_of(name):
                cands = [(t, i, node) for t, i, node in unpack.get(name, []) if (node is blk) or (not isinstance(node, ast.For) and node in sibs and node.lineno < st.lineno)]
                return cands[-1][:2] if cands else None
            pv = pair_of(st.value.id)
            ok = len(conds) == 1 and isinstance(conds[0], ast.Name) and pv is not None and pv[1] == 0 and pair_of(conds[0].id) == (pv[0], 1)
        rep.check("R02.10", ok, m, st, f"{src(st)}: address and condition of one alternative, condition applied to {recv}", "the branch records another value than the alternative's address, or is constrained by another alternative's condition: the call then runs the wrong account's code (or a feasible alias is never explored)")


RULES.append(r02_10_alias_recording)
