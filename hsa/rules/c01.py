"""C01 — every reported execution path is a real EVM behaviour (dispatcher vs the EVM instruction table)."""

from __future__ import annotations

import ast

from hsa.core import AnalysisError, Repo, Report, body_walk, call_name, dotted, find_assign, kwarg, last_attr, src
from hsa.flow import Flow, function_exits, normal_exit_states
from hsa.fold import UNKNOWN, fold_in
from hsa.opsem import arm_index, arm_records, dispatch, signature
from hsa.rules.common import guard_set, if_chain, method_calls
from hsa.spec import evm_ops
from hsa.spec.evm_sem import SEM

EXPLANATION = (
    "Decides that the instruction dispatcher agrees with the EVM instruction table: folding every arm test of "
    "SEVM.run over the 256 opcode values, each defined opcode except the reviewed unsupported list selects "
    "exactly one arm, undefined values fall to the `raise HalmosException` arm, and multi-opcode arms capture "
    "exactly their family; a stack-effect abstract interpreter walks every arm (and the prefixes of the "
    "call/create/calldataload helpers) and its hand-off signatures - items consumed, items produced, operand "
    "order, helper bound, side-effect call - must equal the reviewed EVM table entry for that opcode "
    "(e.g. SUB = s0 - s1, SHL shifts s1 by s0, CALL pops 7 / STATICCALL 6, LOGn pops 2+n); the modelling "
    "obligations (hash axioms and registration, balance axioms, address freshness) are reached on every path "
    "that returns a value; halting opcodes halt and finalise, a second output is refused, and the three "
    "exception handlers map EVM errors to a reverted frame, internal errors to a stuck path and cheatcode "
    "failures to a path end. It does not decide that the produced terms denote EVM results (values)."
    ' Also evaluated here, because a reported end state contains storage, memory and code contents: the storage-model rules of C08 (decode siblings, load/store agreement, transient storage) and the code-read/decoding rules of C19 (instruction length over 256 opcodes, scanner/decoder stride, STOP beyond the end, zero-padded code slices).'
    ' Round 5: a concretized chunk keeps its (start, length) window (R01.7); precomputed keccak tables (C08 R08.1) and fork-copy completeness (C20 R20.1) are evaluated here too.'
)
ASSUMPTIONS = [
    "EVM instruction table frozen in hsa/spec/evm_ops.py and hsa/spec/evm_sem.py (Yellow Paper + EIPs)",
    "HalmosBitVec methods mean what their names say (their operator/signedness wiring is C06)",
]

UNSUPPORTED = {"SELFDESTRUCT"}  # reviewed: reported as unsupported (stuck -> ERROR), see C10
FAMILIES = [
    {f"PUSH{i}" for i in range(1, 32)},
    {f"DUP{i}" for i in range(1, 17)},
    {f"SWAP{i}" for i in range(1, 17)},
    {f"LOG{i}" for i in range(5)},
    {"STOP", "RETURN", "REVERT", "INVALID"},
    {"MUL", "DIV", "SDIV", "MOD", "SMOD"},
    {"CALL", "CALLCODE", "DELEGATECALL", "STATICCALL"},
    {"CREATE", "CREATE2"},
]


def _defined_ops(repo):
    m = repo.mod("contract")
    ops = {}
    for st in m.tree.body:
        if isinstance(st, ast.Assign) and len(st.targets) == 1 and isinstance(st.targets[0], ast.Name) and st.targets[0].id.startswith("OP_"):
            v = fold_in(repo, "contract", st.value)
            if isinstance(v, int):
                ops[st.targets[0].id[3:]] = v
    return ops


def r01_1_dispatch_totality(repo: Repo, rep: Report):
    rep.rule("R01.1", "dispatch over opcode 0..255: every defined opcode (minus the unsupported list) selects exactly one arm; undefined values raise")
    m, run, chain, arms = dispatch(repo)
    ops = _defined_ops(repo)
    by_val = {v: k for k, v in ops.items()}
    else_idx = len(arms) - 1 if arms[-1][0] is None else None
    if else_idx is None:
        rep.bad("R01.1", m, chain, "dispatch chain has no else arm", "an unknown opcode would fall through and be skipped silently")
        return
    per_arm = {}
    for v in range(256):
        i = arm_index(repo, arms, v)
        name = by_val.get(v)
        if name is None:
            rep.check("R01.1", i == else_idx, m, arms[i][0] or chain, f"undefined opcode {v:#04x} -> {'else (unsupported)' if i == else_idx else src(arms[i][0])}", "a byte that is not an EVM instruction selects an instruction arm")
        elif name in UNSUPPORTED:
            rep.check("R01.1", i == else_idx, m, chain, f"{name} ({v:#04x}) -> else (reported as unsupported)", "reviewed-unsupported opcode gained an arm: review its semantics and update the table")
        else:
            rep.check("R01.1", i != else_idx, m, chain if i == else_idx else arms[i][0], f"{name} ({v:#04x}) -> arm {i}: {src(arms[i][0])[:60] if arms[i][0] is not None else 'else'}", f"{name} has no handler: it would stop every path that executes it")
            per_arm.setdefault(i, set()).add(name)
    rep.table("opcode values folded through the dispatch chain", 256)
    for i, names in sorted(per_arm.items()):
        if len(names) > 1:
            ok = any(names == f for f in FAMILIES)
            rep.check("R01.1", ok, m, arms[i][0], f"arm `{src(arms[i][0])[:50]}` handles {sorted(names)}", "a range/membership arm captures opcodes outside its family (or misses members): they would be executed with another instruction's semantics")
    # arms that no opcode selects are dead (shadowed by an earlier arm)
    for i, (t, b) in enumerate(arms[:-1]):
        if i not in per_arm:
            rep.bad("R01.1", m, t, f"arm `{src(t)[:60]}` is selected by no opcode", "dead arm: shadowed by an earlier test or bound to a wrong constant")
    last = arms[-1][1]
    all_raises = [r for s in last for r in ast.walk(s) if isinstance(r, ast.Raise)]
    ok = bool(all_raises) and all(r.exc is not None and "HalmosException" in src(r.exc) for r in all_raises) and isinstance(last[-1], ast.Raise)
    rep.check("R01.1", ok, m, last[0], f"else: every exit is `raise HalmosException('Unsupported opcode ...')` ({len(all_raises)} raise site(s))", "unknown opcode must stop the path with an internal error (not an EVM-level revert, which reports an execution the EVM does not have for valid-but-unimplemented opcodes)")
    # the dispatch variable is the current instruction's opcode, the state is the current state's stack
    binds = {k: [src(v) for v in find_assign(run, k)] for k in ("insn", "opcode", "state")}
    ok = binds == {"insn": ["ex.insn"], "opcode": ["insn.opcode"], "state": ["ex.st"]}
    rep.check("R01.1", ok, m, run, f"insn/opcode/state bound to {binds}", "dispatcher must decode the running state's own instruction and stack")
    # common tail: advance to next_pc and continue with the same state
    loop = [w for w in body_walk(run) if isinstance(w, ast.While) and "stack.pop()" in src(w.test)][0]
    tr = [t for t in loop.body if isinstance(t, ast.Try)][0]
    tail = [src(s) for s in tr.body[-2:]]
    rep.check("R01.1", tail == ["ex.advance(pc=insn.next_pc)", "next_ex = ex"], m, tr.body[-1], f"common tail: {tail}", "after a non-branching instruction execution must continue at the next instruction of the same state")


def _expected(name: str):
    if name in SEM:
        return {(d, a, tuple(t), tuple(e)) for d, a, t, e in SEM[name]}
    if name.startswith("PUSH"):
        return {(0, 1, ("insn.operand",), ())}
    if name.startswith("DUP"):
        n = int(name[3:])
        return {(n, n + 1, tuple([f"s{n - 1}"] + [f"s{i}" for i in range(n)]), ())}
    if name.startswith("SWAP"):
        n = int(name[4:])
        return {(n + 1, n + 1, tuple([f"s{n}"] + [f"s{i}" for i in range(1, n)] + ["s0"]), ())}
    return None


def r01_2_3_arm_semantics(repo: Repo, rep: Report):
    rep.rule("R01.2", "stack effect of every arm (items consumed / produced on every hand-off) equals the EVM table")
    rep.rule("R01.3", "operand order, helper binding and side effect of every arm equal the reviewed EVM semantics entry")
    m, run, chain, arms = dispatch(repo)
    ops = _defined_ops(repo)
    n = 0
    for name, v in sorted(ops.items(), key=lambda kv: kv[1]):
        if name in UNSUPPORTED:
            continue
        i, recs = arm_records(repo, arms, v)
        if recs is None:
            continue
        n += 1
        sig = signature(recs)
        node = arms[i][0]
        spec_name = evm_ops.ALIASES.get(name, name)
        d_a = evm_ops.BY_NAME.get(spec_name)
        if d_a is None:
            rep.bad("R01.2", m, node, f"{name}", "opcode missing from the EVM table")
            continue
        _, want_d, want_a = d_a
        got_da = sorted({(d, a) for d, a, _, _ in sig})
        rep.check("R01.2", got_da == [(want_d, want_a)], m, node, f"{name}: (pops, pushes) on all hand-offs = {got_da}", f"EVM: {name} removes {want_d} and adds {want_a} stack items")
        exp = _expected(spec_name)
        if exp is None:
            rep.bad("R01.3", m, node, f"{name}: {sorted(sig)}", "no reviewed semantics entry for this opcode (add it to hsa/spec/evm_sem.py after review)")
            continue
        missing = exp - sig
        extra = sig - exp
        txt = "; ".join(f"{list(t)} {list(e) if e else ''}" for _, _, t, e in sorted(sig))[:200]
        rep.check("R01.3", not missing and not extra, m, node, f"{name}: {txt}", f"arm differs from the reviewed EVM semantics: unexpected {sorted(extra)[:2]} / missing {sorted(missing)[:2]}")
    rep.table("opcode arms interpreted", n)
    if n < 140:
        raise AnalysisError(f"R01.3: only {n} opcode arms interpreted")
    # pushes of the consuming helpers: exactly one flag per continuation
    for q, pat in (("sevm.SEVM.call.call_unknown", ("ex.st.push", "ex.st.push_any")), ("sevm.SEVM.call.call_known.callback", ("new_ex.st.push",)), ("sevm.SEVM.create.callback", ("new_ex.st.push", "new_ex.st.push_any"))):
        mm, fn = repo.fn(q)

        def tr(node, state, pat=pat):
            out = []
            if isinstance(node, (ast.FunctionDef, ast.ClassDef)):
                return out
            for c in ast.walk(node):
                if isinstance(c, ast.Call) and dotted(c.func) in pat:
                    k = sum(1 for f in state if isinstance(f, tuple) and f[0] == "push")
                    out.append(("push", k + 1))
                if isinstance(c, ast.Call) and dotted(c.func) == "stack.push":
                    out.append("scheduled")
            return out

        out = function_exits(fn, tr, calls_raise=False, loops_nonempty=True)
        states = [s for s in normal_exit_states(out) if "scheduled" in s]
        counts = sorted({sum(1 for f in s if isinstance(f, tuple) and f[0] == "push") for s in states})
        rep.check("R01.2", counts == [1] and bool(states), mm, fn, f"{q}: every scheduled continuation pushed exactly one result word ({counts})", "a CALL/CREATE continuation resumes the caller with a missing or duplicated result word")


def r01_4_modelling_obligations(repo: Repo, rep: Report):
    rep.rule("R01.4", "modelling obligations are reached on every path that returns a value (hash axioms + registration, balance axioms, address freshness)")
    m, sd = repo.fn("sevm.Exec.sha3_data")

    def tr(node, state):
        out = []
        if isinstance(node, (ast.FunctionDef, ast.ClassDef)):
            return out
        for c in ast.walk(node):
            if isinstance(c, ast.Call):
                d = dotted(c.func)
                if d == "self.assume_sha3_distinct":
                    out.append("distinct")
                if d == "self.sha3s.register":
                    out.append("registered" if "distinct" in state else "registered-before-distinct")
                if d == "self.path.append":
                    out.append("axiom")
        return out

    out = function_exits(sd, tr, calls_raise=False, guard_facts=True)
    rets = out.get("return", set())
    bad = [s for s in rets if not ({"distinct", "registered", "axiom"} <= s) and ("G", "byte_length(data) > 128") not in s]
    rep.check("R01.4", not bad and bool(rets), m, sd, f"sha3_data: {len(rets)} return paths; all but the reviewed large-preimage shortcut assert the hash axioms, injectivity, and register the hash (in that order)", "a hash value is returned without its axioms / registration: storage decoding and injectivity no longer hold for it")
    big = [s for s in rets if ("G", "byte_length(data) > 128") in s]
    rep.check("R01.4", all(("G", "sha3_hash is not None") in s for s in big), m, sd, "large-preimage shortcut only for concrete hashes", "the untracked shortcut must be limited to concrete hashes")
    _, ad = repo.fn("sevm.Exec.assume_sha3_distinct")
    t = src(ad)
    ok = "if sha3_expr in self.sha3s:\n        return" in t.replace("            ", "        ") or ("if sha3_expr in self.sha3s:" in t)
    rep.check("R01.4", ok and t.count("self.path.append(") == 3, m, ad, "assume_sha3_distinct: skipped only for already registered hashes; 3 injectivity axioms", "injectivity axioms dropped")
    _, bo = repo.fn("sevm.Exec.balance_of")

    def tr2(node, state):
        out = []
        for c in ast.walk(node) if not isinstance(node, (ast.FunctionDef, ast.ClassDef)) else []:
            if isinstance(c, ast.Call) and dotted(c.func) == "self.path.append":
                out.append("emptiness" if "EMPTY_BALANCE" in src(c) else "max_eth")
        return out

    out = function_exits(bo, tr2, calls_raise=False, guard_facts=True)
    rets = out.get("return", set())
    ok = bool(rets) and all("emptiness" in s for s in rets) and all(("max_eth" in s) or ("G", "is_bv_value(value)") in s for s in rets)
    rep.check("R01.4", ok, m, bo, "balance_of: emptiness axiom on every return; MAX_ETH bound unless the balance is concrete", "balance read without its modelling axioms")
    _, cr = repo.fn("sevm.SEVM.create")
    loops = [l for l in cr.body if isinstance(l, ast.For) and src(l.iter) == "ex.code"]
    ok = len(loops) == 1 and [src(s) for s in loops[0].body] == ["ex.path.append(new_addr != addr)"]
    setc = [c for c in body_walk(cr) if isinstance(c, ast.Call) and dotted(c.func) == "ex.set_code"]
    ok = ok and setc and loops[0].lineno < setc[0].lineno
    rep.check("R01.4", bool(ok), m, loops[0] if loops else cr, "create: new_addr != addr for every existing account, before the account is set up", "a created address may alias an existing account")
    na = [src(v) for v in find_assign(cr, "new_addr")]
    ok = na == ["ex.new_address()", "uint160(ex.sha3_data(hash_data)).as_z3()"]
    rep.check("R01.4", ok, m, cr, f"new_addr = {na}", "CREATE uses a fresh address; CREATE2 the hash of (0xff, sender, salt, code hash)")
    hd = [src(v) for v in find_assign(cr, "hash_data")]
    ok = hd == ["simplify(Concat(con(255, 8), uint160(pranked_caller).as_z3(), salt.as_z3(), code_hash))"]
    rep.check("R01.4", ok, m, cr, f"hash_data = {hd}", "CREATE2 preimage must be 0xff ++ sender ++ salt ++ keccak(init code)")


def r01_5_halting(repo: Repo, rep: Report):
    rep.rule("R01.5", "halting: terminating opcodes halt + finalise; second output refused; handlers map EVM/internal/cheatcode failures")
    m, run = repo.fn("sevm.SEVM.run")
    _, _, chain, arms = dispatch(repo)
    ops = _defined_ops(repo)
    want = {"STOP": "ex.halt(data=ByteVec())", "INVALID": "ex.halt(data=ByteVec(), error=InvalidOpcode(opcode))", "REVERT": "ex.halt(data=mslice(mloc(s0), int(s1)), error=Revert())", "RETURN": "ex.halt(data=mslice(mloc(s0), int(s1)))"}
    for name, eff in want.items():
        i, recs = arm_records(repo, arms, ops[name])
        fin = [r for r in recs if r.kind == "finalize"]
        cont = [r for r in recs if r.kind == "continue"]
        falls = [r for r in recs if r.kind == "fall"]
        ok = len(fin) == 1 and list(fin[0].effects) == [eff] and len(cont) == 1 and not falls
        rep.check("R01.5", ok, m, arms[i][0], f"{name}: {eff}; yield from finalize(ex); continue", f"{name} must halt with exactly this output, finalise the frame and not execute further")
    ms, hl = repo.fn("sevm.Exec.halt")
    t = src(hl)
    ok = "if output.data is not None:\n        raise HalmosException('output already set')" in t.replace("            ", "        ") and "output.data = data" in t and "output.error = error" in t
    rep.check("R01.5", ok, ms, hl, "halt: refuses a second output; records data and error", "a frame could be halted twice with different outcomes")
    fins = [f for f in ast.walk(run) if isinstance(f, ast.FunctionDef) and f.name == "finalize"]
    ok = len(fins) == 1
    if ok:
        t = src(fins[0])
        ok = "if ex.callback is None:" in t and "yield ex" in t and "yield from ex.callback(ex, stack)" in t
    rep.check("R01.5", ok, m, fins[0] if fins else run, "finalize: top-level frame -> yield the end state; nested frame -> return to the caller's callback", "end of a frame must either report the path or resume the caller")
    hs = {src(h.type): h for t_ in body_walk(run) if isinstance(t_, ast.Try) for h in t_.handlers if h.type is not None}
    spec = {
        "InfeasiblePath": (["continue"], None),
        "EvmException": (["ex.halt(data=ByteVec(), error=err)", "yield from finalize(ex)", "continue"], None),
        "HalmosException": (["ex.halt(data=None, error=err)", "yield from finalize(ex)", "continue"], None),
    }
    for k, (need, _) in spec.items():
        h = hs.get(k)
        body = [src(s) for s in h.body] if h else []
        body = [b.replace("(yield from finalize(ex))", "yield from finalize(ex)") for b in body if not b.startswith("debug(")]
        rep.check("R01.5", body == need, m, h or run, f"except {k}: {body}", f"handler for {k} must be {need}")
    rep.check("R01.5", list(hs)[:4] == ["InfeasiblePath", "EvmException", "HalmosException", "FailCheatcode"], m, run, f"handlers: {list(hs)}", "handler set/order of the run loop changed")
    # stack underflow / call depth are EVM errors of the frame
    _, pop = repo.fn("sevm.State.pop")
    rep.check("R01.5", "raise StackUnderflowError() from e" in src(pop), ms, pop, "pop on an empty stack -> StackUnderflowError (an EvmException)", "stack underflow must fail the frame")
    dep = [r for r in body_walk(run) if isinstance(r, ast.Raise) and "MessageDepthLimitError" in src(r)]
    ok = len(dep) == 1 and "ex.context.depth > MAX_CALL_DEPTH" in guard_set(m, dep[0]) and repo.const("sevm", "MAX_CALL_DEPTH") == 1024
    rep.check("R01.5", ok, m, dep[0] if dep else run, "call depth > 1024 -> MessageDepthLimitError", "EVM call depth limit")


def r01_6_shared(repo: Repo, rep: Report):
    """word semantics wiring (C06) and call/create context (C09) are part of `a reported end state is an EVM end state`"""
    from hsa.rules.c06 import r06_3_operator_table, r06_5_bool_closedness
    from hsa.rules.c09 import r09_1_snapshot_restore, r09_2_message_construction, r09_4_value_transfer, r09_5_returndata

    rep.rule("R06.3", "HalmosBitVec methods use their reviewed operators (shared with C06)")
    rep.rule("R06.5", "unconverted stack items only get Bool-closed operations (shared with C06)")
    rep.rule("R09.1", "snapshot/restore pairing of sub-frames (shared with C09)")
    rep.rule("R09.2", "Message construction per call scheme (shared with C09)")
    rep.rule("R09.4", "value transfer (shared with C09)")
    rep.rule("R09.5", "returndata (shared with C09)")
    for f in (r06_3_operator_table, r06_5_bool_closedness, r09_1_snapshot_restore, r09_2_message_construction, r09_4_value_transfer, r09_5_returndata):
        f(repo, rep)
    # storage model (C08) and code reads / decoding (C19): a reported end state contains storage and memory contents
    from hsa.rules.c08 import r08_2_decode_siblings, r08_3_load_store_agreement, r08_4_transient
    from hsa.rules.c19 import r19_1_insn_len, r19_2_scanner_decoder, r19_4_stop_beyond_end, r19_8_code_slice_zero_pad

    for f in (r08_2_decode_siblings, r08_3_load_store_agreement, r08_4_transient, r19_1_insn_len, r19_2_scanner_decoder, r19_4_stop_beyond_end, r19_8_code_slice_zero_pad):
        f(repo, rep)
    # the precomputed keccak tables decide which slot a literal location denotes (C08 R08.1); a state shared between
    # sibling paths reports values another path computed (C20 R20.1)
    from hsa.rules.c08 import r08_1_precomputed_tables
    from hsa.rules.c20 import r20_1_fork_copies

    r08_1_precomputed_tables(repo, rep)
    r20_1_fork_copies(repo, rep)


def r01_7_concretized_window(repo: Repo, rep: Report):
    rep.rule("R01.7", "a chunk with substituted values covers the same window of the same data (start, length) as the chunk it replaces")
    m, fn = repo.fn("bytevec.Chunk.concretize")
    rets = [r for r in body_walk(fn) if isinstance(r, ast.Return) and r.value is not None]
    if not rets:
        raise AnalysisError("Chunk.concretize: no return found")

    def leaves(e):
        return leaves(e.body) + leaves(e.orelse) if isinstance(e, ast.IfExp) else [e]

    n = 0
    for r in rets:
        for v in leaves(r.value):
            n += 1
            if src(v) == "self":
                rep.ok("R01.7", m, r, "concretize: returns self (nothing substituted)")
                continue
            ok = isinstance(v, ast.Call) and call_name(v) in ("ConcreteChunk", "SymbolicChunk") and [src(a) for a in v.args[1:]] == ["self.start", "self.length"] and not v.keywords
            rep.check("R01.7", ok, m, v, f"concretize: returns {src(v)[:70]}", "the substituted chunk is not built over (self.start, self.length): CALLDATACOPY / memory reads of a concretized value return fewer or shifted bytes and leave stale data")
    rep.floor("R01.7", 3, "return values of Chunk.concretize")


RULES = [r01_1_dispatch_totality, r01_2_3_arm_semantics, r01_4_modelling_obligations, r01_5_halting, r01_6_shared, r01_7_concretized_window]
