"""C15 — invariant testing covers every bounded call sequence."""

from __future__ import annotations

import ast

from hsa.fold import fold_in
from hsa.core import AnalysisError, Repo, Report, body_walk, call_name, dotted, find_assign, kwarg, last_attr, src
from hsa.flow import Flow, _loop_level
from hsa.rules.c10 import r10_2_loop_logs_reported
from hsa.rules.common import guard_set, method_calls

EXPLANATION = (
    "Decides depth indexing (frontier d is computed from frontier d-1 and stored at d; tests iterate depths "
    "0..invariant_depth; only invariant_* tests get a depth), loop completeness of the frontier computation "
    "(no break in the loops over pre-states, target contracts, target functions and post-states; each "
    "`continue` is one of the reviewed reasons: stuck (reported), ordinary revert, probe already reported, "
    "after probe submission, state already visited), the retention/pairing that makes state identity "
    "meaningful (a state is added to `visited` only together with being kept in the frontier cache; the digest "
    "covers balance, every code entry, every storage entry and the sliced constraints, computed after "
    "path_slice()), and the shape of the symbolic transaction (fresh msg.value / tx.origin / msg.sender, sender "
    "constraint built only from the target/excluded sets, timestamp constrained only from below, fresh "
    "calldata per call). Foundry's filter semantics as a truth table and coverage of sequences are not decided."
    ' Also decided: StorageData.digest feeds keys and values through one hash state in sequence (no combination of separately hashed parts); Path.append records the transitively closed dependency set; targetSelector/excludeSelector entries accumulate per contract.'
    " Round 4: a probe is marked reported only under a solver model (R15.10); every filter set of the invariant context is exactly its getter's result."
    ' Round 5: the reserved-function predicate is evaluated on sample signatures whatever its form; FunctionInfo identity covers every field; invariant-testing filters keep a state unless the solver says unsat (C02 R02.1).'
    ' Round 7: a frontier state carries its constraints into the next depth through Path.extend_path - conditions, dependency index and sliced view stay consistent (C11 R11.2).'
)
ASSUMPTIONS = ["z3 term ids and Python object ids are stable while the objects are retained (retention is what R15.3 checks)"]


def r15_1_depth_indexing(repo: Repo, rep: Report):
    rep.rule("R15.1", "frontier d is computed from d-1 and stored at d; depths 0..invariant_depth; depth only for invariant_* tests")
    m, cf = repo.fn("__main__._compute_frontier")
    cur = [src(v) for v in find_assign(cf, "curr_exs")]
    rep.check("R15.1", cur == ["frontier_states[depth - 1]"], m, cf, f"curr_exs = {cur}", "frontier d must be computed from the states at depth d-1")
    pub = [s for s in body_walk(cf) if isinstance(s, ast.Assign) and src(s.targets[0]) == "frontier_states[depth]"]
    ok = len(pub) == 1 and src(pub[0].value) == "next_exs" and [src(v) for v in find_assign(cf, "next_exs")] == ["[]"]
    rep.check("R15.1", ok, m, pub[0] if pub else cf, src(pub[0]) if pub else "frontier_states[depth] = ?", "the new frontier must be stored at index `depth`, starting empty")
    fs = [src(v) for v in find_assign(cf, "frontier_states")]
    rep.check("R15.1", fs == ["ctx.frontier_states"], m, cf, f"frontier_states = {fs}", "frontier cache must be the contract context's")
    loops = [l for l in body_walk(cf) if isinstance(l, ast.For)]
    its = [src(l.iter) for l in loops]
    ok = its[:3] == ["enumerate(curr_exs)", "resolve_target_contracts(ctx.inv_ctx, pre_ex)", "post_exs"]
    rep.check("R15.1", ok, m, cf, f"loops: {its}", "frontier computation must iterate pre-states x target contracts x post-states")
    pe = [src(v) for v in find_assign(cf, "post_exs")]
    rep.check("R15.1", pe == ["run_target_contract(ctx, pre_ex, addr)"], m, cf, f"post_exs = {pe}", "each target contract must be executed from each pre-state")
    mg, gf = repo.fn("__main__.get_frontier")
    t = src(gf)
    ok = "ctx.frontier_states.get(depth)" in t and "return _compute_frontier(ctx, depth)" in t
    rep.check("R15.1", ok, mg, gf, "get_frontier: cached frontier or _compute_frontier(ctx, depth)", "frontier lookup must use the same depth for cache and computation")
    mr, rts = repo.fn("__main__.run_tests")
    md = [src(v) for v in find_assign(rts, "max_call_depth")]
    ok = md == ["test_config.invariant_depth if funsig.startswith('invariant_') else 0"]
    rep.check("R15.1", ok, mr, rts, f"max_call_depth = {md}", "invariant tests get --invariant-depth transactions; regular tests get 0")
    fc = [c for c in body_walk(rts) if isinstance(c, ast.Call) and call_name(c) == "FunctionContext"]
    ok = len(fc) == 1 and src(kwarg(fc[0], "max_call_depth")) == "max_call_depth" and src(kwarg(fc[0], "setup_ex")) == "setup_ex"
    rep.check("R15.1", ok, mr, fc[0] if fc else rts, "FunctionContext(..., setup_ex=setup_ex, max_call_depth=max_call_depth)", "depth must reach the test context")
    mm, rm = repo.fn("__main__.run_message")
    rng = [l for l in body_walk(rm) if isinstance(l, ast.For) and isinstance(l.iter, ast.Call) and call_name(l.iter) == "range"]
    ok = len(rng) == 1 and src(rng[0].iter) == "range(ctx.max_call_depth + 1)"
    rep.check("R15.1", ok, mm, rng[0] if rng else rm, f"for depth in {src(rng[0].iter) if rng else '?'}", "depths 0..max_call_depth inclusive (the invariant is checked after each prefix, including the longest)")
    # call sequence bookkeeping
    cs = [s for s in body_walk(cf) if isinstance(s, ast.Assign) and src(s.targets[0]) == "post_ex.call_sequence"]
    ok = len(cs) == 1 and src(cs[0].value) == "pre_ex.call_sequence + [subcall]" and [src(v) for v in find_assign(cf, "subcall")] == ["post_ex.context"]
    rep.check("R15.1", ok, m, cs[0] if cs else cf, src(cs[0]) if cs else "post_ex.call_sequence = ?", "the reproducing call sequence must be the pre-state's sequence plus this call (new list, not appended in place)")


REVIEWED_CONTINUES = [
    ("stuck target call (reported by error())", {"subcall.is_stuck()"}),
    ("ordinary revert (not a panic, no failure flag)", {"not (subcall.is_stuck())", "subcall.output.error", "not (panic_found)", "not (is_global_fail_set(subcall))"}),
    ("probe already reported", {"not (subcall.is_stuck())", "subcall.output.error", "fun_info in ctx.probes_reported"}),
    ("reverted state is not explored further (after probe submission)", {"not (subcall.is_stuck())", "subcall.output.error"}),
    ("state already visited", {"not (subcall.is_stuck())", "post_id in visited"}),
]


def r15_2_loop_completeness(repo: Repo, rep: Report):
    rep.rule("R15.2", "frontier loops have no break; every continue is one of the five reviewed reasons")
    m, cf = repo.fn("__main__._compute_frontier")
    loops = [l for l in body_walk(cf) if isinstance(l, ast.For)]
    for l in loops:
        brk = [b for b in _loop_level(l.body) if isinstance(b, (ast.Break, ast.Return))]
        rep.check("R15.2", not brk, m, l, f"for {src(l.target)} in {src(l.iter)[:60]}: no break/return", "frontier computation is cut short: later states / contracts / functions are never explored")
    conts = [c for c in body_walk(cf) if isinstance(c, ast.Continue)]
    for c in conts:
        gs = guard_set(m, c)
        in_handler = any(isinstance(a, ast.ExceptHandler) for a in m.ancestors(c))
        matched = None
        for why, need in REVIEWED_CONTINUES:
            if need <= gs:
                matched = why
                if len(need) > 2 or need == {"subcall.is_stuck()"} or "post_id in visited" in need:
                    break
        # the bare `subcall.output.error` continue must be the last statement of that block
        if matched == REVIEWED_CONTINUES[3][0]:
            blk = m.parents[c]
            matched = matched if isinstance(blk, ast.If) and src(blk.test) == "subcall.output.error" and blk.body[-1] is c else None
        rep.check("R15.2", matched is not None and not in_handler, m, c, f"continue [{matched}] under {sorted(gs)[-3:]}", "a post-state is skipped for an unreviewed reason")
    if len(conts) < 5:
        raise AnalysisError(f"R15.2: only {len(conts)} continue statements found in _compute_frontier")
    # visited check happens after slicing and before the state is kept
    _, rtc = repo.fn("__main__.run_target_contract")
    tl = [l for l in body_walk(rtc) if isinstance(l, ast.For) and src(l.iter) == "target_selectors"]
    ok = len(tl) == 1 and not [b for b in _loop_level(tl[0].body) if isinstance(b, (ast.Break, ast.Return))]
    rep.check("R15.2", ok, m, tl[0] if tl else rtc, "for fun_sig, fun_selector in target_selectors: no break/return", "not every target function is executed")
    if tl:
        for c in [c for c in _loop_level(tl[0].body) if isinstance(c, ast.Continue)]:
            ok = any(isinstance(a, ast.ExceptHandler) for a in m.ancestors(c))
            rep.check("R15.2", ok, m, c, "continue only in the (reporting) exception handler", "a target function is skipped silently")
    ts = [src(v) for v in find_assign(rtc, "target_selectors")]
    rep.check("R15.2", ts == ["resolve_target_selectors(ctx.inv_ctx, addr, contract_json)"], m, rtc, f"target_selectors = {ts}", "target functions must come from resolve_target_selectors for this address")
    ys = [y for y in body_walk(rtc) if isinstance(y, ast.YieldFrom)]
    ok = len(ys) == 1 and isinstance(ys[0].value, ast.Call) and call_name(ys[0].value) == "run_target_function"
    rep.check("R15.2", ok, m, ys[0] if ys else rtc, "yield from run_target_function(...)", "every end state of every target call must be yielded")


def r15_3_identity_retention(repo: Repo, rep: Report):
    rep.rule("R15.3", "a state enters `visited` only together with being retained in the frontier; the digest covers balance, code, storage and sliced constraints")
    m, cf = repo.fn("__main__._compute_frontier")
    post_loops = [l for l in body_walk(cf) if isinstance(l, ast.For) and src(l.iter) == "post_exs"]
    if len(post_loops) != 1:
        raise AnalysisError("_compute_frontier: post-state loop not found")

    def tr(node, state):
        out = []
        if isinstance(node, (ast.FunctionDef, ast.ClassDef)):
            return out
        for c in ast.walk(node):
            if isinstance(c, ast.Call):
                f = dotted(c.func)
                if f == "visited.add":
                    out.append("visited")
                if f == "next_exs.append" and src(c.args[0]) == "post_ex":
                    out.append("retained")
            if isinstance(c, ast.Yield) and c.value is not None and src(c.value) == "post_ex":
                out.append("yielded")
        return out

    o = Flow(tr, calls_raise=False).run(post_loops[0].body)
    ends = set().union(*[o.get(k, set()) for k in ("fall", "continue")])
    ok = bool(ends) and all(("visited" in s) == ("retained" in s) == ("yielded" in s) for s in ends) and any("visited" in s for s in ends)
    rep.check("R15.3", ok, m, post_loops[0], f"{len(ends)} ways through the post-state loop body: visited.add <=> next_exs.append(post_ex) <=> yield post_ex", "a state is marked visited without being retained (its ids can be recycled: a different state would be skipped as `visited`) or retained without being yielded")
    va = [c for c in method_calls(cf, "add") if dotted(c.func) == "visited.add"]
    ok = len(va) == 1 and src(va[0].args[0]) == "post_id" and [src(v) for v in find_assign(cf, "post_id")] == ["get_state_id(post_ex)"]
    rep.check("R15.3", ok, m, va[0] if va else cf, "visited.add(post_id) with post_id = get_state_id(post_ex)", "identity must be the digest of this post-state")
    ps = [c for c in method_calls(cf, "path_slice")]
    ok = len(ps) == 1 and src(ps[0].func.value) == "post_ex" and va and ps[0].lineno < va[0].lineno
    rep.check("R15.3", bool(ok), m, ps[0] if ps else cf, "post_ex.path_slice() before get_state_id(post_ex)", "the digest needs the sliced constraints")
    vis = [src(v) for v in find_assign(cf, "visited")]
    rep.check("R15.3", vis == ["ctx.visited"], m, cf, f"visited = {vis}", "visited set must be the contract context's")
    _, gs_ = repo.fn("__main__.get_state_id")
    rep.check("R15.3", "snapshot_state(ex, include_path=True).unwrap()" in src(gs_), m, gs_, "get_state_id = snapshot_state(ex, include_path=True)", "state identity must include the constraints over state variables")
    mc, ss = repo.fn("cheatcodes.snapshot_state")
    t = src(ss)
    need = {
        "balance": "ex.balance.get_id()",
        "code": "for addr, code in ex.code.items()",
        "code identity": "id(code)",
        "storage": "for addr, storage in ex.storage.items()",
        "storage digest": "storage.digest()",
        "constraints": "for idx, cond in enumerate(ex.path.conditions)",
        "sliced only": "if idx in ex.path.sliced",
        "constraint id": "cond.get_id()",
        "all four parts": "ByteVec(balance_hash + code_hash + storage_hash + path_hash)",
    }
    for k, frag in need.items():
        rep.check("R15.3", frag in t, mc, ss, f"snapshot_state covers {k}: `{frag}`", f"state digest no longer covers {k}: different states would be merged")
    ms, dg = repo.fn("sevm.StorageData.digest")
    t = src(dg)
    ok = "for key, val in self._mapping.items()" in t and "val.get_id()" in t and "m.update(int.to_bytes(key, length=32))" in t
    rep.check("R15.3", ok, ms, dg, "StorageData.digest covers every key and every value id", "storage digest incomplete")
    # ... as one sequence: a single hash state is fed key bytes then value bytes, entry after entry.  Combining
    # separately hashed keys and values (xor/sum of per-part digests) loses which value sits in which slot.
    hashers = [c for c in body_walk(dg) if isinstance(c, ast.Call) and dotted(c.func).startswith("xxhash.")]
    in_loop = [h for h in hashers if any(isinstance(a, (ast.For, ast.While)) for a in ms.ancestors(h))]
    comb = [n for n in body_walk(dg) if (isinstance(n, ast.BinOp) and isinstance(n.op, (ast.BitXor, ast.Add, ast.BitOr))) or (isinstance(n, ast.AugAssign) and isinstance(n.op, (ast.BitXor, ast.Add, ast.BitOr)))]
    hv = [src(v) for v in find_assign(dg, "m")]
    rets = [src(r.value) for r in body_walk(dg) if isinstance(r, ast.Return) and r.value is not None]
    upd = [c for c in method_calls(dg, "update")]
    ok = len(hashers) == 1 and not in_loop and not comb and hv == ["xxhash.xxh3_128()"] and rets == ["m.digest()"] and upd and all(src(c.func.value) == "m" for c in upd)
    rep.check("R15.3", ok, ms, dg, f"StorageData.digest: one hash state ({hv}), {len(upd)} update site(s) on it, returns {rets}; per-entry hashers: {len(in_loop)}, combining operators: {len(comb)}", "keys and values must go through one hash state in sequence: a digest combined from separately hashed parts makes storages that permute values among slots collide, and such a state is dropped as already visited")
    # the dependency relation behind slicing is transitively closed when a condition is appended
    _, pa = repo.fn("sevm.Path.append")
    rel = [s for s in body_walk(pa) if isinstance(s, ast.Assign) and src(s.targets[0]) == "self.related[idx]"]
    ok = len(rel) == 1 and src(rel[0].value) == "self._get_related(var_set)" and [src(v) for v in find_assign(pa, "var_set")] == ["self.get_var_set(cond)"]
    rep.check("R15.3", ok, ms, rel[0] if rel else pa, f"Path.append: {src(rel[0]) if rel else 'self.related[idx] = ?'}", "related[idx] must be the transitive closure computed by _get_related(var_set): with direct neighbours only, slicing misses constraints linked to a state variable through a chain, and distinct states get the same id")
    _, gr = repo.fn("sevm.Path._get_related")
    t = src(gr)
    ok = "result.update(self.related[cond])" in t and "self.var_to_conds[var]" in t
    rep.check("R15.3", ok, ms, gr, "_get_related: union over var_to_conds[var] and the (closed) related sets of those conditions", "closure helper changed")
    # slicing collects variables from balance, code and storage
    _, psl = repo.fn("sevm.Exec.path_slice")
    t = src(psl)
    ok = "self.path.get_var_set(self.balance)" in t and "for _contract in self.code.values()" in t and "for _storage in self.storage.values()" in t and "self.path.slice(var_set)" in t
    rep.check("R15.3", ok, ms, psl, "path_slice: variables of balance, symbolic code and storage", "sliced constraints must cover all state variables")
    # run_contract seeds visited with the setUp state
    mr, rc = repo.fn("__main__.run_contract")
    ok = "ctx.visited.add(get_state_id(setup_ex))" in src(rc) and "setup_ex.path_slice()" in src(rc)
    rep.check("R15.3", ok, mr, rc, "run_contract: setup_ex.path_slice(); ctx.visited.add(get_state_id(setup_ex))", "the initial state must be sliced and marked visited")


def r15_5_symbolic_transaction(repo: Repo, rep: Report):
    rep.rule("R15.5", "target calls use fresh symbolic value/origin/sender; sender constraint only from the filter sets; timestamp only bounded from below")
    m, rtc = repo.fn("__main__.run_target_contract")
    for var, ctor in (("tx_origin", "mk_addr"), ("msg_sender", "mk_addr"), ("msg_value", "BitVec")):
        vals = find_assign(rtc, var)
        ok = len(vals) == 1 and isinstance(vals[0], ast.Call) and call_name(vals[0]) == ctor and isinstance(vals[0].args[0], ast.JoinedStr) and "uid()" in src(vals[0].args[0]) and "ex.new_symbol_id()" in src(vals[0].args[0])
        rep.check("R15.5", ok, m, vals[0] if vals else rtc, f"{var} = {src(vals[0])[:90] if vals else '?'}", f"{var} must be a fresh symbol per target call")
    mv = find_assign(rtc, "msg_value")
    rep.check("R15.5", bool(mv) and src(mv[0].args[1]) == "BitVecSort256", m, mv[0] if mv else rtc, "msg_value is a 256-bit symbol", "msg.value must be an unconstrained 256-bit value (the balance check happens in transfer_value)")
    sc = find_assign(rtc, "msg_sender_cond")
    want = "smt_or([msg_sender == target for target in effective_target_senders]) if effective_target_senders else smt_and([msg_sender != excluded for excluded in excluded_senders]) if excluded_senders else None"
    rep.check("R15.5", len(sc) == 1 and src(sc[0]) == want, m, sc[0] if sc else rtc, f"msg_sender_cond = {src(sc[0])[:120] if sc else '?'}", "sender constraint must be: one of the target senders, else none of the excluded senders, else unconstrained")
    ets = [src(v) for v in find_assign(rtc, "effective_target_senders")]
    rep.check("R15.5", ets == ["inv_ctx.target_senders - excluded_senders"], m, rtc, f"effective_target_senders = {ets}", "excluded senders must be removed from the target senders")
    call = [c for c in body_walk(rtc) if isinstance(c, ast.Call) and call_name(c) == "run_target_function"]
    ok = len(call) == 1 and [src(a) for a in call[0].args] == ["args", "ex", "addr", "abi", "fun_info", "tx_origin", "msg_sender", "msg_value", "msg_sender_cond"]
    rep.check("R15.5", ok, m, call[0] if call else rtc, "run_target_function(args, ex, addr, abi, fun_info, tx_origin, msg_sender, msg_value, msg_sender_cond)", "symbolic transaction fields are passed in the wrong positions")
    _, rtf = repo.fn("__main__.run_target_function")
    msg = [c for c in body_walk(rtf) if isinstance(c, ast.Call) and call_name(c) == "Message"]
    want = {"target": "addr", "caller": "msg_sender", "origin": "tx_origin", "value": "msg_value", "data": "calldata"}
    ok = len(msg) == 1 and all(src(kwarg(msg[0], k)) == v for k, v in want.items())
    rep.check("R15.5", ok, m, msg[0] if msg else rtf, f"Message({', '.join(f'{k}={src(kwarg(msg[0], k))}' for k in want) if msg else '?'})", "the target call's message must use the symbolic sender/origin/value and fresh calldata")
    cd = [s for s in body_walk(rtf) if isinstance(s, ast.Assign) and "calldata" in src(s.targets[0])]
    ok = len(cd) == 1 and "mk_calldata(abi, fun_info, args, new_symbol_id=ex.new_symbol_id)" in src(cd[0].value) and "path.process_dyn_params(dyn_params)" in src(rtf)
    rep.check("R15.5", ok, m, cd[0] if cd else rtf, "calldata, dyn_params = mk_calldata(..., new_symbol_id=ex.new_symbol_id); path.process_dyn_params(dyn_params)", "each target call needs fresh symbolic arguments with its length candidates registered")
    ap = [c for c in method_calls(rtf, "append") if dotted(c.func) == "path.append"]
    ok = len(ap) == 1 and src(ap[0].args[0]) == "msg_sender_cond" and "msg_sender_cond is not None" in guard_set(m, ap[0])
    rep.check("R15.5", ok, m, ap[0] if ap else rtf, "path.append(msg_sender_cond) if given", "only the sender filter may constrain the transaction")
    # timestamp
    _, cf = repo.fn("__main__._compute_frontier")
    ts = [s for s in body_walk(cf) if isinstance(s, ast.Assign) and src(s.targets[0]) == "post_ex.block.timestamp"]
    ok = len(ts) == 1 and src(ts[0].value) == "ZeroExt(192, BitVec(timestamp_name, 64))" and "uid()" in " ".join(src(v) for v in find_assign(cf, "timestamp_name"))
    rep.check("R15.5", ok, m, ts[0] if ts else cf, src(ts[0]) if ts else "post_ex.block.timestamp = ?", "the next transaction's timestamp must be a fresh symbol")
    ap = [c for c in method_calls(cf, "append") if dotted(c.func) == "post_ex.path.append"]
    ok = len(ap) == 1 and src(ap[0].args[0]) == "post_ex.block.timestamp >= pre_ex.block.timestamp"
    rep.check("R15.5", ok, m, ap[0] if ap else cf, src(ap[0]) if ap else "post_ex.path.append(...)", "timestamps must only be constrained to be non-decreasing")


def _eval_sig_pred(repo, e, sig: str):
    """value of a pure predicate over the string `fun_sig` (or-chains, ==, in, startswith/endswith, regex search/match/
    fullmatch with a literal pattern); anything else is an AnalysisError"""
    import re as _re

    def pat(x):
        v = fold_in(repo, "__main__", x)
        if not isinstance(v, str):
            raise AnalysisError(f"reserved-function predicate: pattern {src(x)} is not a literal")
        return v

    def ev(x):
        if isinstance(x, ast.BoolOp):
            vals = [ev(v) for v in x.values]
            return all(vals) if isinstance(x.op, ast.And) else any(vals)
        if isinstance(x, ast.UnaryOp) and isinstance(x.op, ast.Not):
            return not ev(x.operand)
        if isinstance(x, ast.Name) and x.id == "fun_sig":
            return sig
        if isinstance(x, ast.Constant):
            return x.value
        if isinstance(x, (ast.Tuple, ast.List, ast.Set)):
            return [ev(v) for v in x.elts]
        if isinstance(x, ast.Compare) and len(x.ops) == 1:
            a, b = ev(x.left), ev(x.comparators[0])
            op = x.ops[0]
            if isinstance(op, ast.Eq):
                return a == b
            if isinstance(op, ast.NotEq):
                return a != b
            if isinstance(op, ast.In):
                return a in b
            if isinstance(op, ast.NotIn):
                return a not in b
            if isinstance(op, (ast.Is, ast.IsNot)) and b is None:
                return (a is None) == isinstance(op, ast.Is)
        if isinstance(x, ast.Call) and isinstance(x.func, ast.Attribute):
            f = x.func
            if f.attr in ("startswith", "endswith") and len(x.args) == 1:
                recv, arg = ev(f.value), ev(x.args[0])
                arg = tuple(arg) if isinstance(arg, list) else arg
                return getattr(recv, f.attr)(arg)
            if f.attr in ("search", "match", "fullmatch"):
                if isinstance(f.value, ast.Name) and f.value.id == "re" and len(x.args) == 2:
                    return getattr(_re, f.attr)(pat(x.args[0]), ev(x.args[1])) is not None
                if isinstance(f.value, ast.Call) and src(f.value.func) == "re.compile" and len(x.args) == 1:
                    return getattr(_re.compile(pat(f.value.args[0])), f.attr)(ev(x.args[0])) is not None
                if isinstance(f.value, ast.Name) and len(x.args) == 1:
                    mm = repo.mod("__main__")
                    vals = [st.value for st in mm.tree.body if isinstance(st, ast.Assign) and len(st.targets) == 1 and src(st.targets[0]) == f.value.id]
                    if len(vals) == 1 and isinstance(vals[0], ast.Call) and src(vals[0].func) == "re.compile":
                        return getattr(_re.compile(pat(vals[0].args[0])), f.attr)(ev(x.args[0])) is not None
        if isinstance(x, ast.Call) and isinstance(x.func, ast.Name) and x.func.id == "bool" and len(x.args) == 1:
            return bool(ev(x.args[0]))
        raise AnalysisError(f"reserved-function predicate: unsupported shape {src(x)[:60]}")

    return ev(e)


def r15_6_filters_structure(repo: Repo, rep: Report):
    rep.rule("R15.6", "target/exclude filters: structural clauses (excluded removed, targets respected, reserved test functions skipped)")
    m, rc = repo.fn("__main__.resolve_target_contracts")
    t = src(rc)
    need = [
        "resolved_target_contracts = target_contracts if target_contracts else ex.code.keys()",
        "resolved_target_contracts -= ctx.excluded_contracts",
        "resolved_target_contracts |= target_selectors.keys()",
    ]
    for x in need:
        rep.check("R15.6", x in t, m, rc, x, "target-contract resolution lost a clause")
    pos = [t.find(x) for x in need]
    rep.check("R15.6", all(p >= 0 for p in pos) and pos == sorted(pos), m, rc, "order: targets-or-all, then minus excluded contracts, then plus contracts named by targetSelector", "Foundry keeps a contract that is excluded but named by a targetSelector: the exclusion must be applied before the targetSelector contracts are added")
    rs = [r for r in body_walk(rc) if isinstance(r, ast.Raise)]
    rep.check("R15.6", len(rs) == 1 and "not (resolved_target_contracts)" in guard_set(m, rs[0]), m, rs[0] if rs else rc, "no target contracts -> HalmosException", "an empty target set must be an error, not a vacuous PASS")
    _, rsel = repo.fn("__main__.resolve_target_selectors")
    t = src(rsel)
    frags = [
        "if (target_selectors := ctx.target_selectors.get(addr)):",
        "if bytes.fromhex(fun_selector) in target_selectors:",
        "elif (excluded_selectors := ctx.excluded_selectors.get(addr)):",
        "if bytes.fromhex(fun_selector) not in excluded_selectors:",
    ]
    for x in frags:
        rep.check("R15.6", x in t, m, rsel, x, "target-selector resolution lost a clause")
    # the reserved-function clause, evaluated on sample signatures (constant folding of a pure predicate over one string)
    clauses = [i for i in body_walk(rsel) if isinstance(i, ast.If) and any(isinstance(x, ast.Continue) for x in i.body) and "fun_sig" in src(i.test) and "is_test_contract" in src(i.test)]
    if len(clauses) != 1:
        raise AnalysisError("resolve_target_selectors: reserved-function clause not found")
    test = clauses[0].test
    parts = test.values if isinstance(test, ast.BoolOp) and isinstance(test.op, ast.And) else [test]
    pred = [p_ for p_ in parts if src(p_) != "is_test_contract"]
    if len(pred) != len(parts) - 1 or not pred:
        raise AnalysisError("resolve_target_selectors: reserved-function clause is not `is_test_contract and <predicate>`")
    pred = pred[0] if len(pred) == 1 else ast.BoolOp(op=ast.And(), values=pred)
    reserved = ["test_a()", "check_b(uint256)", "prove_c()", "invariant_d()", "setUp()", "afterInvariant()", "test_()"]
    handlers = ["handler_check_in()", "mint_test_tokens()", "resetUp()", "do_invariant_break()", "approve_all()", "setUp(uint256)", "afterInvariant(bool)", "Test_x()", "deposit(uint256)", "xtest_y()"]
    wrong = [x for x in reserved if _eval_sig_pred(repo, pred, x) is not True] + [x for x in handlers if _eval_sig_pred(repo, pred, x) is not False]
    rep.check("R15.6", not wrong, m, clauses[0], f"reserved-function predicate `{src(pred)[:90]}` on {len(reserved)} reserved and {len(handlers)} ordinary signatures", f"misclassified: {wrong} - an ordinary handler of the test contract is dropped from the targets (or a test function becomes a target)")
    ys = [y for y in body_walk(rsel) if isinstance(y, ast.Yield)]
    rep.check("R15.6", len(ys) == 3 and all(src(y.value) == "(fun_sig, fun_selector)" for y in ys), m, rsel, f"{len(ys)} yield sites of (fun_sig, fun_selector)", "each branch must yield the selected functions")
    # get_* read the Foundry getters with hash-verified selectors
    from hsa.keccak import selector

    for q, sig in (
        ("__main__.get_target_senders", "targetSenders()"),
        ("__main__.get_excluded_senders", "excludeSenders()"),
        ("__main__.get_target_contracts", "targetContracts()"),
        ("__main__.get_excluded_contracts", "excludeContracts()"),
        ("__main__.get_target_selectors", "targetSelectors()"),
        ("__main__.get_excluded_selectors", "excludeSelectors()"),
    ):
        mm, fn = repo.fn(q)
        sel = [v.value for v in find_assign(fn, "selector") if isinstance(v, ast.Constant)]
        fnm = [v.value for v in find_assign(fn, "funname") if isinstance(v, ast.Constant)]
        ok = sel == [f"{selector(sig):08x}"] and fnm == [sig[:-2]]
        rep.check("R15.6", ok, mm, fn, f"{q}: selector {sel} for {sig}", f"selector must be keccak4('{sig}') = {selector(sig):08x}")
    _, ic = repo.fn("__main__.get_invariant_testing_context")
    pairs = {"target_senders": "get_target_senders", "target_contracts": "get_target_contracts", "target_selectors": "get_target_selectors", "excluded_senders": "get_excluded_senders", "excluded_contracts": "get_excluded_contracts", "excluded_selectors": "get_excluded_selectors"}
    c = [x for x in body_walk(ic) if isinstance(x, ast.Call) and call_name(x) == "InvariantTestingContext"]
    if len(c) != 1:
        raise AnalysisError("get_invariant_testing_context: InvariantTestingContext(...) construction not found")
    for k, v in pairs.items():
        a = kwarg(c[0], k)
        ok = a is not None and isinstance(a, ast.Call) and call_name(a) == v and [src(x) for x in a.args] == ["ctx", "setup_ex"]
        rep.check("R15.6", ok, m, a if a is not None else c[0], f"InvariantTestingContext({k}={src(a) if a is not None else '<absent>'})", f"the filter set `{k}` must be exactly what {v}(ctx, setup_ex) returns: a set pre-filled here (e.g. with the contracts deployed by setUp) stops resolve_target_contracts from using the contracts of the *current* state, so contracts created during the run are never called")


def r15_9_selector_decoding(repo: Repo, rep: Report):
    rep.rule("R15.9", "targetSelector/excludeSelector entries accumulate per contract (several FuzzSelector entries may name the same contract)")
    m, fn = repo.fn("__main__.abi_decode_FuzzSelector_array")
    stores = [n for n in body_walk(fn) if isinstance(n, ast.Subscript) and isinstance(n.ctx, ast.Store) and src(n.value) == "result"]
    for n in stores:
        st = m.parents.get(n)
        v = getattr(st, "value", None)
        ok = isinstance(st, ast.AugAssign) or (v is not None and ("result[" in src(v) or "result.get(" in src(v)))
        rep.check("R15.9", ok, m, st, src(st)[:100], "an entry for a contract that already has selectors replaces them: functions selected by earlier entries are never called")
    acc = [c for c in body_walk(fn) if isinstance(c, ast.Call) and last_attr(c) in ("extend", "append") and src(c.func.value).startswith("result[")]
    res = [src(v) for v in find_assign(fn, "result")]
    ok = (bool(acc) and res == ["defaultdict(list)"]) or any(isinstance(m.parents.get(n), ast.AugAssign) for n in stores) or bool(acc and any("setdefault" in r or "defaultdict" in r for r in res))
    rep.check("R15.9", ok, m, fn, f"result = {res}; accumulating writes: {[src(c)[:60] for c in acc]}", "selectors of one contract must be accumulated over all entries")
    rets = [src(r.value) for r in body_walk(fn) if isinstance(r, ast.Return) and r.value is not None]
    rep.check("R15.9", rets == ["result"], m, fn, f"returns {rets}", "decoder must return the accumulated mapping")


def r15_10_probe_marking(repo: Repo, rep: Report):
    rep.rule("R15.10", "an assertion probe is marked as reported (and skipped from then on) only when the solver returned a model for it")
    sites = []
    for mm in repo.modules.values():
        for n in ast.walk(mm.tree):
            if isinstance(n, ast.Call) and isinstance(n.func, ast.Attribute) and n.func.attr in ("add", "update", "__ior__") and src(n.func.value).endswith("probes_reported"):
                sites.append((mm, n))
            elif isinstance(n, (ast.Assign, ast.AugAssign)):
                tgts = n.targets if isinstance(n, ast.Assign) else [n.target]
                if any(isinstance(t, ast.Attribute) and t.attr == "probes_reported" for t in tgts):
                    sites.append((mm, n))
    if not sites:
        raise AnalysisError("R15.10: no writer of probes_reported found")
    # the set's elements identify a function of a contract: equality / hash of FunctionInfo covers every field
    mcd, fi = repo.cls("calldata.FunctionInfo")
    fields = [st for st in fi.body if isinstance(st, ast.AnnAssign) and isinstance(st.target, ast.Name)]
    names = [st.target.id for st in fields]
    weakened = [st.target.id for st in fields if isinstance(st.value, ast.Call) and call_name(st.value) == "field" and any(k.arg in ("compare", "hash") and isinstance(k.value, ast.Constant) and k.value.value is False for k in st.value.keywords)]
    deco = [src(d) for d in fi.decorator_list]
    custom = [st.name for st in fi.body if isinstance(st, ast.FunctionDef) and st.name in ("__eq__", "__hash__")]
    ok = {"contract_name", "name", "sig", "selector"} <= set(names) and not weakened and not custom and any(d.startswith("dataclass(") and "frozen=True" in d and "eq=False" not in d for d in deco)
    rep.check("R15.10", ok, mcd, fi, f"FunctionInfo{deco}: fields {names}, excluded from comparison: {weakened}, custom: {custom}", "two functions with the same signature in different contracts compare equal: once a violation in A.f is reported, B.f counts as already reported and its assertion-failing paths are dropped unchecked")
    need = {"model is not None", "result != unsat", "result != unknown", "result != 'err'"}
    for mm, n in sites:
        gs = guard_set(mm, n)
        where = mm.qual(n)
        ok = where.endswith("CounterexampleHandler._solve_end_to_end_callback") and (need <= gs or {"model is not None", "result == sat"} <= gs)
        rep.check("R15.10", ok, mm, n, f"{where}: {src(n)[:80]} under {sorted(gs & need)}", "the probe is marked before (or without) a model: a first potential violation that the solver refutes, or that times out, suppresses every later check of that assertion along longer call sequences")


def r15_4_probe_results_reach_a_verdict(repo: Repo, rep: Report):
    rep.rule("R15.4", "counterexamples recorded by a CounterexampleHandler flow into a test result")
    m = repo.mod("__main__")
    n = 0
    for q, fn in repo.functions("__main__"):
        for c in body_walk(fn):
            if not (isinstance(c, ast.Call) and call_name(c) == "CounterexampleHandler"):
                continue
            n += 1
            cx = kwarg(c, "ctx")
            name = src(cx)
            # the context's results must be read in this function (verdict) or be the caller-provided test context
            is_param = name in {a.arg for a in fn.args.args}
            readers = [a for a in body_walk(fn) if isinstance(a, ast.Attribute) and a.attr in ("solver_outputs", "valid_counterexamples", "invalid_counterexamples") and src(a.value) == name and isinstance(a.ctx, ast.Load)]
            local_ctor = [v for v in find_assign(fn, name) if isinstance(v, ast.Call) and call_name(v) == "FunctionContext"]
            ok = bool(readers) and (is_param or not local_ctor) or (bool(readers) and bool(local_ctor))
            rep.check("R15.4", ok, m, c, f"__main__.{q}: CounterexampleHandler(ctx={name}) - results read here: {len(readers)}", "the handler records solver outputs / counterexamples in a context that nothing reads: an assertion failure found in a target call is printed but cannot make any test FAIL")
    if n < 2:
        raise AnalysisError(f"R15.4: only {n} CounterexampleHandler constructions found")
    # the failing target states are handed to that handler
    _, cf = repo.fn("__main__._compute_frontier")
    calls = [c for c in body_walk(cf) if isinstance(c, ast.Call) and last_attr(c) == "handle_assertion_violation"]
    ok = len(calls) == 1 and src(kwarg(calls[0], "ex")) == "post_ex" and "subcall.output.error" in guard_set(m, calls[0])
    rep.check("R15.4", ok, m, calls[0] if calls else cf, "failing target states are submitted: handler.handle_assertion_violation(ex=post_ex, ...)", "assertion failures inside targets are not even checked")


def r15_8_partial_frontier(repo: Repo, rep: Report):
    from hsa.rules.c10 import r10_4_cache_published_before_complete

    rep.rule("R10.4", "frontier cache published only when complete (shared with C10)")
    r10_4_cache_published_before_complete(repo, rep)


def r15_11_inherited_constraints(repo: Repo, rep: Report):
    """round 7: a state of the frontier at depth d carries the constraints of its d transactions into depth d+1
    through Path.extend_path - the conditions list, the dependency index and the sliced view stay consistent
    (shared with C11 R11.2); losing an inherited constraint merges or mis-extends call sequences"""
    from hsa.rules.c11 import r11_2_constraint_ownership

    r11_2_constraint_ownership(repo, rep)


def r15_7_loop_logs(repo: Repo, rep: Report):
    rep.rule("R10.2", "loop logs of invariant target calls are reported (shared with C10)")
    r10_2_loop_logs_reported(repo, rep)
    # a post-state is dropped from the frontier only when proved infeasible (shared with C02 R02.1)
    from hsa.rules.verdicts import check_verdict_sites

    rep.rule("R02.1", "invariant testing keeps a state unless the solver says unsat (shared with C02)")
    check_verdict_sites(repo, rep, "R02.1", modules=("__main__",))


RULES = [r15_10_probe_marking, r15_9_selector_decoding, r15_1_depth_indexing, r15_2_loop_completeness, r15_3_identity_retention, r15_4_probe_results_reach_a_verdict, r15_5_symbolic_transaction, r15_6_filters_structure, r15_7_loop_logs, r15_8_partial_frontier, r15_11_inherited_constraints]
