"""C04 — counterexamples marked valid are reproducible (validity label + refinement wiring + model parsing)."""

from __future__ import annotations

import ast
import re

from hsa.core import find_assign, AnalysisError, Repo, Report, body_walk, call_name, dotted, kwarg, last_attr, src
from hsa.fold import UNKNOWN, fold_in
from hsa.rules.abstractions import (
    DIV_FAMILY,
    EVM_METHOD,
    EVM_SMT,
    NEVER_REFINED,
    declaration_text,
    declared_abstractions,
    expected_definition,
    refine_regexes,
    sexpr,
)
from hsa.rules.common import guard_set, method_calls

EXPLANATION = (
    "Decides that the valid/invalid label and the refinement rewrite are wired to exactly the abstraction "
    "symbols the engine emits: the literal searched by is_model_valid prefixes the name of every f_evm_* "
    "function that can flow into an abstraction= keyword; applying refine's own regex literals to the "
    "declaration of every declared abstraction yields, as an S-expression, the exact EVM definition "
    "(div/rem by zero = 0; the SMT-LIB operator demanded by the opcode that uses the symbol) and leaves only "
    "the never-refined `exp` untouched (it stays labelled invalid); each model value syntax accepted by the "
    "model regex is parsed with the right radix; valid/invalid lists and the refinement condition follow "
    "model.is_valid. It does not replay models on an EVM."
    ' Also evaluated here: the dump writer/reader rules of C11 (a model is only as good as the query it satisfies, including refined queries under --cache-solver), and that the value reported for an input is exactly the parsed solver value.'
    ' Round 4: a solver result that arrives during an early-exit shutdown is discarded before it is read (R04.6); serialisation completeness (C11 R11.1) is evaluated here too.'
    ' Round 5: fork-copy completeness (C20 R20.1) and the word-semantics rules of C06 are evaluated here too (a term built wrongly gives a model that is labelled valid and does not replay).'
    ' Round 7: each rewrite of refine() is global, no count limit (R04.2).'
)
ASSUMPTIONS = [
    "solvers do not echo define-fun'd symbols in get-model output (so refined symbols vanish from a refined model)",
    "z3's to_smt2 prints declarations as `(declare-fun NAME ((_ BitVec N) (_ BitVec N)) (_ BitVec N))`",
]


def r04_1_prefix_agreement(repo: Repo, rep: Report):
    rep.rule("R04.1", "is_model_valid's literal is a prefix of every abstraction symbol name that can be emitted")
    m, fn = repo.fn("solve.is_model_valid")
    rets = [r for r in body_walk(fn) if isinstance(r, ast.Return)]
    lit = None
    val = rets[0].value if len(rets) == 1 else None
    # `not <local>` / `<local>` with the local bound once to the membership test reads as the test itself
    neg = False
    for _ in range(3):
        if isinstance(val, ast.UnaryOp) and isinstance(val.op, ast.Not):
            neg, val = not neg, val.operand
        elif isinstance(val, ast.Name) and len(find_assign(fn, val.id)) == 1:
            val = find_assign(fn, val.id)[0]
    if isinstance(val, ast.Compare) and len(val.ops) == 1 and isinstance(val.ops[0], (ast.NotIn, ast.In)) and isinstance(val.ops[0], ast.In) == neg:
        lit = fold_in(repo, "solve", val.left)
        ok = isinstance(lit, str) and src(val.comparators[0]) == "solver_stdout"
    else:
        ok = False
    rep.check("R04.1", ok, m, fn, f"is_model_valid: {src(rets[0]) if rets else '?'}", "is_model_valid must be `<literal> not in solver_stdout`")
    if not isinstance(lit, str):
        return
    decls = declared_abstractions(repo)
    ms = repo.mod("sevm")
    for sym, d in sorted(decls.items()):
        rep.check("R04.1", d["name"].startswith(lit) and len(lit) >= 5, ms, d["node"], f"{sym} = Function({d['name']!r}, ...)", f"abstraction name does not start with {lit!r}: a model using it would be labelled valid")
    # every abstraction keyword argument refers to one of those symbols
    n = 0
    vars_ = {d["var"] for d in decls.values()}
    for q, f in repo.functions("sevm"):
        for c in body_walk(f):
            if not isinstance(c, ast.Call):
                continue
            for k in c.keywords:
                if k.arg and k.arg.endswith("abstraction"):
                    n += 1
                    base = k.value.value if isinstance(k.value, ast.Subscript) else k.value
                    ok = isinstance(base, ast.Name) and base.id in vars_
                    rep.check("R04.1", ok, ms, c, f"{k.arg}={src(k.value)}", "abstraction symbol is not one of the declared f_evm_* functions")
    if n < 8:
        raise AnalysisError(f"R04.1: only {n} abstraction keyword arguments found")
    # z3 Function(...) symbols created elsewhere with an f_evm-like role would escape the label
    for modname in ("sevm", "bitvec", "cheatcodes", "utils"):
        mm = repo.mod(modname)
        for c in ast.walk(mm.tree):
            if isinstance(c, ast.Call) and call_name(c) == "Function" and c.args:
                nm = fold_in(repo, modname, c.args[0])
                if isinstance(nm, str) and ("evm" in nm or re.search(r"bv(u|s)?(div|rem|mul|mod)", nm)) and not nm.startswith(lit):
                    rep.bad("R04.1", mm, c, src(c)[:100], "arithmetic abstraction whose name escapes the validity label")


def _norm(def_):
    """alpha-rename bound variables, order the operands of `=`, accept the negated-test ite"""
    if not (isinstance(def_, list) and len(def_) == 5 and def_[0] == "define-fun"):
        return def_
    params = def_[2]
    ren = {p[0]: f"v{i}" for i, p in enumerate(params)}

    def sub(t):
        if isinstance(t, list):
            t = [sub(x) for x in t]
            if t and t[0] == "=" and len(t) == 3:
                t = ["="] + sorted(t[1:], key=str)
            if t and t[0] == "ite" and len(t) == 4 and isinstance(t[1], list) and t[1][:1] == ["not"]:
                t = ["ite", t[1][1], t[3], t[2]]
            return t
        return ren.get(t, t)

    return ["define-fun", def_[1], [[ren[p[0]], sub(p[1])] for p in params], sub(def_[3]), sub(def_[4])]


def r04_2_refine_exact(repo: Repo, rep: Report):
    rep.rule("R04.2", "refine(): every declared abstraction is rewritten to its exact EVM definition (exp never); opcode->method->symbol->SMT op chain agrees")
    m, fn, subs = refine_regexes(repo)
    decls = declared_abstractions(repo)
    ms = repo.mod("sevm")
    for sym, d in sorted(decls.items()):
        name, op, width = d["name"], d["op"], d["width"]
        if op is None:
            rep.bad("R04.2", ms, d["node"], f"{sym}: {name}", "abstraction name does not follow f_evm_<op>_<width>")
            continue
        ok_sorts = d["sorts"] == [width, width, width]
        rep.check("R04.2", ok_sorts, ms, d["node"], f"{name}: sorts {d['sorts']}", "declared sorts must match the width in the symbol name")
        text = declaration_text(name, width)
        out = text
        for p, r, _ in subs:
            try:
                out = re.sub(p, r, out)
            except re.error as e:
                raise AnalysisError(f"refine: regex does not compile: {e}")
        if op in NEVER_REFINED:
            rep.check("R04.2", out == text, m, fn, f"{name}: left uninterpreted by refine (stays labelled invalid)", "exp is not expected to be refined")
            continue
        try:
            got = sexpr(out)
        except Exception:
            rep.bad("R04.2", m, fn, f"{name} -> {out[:120]}", "refined text is not a well-formed S-expression")
            continue
        exp = expected_definition(name, op, width)
        ok = len(got) == 1 and exp is not None and _norm(got[0]) == _norm(exp)
        rep.check("R04.2", ok, m, fn, f"{name} -> {out[:150]}", f"refinement of {name} is not the exact EVM definition {exp}")
    # round 7: each rewrite is global - a query declares several abstractions of one family (DIV and MOD, 256 and 512
    # bits), so a `count` limit leaves all but the first uninterpreted while the query is labelled refined
    for _, _, c in subs:
        cnt = [k.value for k in c.keywords if k.arg == "count"] + list(c.args[3:4])
        ok = not cnt or (isinstance(cnt[0], ast.Constant) and cnt[0].value == 0)
        rep.check("R04.2", ok, m, c, f"re.sub(.., smtlib{', count=' + src(cnt[0]) if cnt else ''})", "every declaration matched by the pattern must be rewritten (no count limit)")
    # a second declaration in the same query is rewritten too (re.sub is global) and unrelated text is untouched
    probe = "(declare-fun f_evm_bvudiv_256 ((_ BitVec 256) (_ BitVec 256)) (_ BitVec 256))\n(declare-fun p_x_uint256 () (_ BitVec 256))\n(assert (= (f_evm_bvudiv_256 p_x_uint256 p_x_uint256) p_x_uint256))"
    out = probe
    for p, r, _ in subs:
        out = re.sub(p, r, out)
    ok = "(declare-fun p_x_uint256 () (_ BitVec 256))" in out and "(assert (= (f_evm_bvudiv_256 p_x_uint256 p_x_uint256) p_x_uint256))" in out
    rep.check("R04.2", ok, m, fn, "refine leaves user symbols and assertions untouched", "refine rewrites text other than abstraction declarations")
    rets = [r for r in body_walk(fn) if isinstance(r, ast.Return)]
    ok = len(rets) == 1 and src(rets[0].value) == "SMTQuery(smtlib, query.assertions)"
    rep.check("R04.2", ok, m, rets[0] if rets else fn, src(rets[0]) if rets else "return ?", "refine must keep the assertion ids and return the rewritten text")
    # chain: opcode -> HalmosBitVec method -> abstraction symbol -> SMT-LIB operator
    ma, ar = repo.fn("sevm.SEVM.arith")
    seen = set()
    for i in [i for i in ar.body if isinstance(i, ast.If)]:
        t = i.test
        if not (isinstance(t, ast.Compare) and src(t.left) == "op" and isinstance(t.ops[0], ast.Eq)):
            continue
        opname = src(t.comparators[0])
        if not opname.startswith("OP_"):
            continue
        opn = opname[3:]
        seen.add(opn)
        calls = [c for s in i.body for c in ast.walk(s) if isinstance(c, ast.Call) and isinstance(c.func, ast.Attribute) and src(c.func.value) == "w1"]
        meths = [c.func.attr for c in calls if c.func.attr in EVM_METHOD.values()]
        ok = meths == [EVM_METHOD.get(opn)] and all(len(c.args) >= 1 and src(c.args[0]) == "w2" for c in calls if c.func.attr in EVM_METHOD.values())
        rep.check("R04.2", ok, ma, i, f"op == {opname}: w1.{meths}(w2, ...)", f"{opn} must be computed by w1.{EVM_METHOD.get(opn)}(w2)")
        for c in calls:
            for k in c.keywords:
                if k.arg in ("abstraction", "exp_abstraction"):
                    base = k.value.value if isinstance(k.value, ast.Subscript) else k.value
                    cands = [d for s, d in decls.items() if d["var"] == src(base)]
                    ops = {d["op"] for d in cands}
                    ok = ops == {EVM_SMT.get(opn)}
                    rep.check("R04.2", ok, ma, c, f"{opn}: {k.arg}={src(k.value)} -> {sorted(str(o) for o in ops)}", f"{opn} must be abstracted by the symbol refined to {EVM_SMT.get(opn)}")
    missing = set(EVM_METHOD) - seen
    rep.check("R04.2", not missing, ma, ar, f"arith covers {sorted(seen)}", f"arith has no branch for {sorted(missing)}")
    # ADDMOD/MULMOD use the remainder/multiplication symbols of the widened size
    _, run = repo.fn("sevm.SEVM.run")
    for c in body_walk(run):
        if isinstance(c, ast.Call) and last_attr(c) in ("addmod", "mulmod"):
            for k in c.keywords:
                base = k.value.value if isinstance(k.value, ast.Subscript) else k.value
                want = "bvmul" if k.arg == "mul_abstraction" else "bvurem"
                ops = {d["op"] for s, d in decls.items() if d["var"] == src(base)}
                rep.check("R04.2", ops == {want}, ma, c, f"{last_attr(c)}: {k.arg}={src(k.value)} -> {sorted(ops)}", f"{k.arg} must be a {want} abstraction")


def r04_3_model_syntaxes(repo: Repo, rep: Report):
    rep.rule("R04.3", "every model value syntax accepted by halmos_var_pattern is parsed with the right radix")
    m = repo.mod("solve")
    pat = None
    for st in m.tree.body:
        if isinstance(st, ast.Assign) and src(st.targets[0]) == "halmos_var_pattern" and isinstance(st.value, ast.Call):
            pat = fold_in(repo, "solve", st.value.args[0])
            flags = [src(a) for a in st.value.args[1:]]
            patnode = st
    if not isinstance(pat, str):
        raise AnalysisError("halmos_var_pattern literal not found")
    try:
        rx = re.compile(pat, re.VERBOSE if "re.VERBOSE" in flags else 0)
    except re.error as e:
        raise AnalysisError(f"halmos_var_pattern does not compile: {e}")
    samples = {
        "#b": ("(define-fun halmos_x_uint8_01 () (_ BitVec 8) #b00101010)", "#b00101010", 42),
        "#x": ("(define-fun p_y_uint256_02 () (_ BitVec 256) #x2A)", "#x2A", 42),
        "(_ bv": ("(define-fun |halmos_z_uint256_03| () (_ BitVec 256) (_ bv42 256))", "(_ bv42 256)", 42),
    }
    _, pcv = repo.fn("solve.parse_const_value")
    arms = {}
    for mt in [s for s in body_walk(pcv) if isinstance(s, ast.Match)]:
        for c in mt.cases:
            arms[src(c.pattern)] = c
    for key, (line, val, want) in samples.items():
        mm = rx.search(line)
        ok = mm is not None and mm.group(4) == val and mm.group(1) in ("halmos_x_uint8_01", "p_y_uint256_02", "halmos_z_uint256_03")
        rep.check("R04.3", ok, m, patnode, f"halmos_var_pattern matches {line!r} -> value {mm.group(4) if mm else None!r}", "model regex no longer captures this value syntax / variable name")
        # the arm of parse_const_value that receives this value
        head = val[:2]
        if head == "#b":
            c = arms.get("'#b'")
            ok = c is not None and any(src(r.value) == "int(value[2:], 2)" for r in ast.walk(c) if isinstance(r, ast.Return))
        elif head == "#x":
            c = arms.get("'#x'")
            ok = c is not None and any(src(r.value) == "int(value[2:], 16)" for r in ast.walk(c) if isinstance(r, ast.Return))
        else:
            c = arms.get("_")
            t = src(c) if c is not None else ""
            ok = c is not None and "value.split()" in t and "token.startswith('bv')" in t and "int(token[2:])" in t
        rep.check("R04.3", bool(ok), m, c or pcv, f"parse_const_value arm for {key!r} values", f"value syntax {key!r} is not parsed with the right radix")
    # names the engine generates for nested parameters (calldata.encode: a[0], s.x, s.arr[1].y) must be captured too
    for nm in ("p_a[0]_uint256_043cfd7_01", "p_s.x_uint256_043cfd7_02", "p_s.arr[1].y_bytes32_043cfd7_03", "p_b_length_043cfd7_04", "halmos_my-var_uint256_043cfd7_05"):
        line = f"(define-fun |{nm}| () (_ BitVec 256) #x01)"
        mm = rx.search(line)
        ok = mm is not None and mm.group(1) == nm and mm.group(4) == "#x01"
        rep.check("R04.3", ok, m, patnode, f"halmos_var_pattern captures {nm!r}", "a symbol name the engine generates (array element / struct field parameter) is not captured: the printed counterexample silently omits that input")
    ms = [s for s in body_walk(pcv) if isinstance(s, ast.Match)]
    ok = len(ms) == 1 and src(ms[0].subject) == "value[:2]"
    rep.check("R04.3", ok, m, ms[0] if ms else pcv, f"match {src(ms[0].subject) if ms else '?'}", "dispatch must be on the two-character prefix")
    last = pcv.body[-1]
    rep.check("R04.3", isinstance(last, ast.Raise), m, last, "unknown value format -> raise", "an unparsable value must raise, not default")
    # value flows unchanged into the printed model
    _, pm = repo.fn("solve._parse_halmos_var_match")
    t = src(pm)
    ok = "value = parse_const_value(match.group(4))" in t and "value=value" in t and "full_name = match.group(1).strip()" in t
    rep.check("R04.3", ok, m, pm, "_parse_halmos_var_match: value = parse_const_value(group 4); name = group 1", "model variable must carry the parsed solver value")
    # ... and nothing rewrites it on the way: the value given to ModelVariable has exactly one binding, the parsed one
    from hsa.origin import _bindings, origin_text

    mv = [c for c in body_walk(pm) if isinstance(c, ast.Call) and call_name(c) == "ModelVariable"]
    for c in mv:
        v = kwarg(c, "value")
        if v is None:
            continue
        names = [n.id for n in ast.walk(v) if isinstance(n, ast.Name)]
        binds = {n: _bindings(pm).get(n, []) for n in names}
        rebinding = {n: [k for k, _ in b] for n, b in binds.items() if len(b) != 1 or b[0][0] != "assign"}
        ot = origin_text(m, pm, v).replace("$", "")
        ok = not rebinding and ot == "parse_const_value(match.group(4))"
        rep.check("R04.3", ok, m, c, f"ModelVariable(value={ot[:80]}) rebinding: {rebinding}", "the value reported for an input is exactly the solver's (no masking, truncation or re-interpretation): a counterexample must replay with the printed words")
    _, st_ = repo.fn("solve.PotentialModel.__str__")
    ok = "hexify(v.value)" in src(st_) and "v.full_name" in src(st_)
    rep.check("R04.3", ok, m, st_, "PotentialModel.__str__ prints full_name = hexify(value)", "printed counterexample must show the solver's value")


def r04_4_list_discipline(repo: Repo, rep: Report):
    rep.rule("R04.4", "valid list only under model.is_valid; invalid -> warning; refinement iff sat and not valid and not refined")
    m, cb = repo.fn("__main__.CounterexampleHandler._solve_end_to_end_callback")
    v = [c for c in method_calls(cb, "append") if "valid_counterexamples" in dotted(c.func) and "invalid" not in dotted(c.func)]
    iv = [c for c in method_calls(cb, "append") if "invalid_counterexamples" in dotted(c.func)]
    ok = len(v) == 1 and "model.is_valid" in guard_set(m, v[0]) and src(v[0].args[0]) == "model"
    rep.check("R04.4", ok, m, v[0] if v else cb, f"valid_counterexamples.append(model) under {sorted(guard_set(m, v[0])) if v else '?'}", "a model may be listed as valid only if model.is_valid")
    ok = len(iv) == 1 and "not (model.is_valid)" in guard_set(m, iv[0])
    rep.check("R04.4", ok, m, iv[0] if iv else cb, "invalid_counterexamples.append(model) under not model.is_valid", "potentially invalid models must be listed separately")
    w = [c for c in method_calls(cb, "warn_code") if c.args and src(c.args[0]) == "COUNTEREXAMPLE_INVALID"]
    ok = len(w) == 1 and "not (model.is_valid)" in guard_set(m, w[0])
    rep.check("R04.4", ok, m, w[0] if w else cb, "warn_code(COUNTEREXAMPLE_INVALID, ...)", "an abstract model must be reported as potentially invalid")
    # all writes to valid_counterexamples anywhere
    for modname in ("__main__", "solve"):
        mm = repo.mod(modname)
        for c in ast.walk(mm.tree):
            if isinstance(c, ast.Call) and last_attr(c) in ("append", "extend", "insert") and "valid_counterexamples" in dotted(c.func) and "invalid" not in dotted(c.func):
                rep.check("R04.4", mm.qual(c) == "__main__.CounterexampleHandler._solve_end_to_end_callback", mm, c, src(c), "valid_counterexamples is written outside the callback")
    ms, fr = repo.fn("solve.SolverOutput.from_result")
    t = src(fr)
    ok = "is_valid = is_model_valid(stdout)" in t and "PotentialModel(model=parse_model_str(stdout), is_valid=is_valid)" in t
    rep.check("R04.4", ok, ms, fr, "from_result: is_valid = is_model_valid(stdout); model parsed from the same stdout", "validity label must be computed from the solver output that produced the model")
    _, se = repo.fn("solve.solve_end_to_end")
    conds = [i for i in body_walk(se) if isinstance(i, ast.If) and "is_refined" in src(i.test)]
    ok = len(conds) == 1 and src(conds[0].test) == "result == sat and (not model.is_valid) and (not ctx.is_refined)"
    rep.check("R04.4", ok, ms, conds[0] if conds else se, f"if {src(conds[0].test) if conds else '?'}", "refinement must be attempted iff sat and the model is not valid and the context is not yet refined")
    rr = [r for r in body_walk(se) if isinstance(r, ast.Return) and src(r.value) == "solve_low_level(refined_ctx)"]
    ok = len(rr) == 1 and "refined_ctx.query.smtlib != query.smtlib" in guard_set(ms, rr[0])
    rep.check("R04.4", ok, ms, rr[0] if rr else se, "return solve_low_level(refined_ctx) when the query changed", "the refined query's answer must replace the abstract one")
    _, rf = repo.fn("solve.PathContext.refine")
    t = src(rf)
    ok = "query=refine(self.query)" in t and "is_refined=True" in t and "path_id=self.path_id" in t
    rep.check("R04.4", ok, ms, rf, "PathContext.refine: query=refine(self.query), is_refined=True", "refined context must carry the refined query and the flag")


def r04_6_results_during_shutdown(repo: Repo, rep: Report):
    rep.rule("R04.6", "a solver result that arrives while the executor is shutting down (early exit) is discarded, not parsed")
    m, fn = repo.fn("__main__.CounterexampleHandler._get_solver_output")
    reads = [c for c in body_walk(fn) if isinstance(c, ast.Call) and src(c.func) == "future.result"]
    if not reads:
        raise AnalysisError("_get_solver_output: future.result() not found")
    for c in reads:
        gs = {g.replace(" ", "") for g in guard_set(m, c)}
        ok = any(g in gs for g in ("not(self.ctx.solving_ctx.executor.is_shutdown())", "notself.ctx.solving_ctx.executor.is_shutdown()"))
        rep.check("R04.6", ok, m, c, f"future.result() under {sorted(gs)}", "the output of a solver killed in the middle of printing (`sat` plus a truncated model, no abstraction symbol seen yet) is parsed and reported as a valid counterexample with missing or wrong values")


def r04_5_shared(repo: Repo, rep: Report):
    """a model is only as good as the query it satisfies: the dumped (and the refined) query must carry the path's
    constraints, including the named assertions under --cache-solver (shared with C11)"""
    from hsa.rules.c11 import r11_3_dump_writer_reader

    r11_3_dump_writer_reader(repo, rep)
    # ... and the query must be the path's whole condition set: a model of a query that leaves constraints out (of an
    # earlier transaction, of setUp) does not replay
    from hsa.rules.c11 import r11_1_serialisation

    rep.rule("R11.1", "serialisation is complete, ids are term ids (shared with C11)")
    r11_1_serialisation(repo, rep)
    # a model is valid only for the terms the engine built: a value another path learnt and this path substituted
    # (C20 R20.1), or a word operation built with the wrong operator / an unreviewed fast path (C06), gives a model
    # that is labelled valid and does not replay
    from hsa.rules import c06
    from hsa.rules.c20 import r20_1_fork_copies

    r20_1_fork_copies(repo, rep)
    for f in (c06.r06_1_zero_divisor, c06.r06_3_operator_table, c06.r06_4_wrapper_term_boundary, c06.r06_6_byte_and_signextend):
        f(repo, rep)


RULES = [r04_5_shared, r04_1_prefix_agreement, r04_2_refine_exact, r04_3_model_syntaxes, r04_4_list_discipline, r04_6_results_during_shutdown]
