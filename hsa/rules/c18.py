"""C18 — configuration resolves by precedence and round-trips."""

from __future__ import annotations

import ast
import re

from hsa.core import AnalysisError, Repo, Report, body_walk, call_name, dotted, find_assign, kwarg, last_attr, src
from hsa.fold import UNKNOWN, Folder, class_consts, fold_in
from hsa.rules.common import class_methods, guard_set, if_chain, method_calls

EXPLANATION = (
    "Decides the structure behind precedence and round-trips: ConfigSource values are strictly increasing in "
    "the documented order; value_with_source walks newest->oldest and replaces only on a strictly greater "
    "source (so the most recent layer wins among equals) skipping None; --solver-command wins over --solver "
    "on >=; each layer is created with the source of its kind (toml -> config_file, CLI -> command_line applied "
    "last, devdoc -> function_annotation, natspec -> contract_annotation); annotation overrides never rebind "
    "the configuration they were derived from; every Parse* action has parse and unparse, and unparse applies "
    "no lossy numeric operation to the value; list/set parsers reject empty input, the array-length format is "
    "pre-checked, unknown keys exit with an error, and parse_time's suffix chain has no shadowed suffix and "
    "the right multipliers. Values of generated option grammars are not enumerated."
    ' Also decided: every with_overrides(**...) call site forwards the parsed options unfiltered or filtered by `is not None` only (an explicit falsy value must win).'
    " Round 4: inside run_tests options are read from the test's own configuration (R18.9); the validating and extracting patterns of --array-lengths agree on names; a pattern applied by parse_time is anchored at the end."
)
ASSUMPTIONS = ["argparse stores parsed values under the dataclass field names", "toml.loads is faithful"]

ORDER = ["void", "default", "config_file", "contract_annotation", "function_annotation", "command_line"]


def r18_1_source_order(repo: Repo, rep: Report):
    rep.rule("R18.1", "ConfigSource: void < default < config_file < contract_annotation < function_annotation < command_line")
    m, c = repo.cls("config.ConfigSource")
    vals = class_consts(repo, "config", c)
    got = [vals.get(k) for k in ORDER]
    ok = all(isinstance(v, int) for v in got) and all(a < b for a, b in zip(got, got[1:])) and set(vals) == set(ORDER)
    rep.check("R18.1", ok, m, c, f"ConfigSource = {vals}", "precedence order of configuration sources is broken")
    rep.check("R18.1", [src(b) for b in c.bases] == ["IntEnum"], m, c, "class ConfigSource(IntEnum)", "sources must be comparable integers")


def r18_2_lookup(repo: Repo, rep: Report):
    rep.rule("R18.2", "value_with_source: newest->oldest, strict >, skipping None; resolved_solver_command: >= in favour of --solver-command")
    m, fn = repo.fn("config.Config.value_with_source")
    loops = [w for w in body_walk(fn) if isinstance(w, ast.While)]
    ok = len(loops) == 1 and src(loops[0].test) == "current is not None"
    rep.check("R18.2", ok, m, loops[0] if loops else fn, f"while {src(loops[0].test) if loops else '?'}", "layer traversal must visit every layer up to the root")
    init = find_assign(fn, "current")
    texts = sorted(src(v) for v in init)
    ok = texts == ["current._parent", "self"]
    rep.check("R18.2", ok, m, fn, f"current = {texts}", "traversal must start at the newest layer (self) and follow _parent")
    best = [src(v) for v in find_assign(fn, "best_source")]
    rep.check("R18.2", "ConfigSource.void" in best, m, fn, f"best_source starts at {best}", "initial best source must be below every real source")
    ifs = [i for i in body_walk(fn) if isinstance(i, ast.If)]
    ok = False
    if len(ifs) == 1:
        atoms = {}
        t = ifs[0].test
        parts = t.values if isinstance(t, ast.BoolOp) and isinstance(t.op, ast.And) else [t]
        has_none = any(src(p) == "value is not None" for p in parts)
        cmpn = [p for p in parts if isinstance(p, ast.Compare) and "best_source" in src(p)]
        strict = len(cmpn) == 1 and isinstance(cmpn[0].ops[0], ast.Gt) and src(cmpn[0].comparators[0]) == "best_source" and "_source" in src(cmpn[0].left)
        ok = has_none and strict
    rep.check("R18.2", ok, m, ifs[0] if ifs else fn, f"if {src(ifs[0].test) if ifs else '?'}", "a layer replaces the best value only if it sets the option (not None) and its source is strictly greater (newest wins among equals)")
    val = [src(v) for v in find_assign(fn, "value")]
    rep.check("R18.2", val == ["object.__getattribute__(current, name)"], m, fn, f"value = {val}", "each layer's own raw value must be inspected")
    rets = [r for r in body_walk(fn) if isinstance(r, ast.Return)]
    ok = len(rets) == 1 and src(rets[0].value) == "(best_value, best_source)"
    rep.check("R18.2", ok, m, rets[0] if rets else fn, src(rets[0]) if rets else "return ?", "must return the best (value, source)")
    # __getattribute__ resolves through value_with_source
    _, ga = repo.fn("config.Config.__getattribute__")
    ok = "self.value_with_source(name)" in src(ga)
    rep.check("R18.2", ok, m, ga, "__getattribute__ -> value_with_source(name)", "attribute access must use the precedence lookup")
    _, wo = repo.fn("config.Config.with_overrides")
    ok = "Config(_parent=self, _source=source, **overrides)" in src(wo)
    rep.check("R18.2", ok, m, wo, "with_overrides -> Config(_parent=self, _source=source, **overrides)", "a new layer must sit on top of the current one with the given source")
    rebinds = [s_ for s_ in body_walk(wo) if isinstance(s_, (ast.Assign, ast.AugAssign, ast.AnnAssign)) and any(isinstance(n_, ast.Name) and n_.id == "overrides" and isinstance(n_.ctx, ast.Store) for n_ in ast.walk(s_))]
    muts = [c_ for c_ in body_walk(wo) if isinstance(c_, ast.Call) and isinstance(c_.func, ast.Attribute) and src(c_.func.value) == "overrides" and c_.func.attr in ("pop", "clear", "update", "popitem", "setdefault")]
    rep.check("R18.2", not rebinds and not muts, m, (rebinds + muts)[0] if (rebinds + muts) else wo, f"with_overrides passes the overrides through unfiltered ({len(rebinds) + len(muts)} rewrites)", "overrides are filtered before the layer is built: explicit falsy values (0, '', empty set, False) of a higher-precedence layer are dropped and a lower layer wins")
    # a layer's own value is `unset` only when it is None (the dataclass default)
    mc, cfg = repo.cls("config.Config")
    argf = repo.fn("config.arg")[1]
    rep.check("R18.2", "default=None" in src(argf), m, argf, "config.arg: dataclass default is None (unset marker)", "the unset marker must be None")
    # solver-command vs solver
    _, rs = repo.fn("config.Config.resolved_solver_command")
    cmps = [c for c in body_walk(rs) if isinstance(c, ast.Compare) and "solver_command_source" in src(c) and "solver_source" in src(c.comparators[0])]
    ge = [c for c in cmps if isinstance(c.ops[0], ast.GtE) and src(c.left) == "solver_command_source"]
    rep.check("R18.2", len(ge) == 1, m, ge[0] if ge else rs, f"{[src(c) for c in cmps]}", "--solver-command must win iff its source is >= the source of --solver")
    t = src(rs)
    ok = "self.value_with_source('solver')" in t and "self.value_with_source('solver_command')" in t
    rep.check("R18.2", ok, m, rs, "both options are looked up with their sources", "solver options must be resolved with their sources")
    for r in body_walk(rs):
        if isinstance(r, ast.Return):
            v = src(r.value)
            if v == "shlex.split(solver_command)":
                gs = guard_set(m, r)
                rep.check("R18.2", "solver_command_source >= solver_source" in gs and "solver_command" in gs, m, r, f"{src(r)} under {sorted(gs)}", "custom command used without winning the precedence test")


def r18_3_layer_sources(repo: Repo, rep: Report):
    rep.rule("R18.3", "each configuration layer is created with the source of its kind; the CLI layer is applied last")
    m, lc = repo.fn("__main__.load_config")
    calls = [c for c in body_walk(lc) if isinstance(c, ast.Call) and last_attr(c) == "with_overrides"]
    f = Folder(repo, "__main__")

    def source_of(fn, c):
        a = c.args[0] if c.args else kwarg(c, "source")
        if isinstance(a, ast.Name):
            vals = find_assign(fn, a.id)
            if len(vals) == 1:
                a = vals[0]
        return src(a)

    srcs = [source_of(lc, c) for c in calls]
    ok = srcs == ["ConfigSource.config_file", "ConfigSource.command_line"]
    rep.check("R18.3", ok, m, lc, f"load_config layers: {srcs}", "config files must be config_file layers and the command line must be the last, command_line layer")
    if len(calls) == 2:
        in_loop = any(isinstance(a, ast.For) for a in m.ancestors(calls[0]))
        ok = in_loop and "toml_parser().parse_file(config_file)" in src(lc) and "**vars(cli_overrides)" in src(calls[1])
        rep.check("R18.3", ok, m, calls[1], "toml overrides per config file; CLI overrides from arg_parser().parse_args(_args)", "layers carry the wrong values")
    st = [src(v) for v in find_assign(lc, "config")]
    rep.check("R18.3", st and st[0] == "default_config()", m, lc, f"config starts from {st[:1]}", "layer stack must start from the defaults")
    for q, want in (("__main__.with_devdoc", "ConfigSource.function_annotation"), ("__main__.with_natspec", "ConfigSource.contract_annotation")):
        mm, fn = repo.fn(q)
        cs = [c for c in body_walk(fn) if isinstance(c, ast.Call) and last_attr(c) == "with_overrides"]
        ok = len(cs) == 1 and source_of(fn, cs[0]) == want and src(cs[0].func.value) == "args"
        rep.check("R18.3", ok, mm, cs[0] if cs else fn, f"{q}: args.with_overrides({source_of(fn, cs[0]) if cs else '?'}, ...)", f"annotation layer must be created with {want} on top of the given config")
        # no annotation -> the config is returned unchanged
        rets = [r for r in body_walk(fn) if isinstance(r, ast.Return)]
        ok = all(src(r.value) == "args" or "with_overrides" in src(r.value) for r in rets) and len(rets) >= 2
        rep.check("R18.3", ok, mm, fn, f"{q} returns {[src(r.value)[:40] for r in rets]}", "without an annotation the configuration must be returned unchanged")
    _, dc = repo.fn("config._create_default_config")
    ok = "Config(_parent=None, _source=ConfigSource.default, **values)" in src(dc)
    rep.check("R18.3", ok, repo.mod("config"), dc, "defaults: Config(_parent=None, _source=ConfigSource.default, ...)", "default layer must have source `default` and no parent")


def r18_4_scoping(repo: Repo, rep: Report):
    rep.rule("R18.4", "annotation overrides never rebind the configuration they were derived from")
    m = repo.mod("__main__")
    n = 0
    for q, fn in repo.functions("__main__"):
        for st in body_walk(fn):
            if not isinstance(st, (ast.Assign, ast.AnnAssign, ast.AugAssign, ast.NamedExpr)):
                continue
            val = st.value
            if not (isinstance(val, ast.Call) and call_name(val) in ("with_devdoc", "with_natspec")):
                continue
            n += 1
            tgt = st.targets[0] if isinstance(st, ast.Assign) else st.target
            base = src(val.args[0]) if val.args else "?"
            ok = isinstance(tgt, ast.Name) and tgt.id != base and tgt.id not in ("args",)
            rep.check("R18.4", ok, m, st, src(st)[:120], "the result of an annotation override is assigned back to the shared configuration: it would leak into other contracts/functions")
            if isinstance(tgt, ast.Name):
                # the derived config must not be copied into the shared one later
                for s2 in body_walk(fn):
                    if isinstance(s2, ast.Assign) and src(s2.value) == tgt.id:
                        t2 = src(s2.targets[0])
                        rep.check("R18.4", t2 not in (base, "args", "ctx.args"), m, s2, src(s2), "derived configuration copied into the shared one")
                    if isinstance(s2, ast.Call) and src(s2.func) == "object.__setattr__" and len(s2.args) == 3 and src(s2.args[2]) == tgt.id:
                        rep.bad("R18.4", m, s2, src(s2), "derived configuration written into a shared frozen object")
    if n < 3:
        raise AnalysisError(f"R18.4: only {n} annotation-override call sites found (expected setUp, test, contract)")
    # the derived configs flow into their own contexts
    _, rt = repo.fn("__main__.run_tests")
    fc = [c for c in body_walk(rt) if isinstance(c, ast.Call) and call_name(c) == "FunctionContext"]
    ok = len(fc) == 1 and src(kwarg(fc[0], "args")) == "test_config"
    rep.check("R18.4", ok, m, fc[0] if fc else rt, "run_tests: FunctionContext(args=test_config, ...)", "per-function overrides must reach exactly that function's context")
    wd = [c for c in body_walk(rt) if isinstance(c, ast.Call) and call_name(c) == "with_devdoc"]
    ok = len(wd) == 1 and src(wd[0].args[0]) == "args" and src(wd[0].args[1]) == "funsig" and any(isinstance(a, ast.For) for a in m.ancestors(wd[0]))
    rep.check("R18.4", ok, m, wd[0] if wd else rt, src(wd[0]) if wd else "with_devdoc(args, funsig, ...)", "each test must derive its config from the contract config and its own signature")
    _, mn = repo.fn("__main__._main")
    cc = [c for c in body_walk(mn) if isinstance(c, ast.Call) and call_name(c) == "ContractContext"]
    ok = len(cc) == 1 and src(kwarg(cc[0], "args")) == "contract_args"
    rep.check("R18.4", ok, m, cc[0] if cc else mn, "_main: ContractContext(args=contract_args, ...)", "per-contract overrides must reach exactly that contract's context")
    wn = [c for c in body_walk(mn) if isinstance(c, ast.Call) and call_name(c) == "with_natspec"]
    ok = len(wn) == 1 and src(wn[0].args[0]) == "args" and src(wn[0].args[2]) == "natspec"
    rep.check("R18.4", ok, m, wn[0] if wn else mn, src(wn[0]) if wn else "with_natspec(args, ...)", "contract annotations must be applied on top of the global config with that contract's natspec")
    # devdoc is looked up by the function's own signature
    mb, pd = repo.fn("build.parse_devdoc")
    ok = "['devdoc']['methods'][funsig]['custom:halmos']" in src(pd)
    rep.check("R18.4", ok, mb, pd, "parse_devdoc: devdoc.methods[funsig]['custom:halmos']", "annotation must be read from the function's own devdoc entry")


LOSSY = {"int", "round", "floor", "ceil", "trunc"}


def r18_5_inverse_pairs(repo: Repo, rep: Report):
    rep.rule("R18.5", "every Parse* action has parse and unparse; unparse applies no lossy numeric operation; formats agree")
    m = repo.mod("config")
    actions = [c for c in m.tree.body if isinstance(c, ast.ClassDef) and any(src(b) == "argparse.Action" for b in c.bases)]
    if len(actions) < 5:
        raise AnalysisError(f"R18.5: only {len(actions)} argparse actions found")
    for c in actions:
        ms = class_methods(c)
        ok = "parse" in ms and "unparse" in ms and "__call__" in ms
        rep.check("R18.5", ok, m, c, f"{c.name}: methods {sorted(ms)}", "an action needs both parse and unparse")
        if not ok:
            continue
        un = ms["unparse"]
        pname = un.args.args[0].arg if un.args.args else "value"
        lossy = []
        for n in ast.walk(un):
            if isinstance(n, ast.Call) and call_name(n).split(".")[-1] in LOSSY and any(isinstance(x, ast.Name) and x.id == pname for a in n.args for x in ast.walk(a)):
                lossy.append(src(n))
            if isinstance(n, ast.BinOp) and isinstance(n.op, ast.FloorDiv) and any(isinstance(x, ast.Name) and x.id == pname for x in ast.walk(n)):
                lossy.append(src(n))
            if isinstance(n, ast.FormattedValue) and n.format_spec is not None and any(isinstance(x, ast.Name) and x.id == pname for x in ast.walk(n.value)):
                spec = src(n.format_spec)
                if re.search(r"\.\d+[fe]|d'", spec):
                    lossy.append(f"{{{src(n.value)}:{spec}}}")
        rep.check("R18.5", not lossy, m, un, f"{c.name}.unparse: lossy operations on the value: {lossy}", "unparse truncates the value: parse(unparse(v)) != v (e.g. 1.5s -> '1s'; 0.0005s -> '0ms' = no timeout)")
        call = ms["__call__"]
        ok = f"{c.name}.parse(values)" in src(call) and "setattr(namespace, self.dest, values)" in src(call)
        rep.check("R18.5", ok, m, call, f"{c.name}.__call__ stores {c.name}.parse(values)", "the CLI must store the parsed value")
    # format agreement (writer template vs reader regex), evaluated on checker-made samples with the repo's regex literals
    al = next((c for c in actions if c.name == "ParseArrayLengths"), None)
    if al is not None:
        ps = class_methods(al)["parse"]
        lits = [fold_in(repo, "config", c.args[0]) for c in body_walk(ps) if isinstance(c, ast.Call) and src(c.func) in ("re.match", "re.findall", "re.fullmatch")]
        ok = len(lits) == 2 and all(isinstance(x, str) for x in lits)
        if ok:
            sample = "x={1,2},y={3}"
            good = re.match(lits[0], sample) is not None and re.findall(lits[1], sample) == [("x", "1,2", ""), ("y", "3", "")]
            badfmt = all(re.match(lits[0], s) is None for s in ("x=", "x={1,2", "x=1,,", "=3", "x={}", "x={a}"))
            single = re.findall(lits[1], "z=7") == [("z", "", "7")]
            ok = good and badfmt and single
        rep.check("R18.5", ok, m, ps, "ParseArrayLengths: unparse template `k={v,...}` is accepted by parse's format and findall regexes; malformed inputs rejected", "array-length writer and reader formats disagree")
        un = class_methods(al)["unparse"]
        tm = [n for n in ast.walk(un) if isinstance(n, ast.JoinedStr)]
        ok = any("".join(str(v.value) if isinstance(v, ast.Constant) else "<>" for v in j.values) == "<>={<>}" for j in tm)
        rep.check("R18.5", ok, m, un, "ParseArrayLengths.unparse template is `{k}={{{...}}}`", "unparse template changed")
    ec = next((c for c in actions if c.name == "ParseErrorCodes"), None)
    if ec is not None:
        ps, un = class_methods(ec)["parse"], class_methods(ec)["unparse"]
        ok = "values == '*'" in src(ps) and "return set()" in src(ps) and "return '*'" in src(un) and "not values" in src(un) and "int(x, 0)" in src(ps) and "0x{v:02x}" in src(un).replace("f'", "").replace("'", "")
        rep.check("R18.5", ok, m, ps, "ParseErrorCodes: '*' <-> empty set; hex writer / base-0 reader", "error-code wildcard or number base no longer round-trips")


def _pattern_of(call):
    a = call.args[0] if call.args else None
    return a.value if isinstance(a, ast.Constant) and isinstance(a.value, str) else None


def _name_class(pattern: str):
    """the sub-pattern that matches a parameter name: what stands between the first group opening and the first `=`"""
    p = pattern.lstrip("^")
    while p.startswith("("):
        p = p[1:]
    if "=" not in p:
        return None
    head = p.split("=", 1)[0]
    # the `=` inside a negated class like [^=,{}] is not the separator
    if head.count("[") > head.count("]"):
        rest = p[len(head) + 1:]
        if "=" not in rest:
            return None
        head = head + "=" + rest.split("=", 1)[0]
    return head.rstrip(")")


def r18_6b_array_length_patterns(repo: Repo, rep: Report, rule="R18.6"):
    """--array-lengths: the validating pattern and the extracting pattern accept the same parameter names, so that
    whatever passes validation is extracted whole (a narrower extractor stores `s.data` under `data`)"""
    m, al = repo.fn("config.ParseArrayLengths.parse")
    pre = [c for c in body_walk(al) if isinstance(c, ast.Call) and src(c.func) in ("re.match", "re.fullmatch")]
    fa = [c for c in body_walk(al) if isinstance(c, ast.Call) and src(c.func) in ("re.findall", "re.finditer")]
    if len(pre) != 1 or len(fa) != 1 or _pattern_of(pre[0]) is None or _pattern_of(fa[0]) is None:
        raise AnalysisError("ParseArrayLengths.parse: validating / extracting pattern not found")
    a, b = _name_class(_pattern_of(pre[0])), _name_class(_pattern_of(fa[0]))
    rep.check(rule, a is not None and a == b, m, fa[0], f"name sub-pattern of the validator {a!r} == of the extractor {b!r}", "validation and extraction disagree on what a parameter name is: a validated name is extracted in part and its size candidates are stored under another name (never looked up, defaults used silently)")


def r18_6_rejection(repo: Repo, rep: Report):
    rep.rule("R18.6", "malformed values are rejected: non-empty lists, format pre-check, unknown keys, unambiguous time suffixes")
    m = repo.mod("config")
    for q in ("config.ParseCSVInt.parse", "config.ParseErrorCodes.parse", "config.ParseArrayLengths.parse"):
        _, fn = repo.fn(q)
        rets = [r for r in body_walk(fn) if isinstance(r, ast.Return) and r.value is not None]
        main = [r for r in rets if src(r.value) not in ("set()", "{}")]
        ok = bool(main) and all("ensure_non_empty(" in src(r.value) for r in main)
        rep.check("R18.6", ok, m, fn, f"{q}: {[src(r.value)[:50] for r in main]}", "an empty list/set must be rejected, not accepted silently")
    _, en = repo.fn("config.ensure_non_empty")
    ok = any(isinstance(r, ast.Raise) and "not (values)" in guard_set(m, r) or isinstance(r, ast.Raise) and "not values" in src(m.parents[r]) for r in body_walk(en))
    rep.check("R18.6", ok, m, en, "ensure_non_empty raises on empty input", "ensure_non_empty no longer rejects")
    _, al = repo.fn("config.ParseArrayLengths.parse")
    pre = [i for i in body_walk(al) if isinstance(i, ast.If) and "re.match(" in src(i.test) and any(isinstance(x, ast.Raise) for x in i.body)]
    fa = [c for c in body_walk(al) if isinstance(c, ast.Call) and src(c.func) == "re.findall"]
    ok = len(pre) == 1 and len(fa) == 1 and pre[0].lineno < fa[0].lineno and src(pre[0].test).startswith("not ")
    rep.check("R18.6", ok, m, pre[0] if pre else al, "format pre-check (raise) before findall", "without the pre-check findall silently ignores malformed parts")
    r18_6b_array_length_patterns(repo, rep)
    _, wo = repo.fn("config.Config.with_overrides")
    hs = [h for t in body_walk(wo) if isinstance(t, ast.Try) for h in t.handlers]
    ok = any(src(h.type) == "TypeError" and "sys.exit(2)" in src(h) for h in hs)
    rep.check("R18.6", ok, m, wo, "unknown option key -> sys.exit(2)", "an unknown key must be an error")
    _, pdict = repo.fn("config.TomlParser.parse_dict")
    t = src(pdict)
    # form-independent: a `<A>.parse(<v>)` whose receiver is bound (assignment or walrus) to `actions.get(<key>)`, chosen
    # by the truthiness of <A> with the raw value as the alternative; keys are normalised '-' -> '_'
    binds = {}
    for n in body_walk(pdict):
        if isinstance(n, ast.Assign) and len(n.targets) == 1 and isinstance(n.targets[0], ast.Name):
            binds.setdefault(n.targets[0].id, []).append(n.value)
        elif isinstance(n, ast.NamedExpr):
            binds.setdefault(n.target.id, []).append(n.value)
    def _via_actions(name):
        vs = binds.get(name, [])
        return len(vs) == 1 and isinstance(vs[0], ast.Call) and src(vs[0].func) == "actions.get" and len(vs[0].args) == 1
    chosen = False
    for n in body_walk(pdict):
        if isinstance(n, ast.IfExp) and isinstance(n.body, ast.Call) and last_attr(n.body) == "parse" and isinstance(n.body.func.value, ast.Name) and _via_actions(n.body.func.value.id) and len(n.body.args) == 1:
            a = n.body.func.value.id
            tst = n.test.target.id if isinstance(n.test, ast.NamedExpr) else (n.test.id if isinstance(n.test, ast.Name) else None)
            chosen = chosen or (tst == a and src(n.orelse) == src(n.body.args[0]))
    norm = any(isinstance(c, ast.Call) and last_attr(c) == "replace" and [src(x) for x in c.args] == ["'-'", "'_'"] for c in body_walk(pdict))
    ok = t.count("sys.exit(2)") >= 2 and chosen and norm
    rep.check("R18.6", ok, m, pdict, "toml: single [global] section enforced; structured values go through the action's parse", "toml values bypass validation")
    # parse_time
    mu, pt = repo.fn("utils.parse_time")
    # whatever shape the parser has: a pattern applied with match()/search() must be anchored at the end, otherwise
    # trailing garbage ("10sec", "1h30m", "2.5e-05s" read as 2.5) is accepted instead of rejected
    for c in body_walk(pt):
        if not (isinstance(c, ast.Call) and isinstance(c.func, ast.Attribute) and c.func.attr in ("match", "search")):
            continue
        recv = c.func.value
        pat = None
        if isinstance(recv, ast.Name) and recv.id == "re" and c.args:
            pat = fold_in(repo, "utils", c.args[0])
        elif isinstance(recv, ast.Call) and src(recv.func) == "re.compile" and recv.args:
            pat = fold_in(repo, "utils", recv.args[0])
        elif isinstance(recv, ast.Name):
            vals = [st.value for st in mu.tree.body if isinstance(st, ast.Assign) and len(st.targets) == 1 and src(st.targets[0]) == recv.id]
            if len(vals) == 1 and isinstance(vals[0], ast.Call) and src(vals[0].func) == "re.compile" and vals[0].args:
                pat = fold_in(repo, "utils", vals[0].args[0])
        if isinstance(pat, str):
            anchored = pat.endswith("$") or pat.endswith("\\Z") or pat.endswith("$)")
            rep.check("R18.6", anchored, mu, c, f"parse_time applies {pat!r} with .{c.func.attr}()", "the pattern is not anchored at the end: a malformed value with a valid prefix is accepted (and an exponent-notation repr no longer round-trips)")
    chains = [i for i in body_walk(pt) if isinstance(i, ast.If) and "endswith" in src(i.test) and not (isinstance(mu.parents[i], ast.If) and i in mu.parents[i].orelse)]
    if len(chains) != 1:
        raise AnalysisError("parse_time: suffix chain not found")
    arms = if_chain(chains[0])
    sufs = []
    mults = {}
    f = Folder(repo, "utils")
    for test, body in arms:
        if test is None or not (isinstance(test, ast.Call) and last_attr(test) == "endswith"):
            continue
        s = f.fold(test.args[0])
        sufs.append(s)
        r = [x for x in body if isinstance(x, ast.Return)]
        if r:
            v = r[0].value
            # float(arg[:-k]) <op> c
            k = None
            for sl in ast.walk(v):
                if isinstance(sl, ast.Slice) and sl.upper is not None:
                    k = -f.fold(sl.upper)
            if isinstance(v, ast.BinOp):
                c = f.fold(v.right)
                mult = 1 / c if isinstance(v.op, ast.Div) else c
            else:
                mult = 1
            mults[s] = (mult, k)
    shadow = [(a, b) for i, a in enumerate(sufs) for b in sufs[i + 1:] if isinstance(a, str) and isinstance(b, str) and b.endswith(a)]
    rep.check("R18.6", not shadow and len(sufs) >= 4, mu, chains[0], f"suffix chain order {sufs}", f"an earlier suffix shadows a later one: {shadow}")
    want = {"ms": (0.001, 2), "s": (1, 1), "m": (60, 1), "h": (3600, 1)}
    ok = all(mults.get(k) is not None and abs(mults[k][0] - v[0]) < 1e-12 and mults[k][1] == v[1] for k, v in want.items())
    rep.check("R18.6", ok, mu, chains[0], f"unit multipliers {mults}", "a time unit has the wrong multiplier or strips the wrong number of characters")
    raises = [r for r in body_walk(pt) if isinstance(r, ast.Raise)]
    rep.check("R18.6", len(raises) >= 3, mu, pt, f"{len(raises)} rejections in parse_time", "unparseable time values must raise")
    _, tp = repo.fn("config.ParseTimeout.parse")
    ok = "parse_time(values, default_unit='ms')" in src(tp)
    rep.check("R18.6", ok, m, tp, "ParseTimeout.parse -> parse_time(values, default_unit='ms')", "timeouts without a unit must be milliseconds")


def r18_9_per_function_config(repo: Repo, rep: Report):
    rep.rule("R18.9", "inside run_tests every option value used for a test is read from that test's own configuration (with_devdoc), not from the contract-level one")
    m, rt = repo.fn("__main__.run_tests")
    diagnostic = {"debug", "debug_config"}  # printing only: no effect on what is explored or reported
    cfgs = [st for st in body_walk(rt) if isinstance(st, ast.Assign) and isinstance(st.value, ast.Call) and call_name(st.value) == "with_devdoc"]
    ok = len(cfgs) == 1 and src(cfgs[0].targets[0]) == "test_config" and src(cfgs[0].value.args[0]) == "args" and any(isinstance(a, ast.For) and src(a.iter) == "funsigs" for a in m.ancestors(cfgs[0]))
    rep.check("R18.9", ok, m, cfgs[0] if cfgs else rt, "test_config = with_devdoc(args, funsig, ...) once per test function", "the per-function layer must be built from the contract-level configuration for every test, into its own name")
    reads = [n for n in body_walk(rt) if isinstance(n, ast.Attribute) and isinstance(n.ctx, ast.Load) and isinstance(n.value, ast.Name) and n.value.id == "args"]
    for n in reads:
        rep.check("R18.9", n.attr in diagnostic, m, n, f"run_tests reads args.{n.attr}", f"option `{n.attr}` is taken from the contract-level configuration: a function-level @custom:halmos override of it is shown in the test's configuration but not used")
    rep.floor("R18.9", 2, "configuration reads in run_tests")


def r18_8_parser_defaults_and_scoping(repo: Repo, rep: Report):
    rep.rule("R18.8", "an option that was not given stays None in the parsed namespace; a contract's annotation is its own; the toml generator keeps explicit falsy values")
    m, cap = repo.fn("config._create_arg_parser")
    adds = [c for c in body_walk(cap) if isinstance(c, ast.Call) and last_attr(c) == "add_argument"]
    for c in adds:
        d = kwarg(c, "default")
        ok = d is None or (isinstance(d, ast.Constant) and d.value is None)
        rep.check("R18.8", ok, m, c, f"add_argument(... default={src(d) if d is not None else '<absent>'})", "an argparse default other than None makes every parsed layer (command line, natspec, devdoc) `set` the option although it was not given: a value from a lower-precedence layer (config file) is masked")
    # kwargs dicts handed to add_argument(**kwargs) must not carry a default either
    for d in [n for n in body_walk(cap) if isinstance(n, ast.Dict)]:
        keys = [k.value for k in d.keys if isinstance(k, ast.Constant)]
        rep.check("R18.8", "default" not in keys, m, d, f"add_argument kwargs keys: {keys}", "argparse default supplied through the kwargs dictionary")
    for st in body_walk(cap):
        if isinstance(st, ast.Assign) and isinstance(st.targets[0], ast.Subscript) and src(st.targets[0].value) == "kwargs" and isinstance(st.targets[0].slice, ast.Constant) and st.targets[0].slice.value == "default":
            rep.bad("R18.8", m, st, src(st), "argparse default supplied through the kwargs dictionary")
    rep.floor("R18.8", 3, "add_argument sites in _create_arg_parser")
    # contract annotation scoping: the natspec returned for a contract comes from that contract's AST node
    mb, gct = repo.fn("build.get_contract_type")
    docs = [c for c in body_walk(gct) if isinstance(c, ast.Call) and last_attr(c) == "get" and c.args and isinstance(c.args[0], ast.Constant) and c.args[0].value == "documentation"]
    for c in docs:
        gs = {g.replace(" ", "") for g in guard_set(mb, c)}
        ok = any(g in ("node['name']==contract_name", "contract_name==node['name']") for g in gs) and len(c.args) == 1
        rep.check("R18.8", ok, mb, c, f"get_contract_type: {src(c)} under {sorted(gs)}", "the documentation (and with it the @custom:halmos options) of another contract of the same file is returned: a contract without annotation inherits its neighbour's options as a contract_annotation layer")
    rep.check("R18.8", len(docs) == 1, mb, gct, f"get_contract_type reads `documentation` at {len(docs)} site(s)", "annotation source changed")
    # python -m halmos.config: only an unset value (None) becomes a commented placeholder
    mc, mn = repo.fn("config.main")
    placeholder = [i for i in body_walk(mn) if isinstance(i, ast.If) and any("# {name} = " in src(x) for x in i.body)]
    ok = False
    if len(placeholder) == 1:
        t = placeholder[0].test
        first = t.values[0] if isinstance(t, ast.BoolOp) and isinstance(t.op, ast.Or) else t
        ok = src(first) == "value is None"
    rep.check("R18.8", ok, mc, placeholder[0] if placeholder else mn, f"config.main: placeholder iff `{src(placeholder[0].test)[:80] if placeholder else '?'}`", "a truthiness test drops explicit falsy values (--loop 0, --invariant-depth 0, empty lists) from the generated halmos.toml: reloading it silently restores the defaults (unparse/parse round trip broken)")


def _forwarded_values_ok(repo: Repo, m, fn, expr, depth=0):
    """(ok, description): does `expr` (the ** argument of with_overrides) forward every parsed option unfiltered, or
    filtered only by `is not None`?"""
    from hsa.origin import origin

    e = origin(m, fn, expr)
    t = src(e)
    if isinstance(e, ast.Call) and call_name(e) == "vars" and len(e.args) == 1:
        return True, t
    if isinstance(e, ast.DictComp):
        bad = [src(c) for g in e.generators for c in g.ifs if not (isinstance(c, ast.Compare) and len(c.ops) == 1 and isinstance(c.ops[0], ast.IsNot) and isinstance(c.comparators[0], ast.Constant) and c.comparators[0].value is None)]
        return not bad, f"{t[:90]} (filters other than `is not None`: {bad})" if bad else t[:90]
    if isinstance(e, ast.Call) and depth < 2:
        # a helper of the package: look at what it returns
        nm = call_name(e)
        for mod in repo.modules.values():
            h = mod.defs.get(nm)
            if isinstance(h, (ast.FunctionDef, ast.AsyncFunctionDef)):
                rets = [r for r in body_walk(h) if isinstance(r, ast.Return) and r.value is not None]
                res = [_forwarded_values_ok(repo, mod, h, r.value, depth + 1) for r in rets]
                return bool(res) and all(o for o, _ in res), f"{nm}() returns " + "; ".join(d for _, d in res)
    if isinstance(e, (ast.Name, ast.Attribute, ast.Subscript, ast.Dict)):
        return True, t[:90]  # a dictionary built elsewhere (toml layer, explicit keywords)
    return True, t[:90]


def r18_7_override_forwarding(repo: Repo, rep: Report):
    rep.rule("R18.7", "every layer forwards the options it was given unfiltered (or filtered by `is not None` only): an explicit falsy value must override a lower layer")
    n = 0
    for m in repo.modules.values():
        for q, fn in m.defs.items():
            if not isinstance(fn, (ast.FunctionDef, ast.AsyncFunctionDef)):
                continue
            for c in body_walk(fn):
                if isinstance(c, ast.Call) and last_attr(c) == "with_overrides":
                    for k in c.keywords:
                        if k.arg is None:
                            ok, desc = _forwarded_values_ok(repo, m, fn, k.value)
                            n += 1
                            rep.check("R18.7", ok, m, c, f"{m.name}.{q}: with_overrides(.., **{desc})", "options with falsy values (0, empty set from `--panic-error-codes *`, False, '') given in this layer are dropped and a lower-precedence value wins")
    rep.floor("R18.7", 3, "with_overrides(**...) call sites")


RULES = [r18_1_source_order, r18_2_lookup, r18_3_layer_sources, r18_4_scoping, r18_5_inverse_pairs, r18_6_rejection, r18_7_override_forwarding, r18_8_parser_defaults_and_scoping, r18_9_per_function_config]
