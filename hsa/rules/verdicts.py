"""R02.1 — solver-verdict comparison discipline (shared by C02, C03, C08, C13).

A z3 answer (`sat` / `unsat` / `unknown`) may remove an alternative only when it is `unsat`:
  keep-sites   (the guarded code adds a path / candidate)         must compare `!= unsat`
  prove-sites  (the guarded code resolves or fails definitively)  must compare `== unsat`
  `== sat` is admissible only in the certainty pair `a == sat and b == unsat`, which
  *exempts* constant loops from the unrolling bound (weakens pruning).
Anything else (`== sat` alone, `!= sat`, comparisons with `unknown`) treats a timeout as a proof.
"""

from __future__ import annotations

import ast

from hsa.core import AnalysisError, Module, Repo, Report, body_walk, last_attr, src
from hsa.rules.common import Z3_VERDICTS, z3_imported

# functions that *classify a finished external query* (handled by R05.3 / R04.4, not here)
CLASSIFIERS = {
    "__main__.CounterexampleHandler._solve_end_to_end_callback",
    "solve.solve_end_to_end",
}

ADDERS = {"create_branch", "append", "push", "add"}


def _verdict_operand(m: Module, cmp_: ast.Compare):
    ops = [cmp_.left] + list(cmp_.comparators)
    for o in ops:
        if isinstance(o, ast.Name) and o.id in Z3_VERDICTS and z3_imported(m, o.id):
            return o.id
    # membership tests against collections of verdicts: `x in (sat, unknown)`
    for o in ops:
        if isinstance(o, (ast.Tuple, ast.List, ast.Set)):
            for e in o.elts:
                if isinstance(e, ast.Name) and e.id in Z3_VERDICTS and z3_imported(m, e.id):
                    return "collection:" + e.id
    return None


def _context(m: Module, cmp_: ast.Compare):
    """('if', If node) | ('comp', comprehension) | ('assign', stmt) | ('other', node)"""
    child = cmp_
    for a in m.ancestors(cmp_):
        if isinstance(a, (ast.BoolOp, ast.UnaryOp)):
            child = a
            continue
        if isinstance(a, ast.If) and child is a.test:
            return "if", a
        if isinstance(a, ast.comprehension) and any(child is c for c in a.ifs):
            return "comp", a
        if isinstance(a, (ast.Assign, ast.AnnAssign)) and child is a.value:
            return "assign", a
        if isinstance(a, ast.While) and child is a.test:
            return "while", a
        return "other", a
    return "other", cmp_


def _in_certainty_pair(m: Module, cmp_: ast.Compare) -> bool:
    par = m.parents.get(cmp_)
    if not (isinstance(par, ast.BoolOp) and isinstance(par.op, ast.And) and len(par.values) == 2):
        return False
    kinds = set()
    for v in par.values:
        if not (isinstance(v, ast.Compare) and len(v.ops) == 1 and isinstance(v.ops[0], ast.Eq)):
            return False
        kinds.add(_verdict_operand(m, v))
    return kinds == {"sat", "unsat"}


def _body_adds(body) -> bool:
    for st in body:
        for n in ast.walk(st):
            if isinstance(n, ast.Call) and last_attr(n) in ADDERS:
                return True
    return False


def check_verdict_sites(repo: Repo, rep: Report, rule: str, modules=("sevm", "cheatcodes", "__main__"), only_functions=None):
    n = 0
    for modname in modules:
        m = repo.mod(modname)
        for q, fn in repo.functions(modname):
            full = f"{modname}.{q}"
            if full in CLASSIFIERS:
                continue
            if only_functions is not None and full not in only_functions:
                continue
            for c in body_walk(fn):
                if not isinstance(c, ast.Compare):
                    continue
                v = _verdict_operand(m, c)
                if v is None:
                    continue
                n += 1
                text = src(c)
                if len(c.ops) != 1 or not isinstance(c.ops[0], (ast.Eq, ast.NotEq)) or v.startswith("collection:"):
                    rep.bad(rule, m, c, text, "a solver answer is tested by something other than `== unsat` / `!= unsat`: answers outside the tested set ('err', unknown, timeout) fall on the wrong side")
                    continue
                eq = isinstance(c.ops[0], ast.Eq)
                if _in_certainty_pair(m, c):
                    kind, node = _context(m, m.parents[c])
                    ok = kind == "assign"
                    rep.check(rule, ok, m, c, f"{src(m.parents[c])}  [certainty pair]", "certainty pair may only define a must_* flag")
                    continue
                if v != "unsat":
                    rep.bad(rule, m, c, text, f"a solver answer is compared with `{v}`: a timeout/unknown would be treated as a proof")
                    continue
                kind, node = _context(m, c)
                if kind == "if":
                    adds = _body_adds(node.body)
                    if adds:
                        rep.check(rule, not eq, m, c, f"if {src(node.test)[:90]}: <adds a path/candidate>", "an alternative is added only when the solver says unsat (feasible alternatives are dropped)")
                    else:
                        rep.check(rule, eq, m, c, f"if {src(node.test)[:90]}: <definite resolution>", "a definite resolution is taken unless unsat: unknown/timeout is treated as a proof")
                elif kind == "comp":
                    rep.check(rule, not eq, m, c, f"[... if {text}]  <keeps a candidate>", "candidates are kept only when unsat")
                elif kind == "assign":
                    tgt = src(node.targets[0] if isinstance(node, ast.Assign) else node.target)
                    rep.check(rule, not eq, m, c, f"{tgt} = {text}  <potential flag>", "a feasibility flag must be `!= unsat`")
                else:
                    rep.bad(rule, m, c, text, "solver verdict used in an unrecognised context")
    return n
