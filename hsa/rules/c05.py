"""C05 — verdict aggregation is fail-safe and independent of solver timing."""

from __future__ import annotations

import ast

from hsa.core import AnalysisError, Repo, Report, body_walk, call_name, dotted, find_assign, kwarg, last_attr, src, stmt_of
from hsa.flow import Flow, function_exits, guard_text, guards_at, normal_exit_states
from hsa.fold import UNKNOWN, Folder, class_consts, fold_in
from hsa.rules.common import guard_set, if_chain, method_calls

EXPLANATION = (
    "Decides, on every syntactic path of run_test / the solver-output plumbing: PASS is assigned only "
    "under the negation of the five failure guards (sat, err, unknown, stuck, no normal path); the "
    "precedence of the solver-derived outcomes is sat > err > unknown; a SolverOutput carrying `unsat` "
    "is constructed only from a solver's 'unsat' first line or a full unsat-core hit, every exception "
    "handler maps to 'err' or (TimeoutExpired) `unknown`; the verdict reads solver_outputs only through "
    "order-insensitive aggregates after the thread-pool join; the early-exit shutdown happens after the "
    "sat output is recorded; the process exit code is the complement count. It does not execute "
    "fault sequences or schedules."
    ' Also evaluated here: the solver-reply reader of C11 R11.3 (a truncated reply must not yield a core).'
    ' Round 4: also serialisation completeness (C11 R11.1), the per-path classification (C03 R03.1), the timeout-to-unknown mapping (C17 R17.1/R17.2) and R04.6 (results during shutdown).'
    ' Round 5: the solver callback records its output first and unconditionally (R05.7); the verdict word is the complete first line of the reply (R05.3); what `stuck` means (C10 R10.1).'
)
ASSUMPTIONS = [
    "CPython list.append is atomic under the GIL",
    "Future callbacks complete before ThreadPoolExecutor.shutdown(wait=True) returns",
    "z3's str(sat/unsat/unknown) are 'sat'/'unsat'/'unknown'",
]


def _neg_forms(expr: str) -> set[str]:
    """accepted normal forms of the *negation* of a failure guard"""
    e = ast.parse(expr, mode="eval").body
    out = {guard_text(e, False)}
    if isinstance(e, ast.Compare) and len(e.ops) == 1:
        left = src(e.left)
        right = src(e.comparators[0])
        if isinstance(e.ops[0], ast.Gt) and right == "0":
            out |= {f"{left} <= 0", f"{left} == 0", f"not ({left})", f"{left} < 1"}
            if left.startswith("len(") and left.endswith(")"):
                out |= {f"not ({left[4:-1]})"}
        if isinstance(e.ops[0], ast.Eq) and right == "0":
            out |= {f"{left} != 0", f"{left} > 0", f"{left} >= 1", left}
    return out


FAIL_GUARDS = ["counter['sat'] > 0", "counter['err'] > 0", "counter['unknown'] > 0", "len(stuck) > 0", "normal == 0"]


def _verdict_chain(repo):
    m, fn = repo.fn("__main__.run_test")
    chains = []
    for n in body_walk(fn):
        if isinstance(n, ast.If) and "counter[" in src(n.test):
            par = m.parents[n]
            if isinstance(par, ast.If) and n in par.orelse and len(par.orelse) == 1:
                continue
            chains.append(n)
    if len(chains) != 1:
        raise AnalysisError(f"run_test: expected one verdict if-chain over counter[...], found {len(chains)}")
    return m, fn, chains[0]


def r05_1_pass_dominance(repo: Repo, rep: Report):
    rep.rule("R05.1", "exitcode PASS is assigned only under the negation of sat/err/unknown/stuck/no-normal guards")
    m, fn, chain = _verdict_chain(repo)
    f = Folder(repo, "__main__")
    n_pass = 0
    for st in body_walk(fn):
        if isinstance(st, ast.Assign) and any(src(t) == "exitcode" for t in st.targets):
            v = f.fold(st.value)
            if v is UNKNOWN:
                rep.bad("R05.1", m, st, src(st), "exitcode assigned a value the checker cannot fold")
                continue
            if v != 0:
                continue
            n_pass += 1
            gs = guard_set(m, st)
            missing = [g for g in FAIL_GUARDS if not (_neg_forms(g) & gs)]
            rep.check("R05.1", not missing, m, st, f"{src(st)}  under {sorted(gs)}", f"PASS reachable without excluding: {missing}")
    if n_pass == 0:
        raise AnalysisError("R05.1: no assignment of the PASS exit code found in run_test")
    # the value that leaves run_test is that variable
    trs = [c for c in method_calls(fn, "TestResult")]
    for c in trs:
        ok = len(c.args) >= 2 and src(c.args[1]) == "exitcode"
        rep.check("R05.1", ok, m, c, src(c)[:120], "TestResult must carry the computed exitcode")
    if not trs:
        raise AnalysisError("R05.1: run_test builds no TestResult")
    # counter is built from all solver outputs, keyed by str(result)
    cs = [v for n in body_walk(fn) if isinstance(n, ast.Assign) and src(n.targets[0]) == "counter" for v in [n.value]]
    ok = len(cs) == 1 and isinstance(cs[0], ast.Call) and call_name(cs[0]) == "Counter" and "str(m.result) for m in ctx.solver_outputs" in src(cs[0]) and " if " not in src(cs[0])
    rep.check("R05.1", ok, m, cs[0] if cs else fn, src(cs[0]) if cs else "counter = ?", "counter must be Counter(str(m.result) for every m in ctx.solver_outputs), unfiltered")


def r05_2_precedence(repo: Repo, rep: Report):
    rep.rule("R05.2", "first-match order sat > err > unknown (> stuck > no-normal); Exitcode values distinct, only PASS is 0")
    m, fn, chain = _verdict_chain(repo)
    arms = if_chain(chain)
    order = []
    for test, body in arms:
        t = src(test) if test is not None else "<else>"
        for key in ("'sat'", "'err'", "'unknown'", "stuck", "normal"):
            if key in t:
                order.append(key.strip("'"))
                break
        else:
            order.append(t)
    want = ["sat", "err", "unknown"]
    pos = [order.index(k) if k in order else -1 for k in want]
    ok = all(p >= 0 for p in pos) and pos == sorted(pos)
    rep.check("R05.2", ok, m, chain, f"verdict chain order: {order}", "solver-derived outcomes must be tested in the order sat, err, unknown")
    # non-PASS arms come before the else and assign non-zero codes
    f = Folder(repo, "__main__")
    expected = {"sat": "COUNTEREXAMPLE", "err": "EXCEPTION", "unknown": "TIMEOUT", "stuck": "STUCK", "normal": "REVERT_ALL"}
    _, ex_cls = repo.cls("__main__.Exitcode")
    codes = class_consts(repo, "__main__", ex_cls)
    for (test, body), name in zip(arms, order):
        vals = [f.fold(s.value) for s in body if isinstance(s, ast.Assign) and src(s.targets[0]) == "exitcode"]
        if test is None:
            continue
        want_code = codes.get(expected.get(name, ""), None)
        ok = len(vals) == 1 and vals[0] is not UNKNOWN and vals[0] != 0 and (want_code is None or vals[0] == want_code)
        rep.check("R05.2", ok, m, test, f"if {src(test)}: exitcode = {vals}", f"arm must assign the non-zero code Exitcode.{expected.get(name)}")
    vals = [v for v in codes.values() if isinstance(v, int)]
    ok = len(vals) == len(set(vals)) and codes.get("PASS") == 0 and vals.count(0) == 1
    rep.check("R05.2", ok, m, ex_cls, f"Exitcode = {codes}", "Exitcode members must be distinct and only PASS may be 0")
    for nm in ("PASS", "COUNTEREXAMPLE"):
        v = repo.const("__main__", nm)
        rep.check("R05.2", v == codes.get(nm), m, m.tree, f"{nm} = {v}", f"module constant {nm} must equal Exitcode.{nm}.value")


def _result_of(call: ast.Call):
    r = kwarg(call, "result")
    if r is None and call.args:
        r = call.args[0]
    return r


def r05_3_failure_mapping(repo: Repo, rep: Report):
    rep.rule("R05.3", "SolverOutput(unsat) only from an 'unsat' first line or an unsat-core hit; handlers/default map to err/unknown")
    # what is matched against 'sat' / 'unsat' / 'unknown' is the whole first line of the solver's output - not a word
    # found somewhere in it (an `(error "... unsat core is not available")` reply would then read as unsat)
    ms, fr = repo.fn("solve.SolverOutput.from_result")
    subj = [mt.subject for mt in body_walk(fr) if isinstance(mt, ast.Match)]
    fl = [src(v) for v in find_assign(fr, "first_line")]
    nl = [src(v) for v in find_assign(fr, "newline_idx")]
    forms = (
        (fl == ["stdout[:newline_idx] if newline_idx != -1 else stdout"] and nl == ["stdout.find('\\n')"])
        or fl in (["stdout.partition('\\n')[0]"], ["stdout.split('\\n', 1)[0]"], ["stdout.split('\\n')[0]"])
    )
    ok = len(subj) == 1 and src(subj[0]) == "first_line" and forms
    rep.check("R05.3", ok, ms, fr, f"from_result matches on {[src(x) for x in subj]}; first_line = {fl}", "the verdict word must be the complete first line of stdout")
    n = 0
    for modname in ("solve", "__main__"):
        m = repo.mod(modname)
        for c in ast.walk(m.tree):
            if not (isinstance(c, ast.Call) and call_name(c) == "SolverOutput"):
                continue
            n += 1
            r = _result_of(c)
            rtxt = src(r)
            gs = guard_set(m, c)
            # enclosing match-case / except handler
            case_pat, handler = None, None
            for a in m.ancestors(c):
                if isinstance(a, ast.match_case) and case_pat is None:
                    case_pat = src(a.pattern)
                if isinstance(a, ast.ExceptHandler) and handler is None:
                    handler = src(a.type) if a.type else "<bare>"
            if rtxt == "unsat":
                ok = case_pat == "'unsat'" or any(g.startswith("check_unsat_cores(") for g in gs)
                rep.check("R05.3", ok, m, c, f"{src(c)[:90]}  [case={case_pat}, guards={sorted(gs)[:2]}]", "unsat constructed outside `case 'unsat'` / an unsat-core hit")
            elif handler is not None:
                ok = (rtxt == "unknown" and "TimeoutExpired" in handler) or rtxt == "'err'"
                rep.check("R05.3", ok, m, c, f"except {handler}: {src(c)[:80]}", "an exception handler may only produce 'err' (or unknown for TimeoutExpired)")
            elif case_pat is not None:
                want = {"'sat'": "sat", "'unknown'": "unknown", "_": "'err'"}.get(case_pat)
                rep.check("R05.3", want is not None and rtxt == want, m, c, f"case {case_pat}: {src(c)[:80]}", f"case {case_pat} must produce {want}")
            else:
                ok = rtxt in ("'err'", "unknown", "sat")
                rep.check("R05.3", ok, m, c, src(c)[:100], "unexpected SolverOutput result")
    rep.floor("R05.3", 6, "SolverOutput constructor sites")
    # from_result: match subject is the first stdout line and there is a default arm
    m, fr = repo.fn("solve.SolverOutput.from_result")
    matches = [s for s in body_walk(fr) if isinstance(s, ast.Match)]
    if len(matches) != 1:
        raise AnalysisError("from_result: expected one match statement")
    mt = matches[0]
    pats = [src(c.pattern) for c in mt.cases]
    ok = src(mt.subject) == "first_line" and pats[-1] == "_" and set(pats) >= {"'unsat'", "'sat'", "'unknown'", "_"}
    rep.check("R05.3", ok, m, mt, f"match {src(mt.subject)}: cases {pats}", "from_result must dispatch on the first line with a default arm")
    fl = [s for s in body_walk(fr) if isinstance(s, ast.Assign) and src(s.targets[0]) == "first_line"]
    ok = bool(fl) and "stdout" in src(fl[0].value)
    rep.check("R05.3", ok, m, fl[0] if fl else fr, src(fl[0]) if fl else "first_line = ?", "first_line must be derived from stdout")
    # timeout -> unknown: the handler around future.result() in solve_low_level
    m, sl = repo.fn("solve.solve_low_level")
    hs = [h for s in body_walk(sl) if isinstance(s, ast.Try) for h in s.handlers]
    th = [h for h in hs if h.type is not None and "TimeoutExpired" in src(h.type)]
    ok = False
    for h in th:
        rets = [r for r in ast.walk(h) if isinstance(r, ast.Return)]
        ok = bool(rets) and all(isinstance(r.value, ast.Call) and src(_result_of(r.value)) == "unknown" for r in rets)
    rep.check("R05.3", ok, m, th[0] if th else sl, "except subprocess.TimeoutExpired: return SolverOutput(result=unknown, ...)", "a solver timeout must be reported as unknown")
    # _get_solver_output: every return is from_error(...) or future.result()
    m, gso = repo.fn("__main__.CounterexampleHandler._get_solver_output")
    for r in body_walk(gso):
        if isinstance(r, ast.Return):
            t = src(r.value)
            in_handler = any(isinstance(a, ast.ExceptHandler) for a in m.ancestors(r))
            ok = t.startswith("SolverOutput.from_error(") or (t == "future.result()" and not in_handler)
            rep.check("R05.3", ok, m, r, src(r)[:100], "_get_solver_output may only return from_error(...) or future.result()")
    m, fe = repo.fn("solve.SolverOutput.from_error")
    cs = [c for c in method_calls(fe, "SolverOutput")]
    ok = bool(cs) and all(src(_result_of(c)) == "'err'" for c in cs)
    rep.check("R05.3", ok, m, fe, "from_error -> SolverOutput(result='err', ...)", "from_error must produce 'err'")


def r05_4_order_independence(repo: Repo, rep: Report):
    rep.rule("R05.4", "verdict reads solver_outputs via order-insensitive aggregates after thread_pool.shutdown(wait=True); early-exit shutdown follows the append")
    m, fn = repo.fn("__main__.run_test")
    joins = [c for c in method_calls(fn, "shutdown") if "thread_pool" in dotted(c.func)]
    if not joins:
        rep.bad("R05.4", m, fn, "ctx.thread_pool.shutdown(wait=True)", "run_test never joins the solver thread pool")
        return
    join = joins[0]
    w = kwarg(join, "wait")
    ok = (w is None and not join.args) or (w is not None and fold_in(repo, "__main__", w) is True)
    rep.check("R05.4", ok, m, join, src(join), "the join barrier must wait")
    jstmt = stmt_of(m, join)
    ok = jstmt in fn.body
    rep.check("R05.4", ok, m, join, "join barrier is an unconditional top-level statement of run_test", "the join barrier is conditional")
    # all reads of ctx.solver_outputs / counterexample lists come after the barrier
    reads = [n for n in body_walk(fn) if isinstance(n, ast.Attribute) and n.attr in ("solver_outputs", "valid_counterexamples", "invalid_counterexamples")]
    if not any(n.attr == "solver_outputs" for n in reads):
        raise AnalysisError("R05.4: run_test does not read ctx.solver_outputs")
    for n in reads:
        st = stmt_of(m, n)
        top = st
        while m.parents[top] is not fn:
            top = m.parents[top]
        ok = ok and fn.body.index(top) > fn.body.index(jstmt) if jstmt in fn.body else False
        after = jstmt in fn.body and fn.body.index(top) > fn.body.index(jstmt)
        # order-insensitive use
        par = m.parents[n]
        agg = False
        for a in m.ancestors(n):
            if isinstance(a, ast.Call) and call_name(a) in ("Counter", "len", "sum", "any", "all", "set", "sorted"):
                agg = True
                break
            if isinstance(a, ast.stmt):
                break
        listy = isinstance(par, ast.BinOp) and isinstance(par.op, ast.Add)  # models list for display
        rep.check("R05.4", after and (agg or listy), m, n, f"{src(st)[:100]}", "solver results read before the join barrier or in an order-sensitive way")
    # callback: append before any return
    mm, cb = repo.fn("__main__.CounterexampleHandler._solve_end_to_end_callback")

    def transfer(node, state):
        for c in ast.walk(node) if not isinstance(node, (ast.FunctionDef, ast.ClassDef)) else []:
            if isinstance(c, ast.Call) and last_attr(c) == "append" and "solver_outputs" in dotted(c.func):
                return [("appended",)]
        return []

    out = function_exits(cb, transfer, calls_raise=False)
    states = normal_exit_states(out)
    ok = bool(states) and all(("appended",) in s for s in states)
    rep.check("R05.4", ok, mm, cb, "every normal exit of _solve_end_to_end_callback passes ctx.solver_outputs.append(solver_output)", "a callback path returns without recording the solver output")
    apps = [c for c in method_calls(cb, "append") if "solver_outputs" in dotted(c.func)]
    for a in apps:
        ok = len(a.args) == 1 and src(a.args[0]) == "solver_output" and not guard_set(mm, a, silent=True)
        rep.check("R05.4", ok, mm, a, src(a), "the solver output must be appended unconditionally")
    so = [s for s in body_walk(cb) if isinstance(s, (ast.Assign, ast.AnnAssign)) and src(s.targets[0] if isinstance(s, ast.Assign) else s.target) == "solver_output"]
    ok = bool(so) and "_get_solver_output(future, path_ctx)" in src(so[0].value)
    rep.check("R05.4", ok, mm, so[0] if so else cb, src(so[0]) if so else "solver_output = ?", "solver_output must come from _get_solver_output(future, path_ctx)")
    # early exit
    shut = [c for c in method_calls(cb, "shutdown")]
    for c in shut:
        gs = guard_set(mm, c)
        w = kwarg(c, "wait")
        line_ok = apps and c.lineno > apps[0].lineno
        ok = "model.is_valid" in gs and "args.early_exit" in gs and line_ok
        rep.check("R05.4", ok, mm, c, f"{src(c)} under {sorted(gs)}", "early-exit shutdown must follow the append and require a valid model and --early-exit")


def r05_5_exit_code(repo: Repo, rep: Report):
    rep.rule("R05.5", "process exit code: failed = found - passed; 0 iff no failure; exceptions become non-PASS results")
    m, fn = repo.fn("__main__._main")

    def assign(name):
        return [s for s in body_walk(fn) if isinstance(s, (ast.Assign, ast.AugAssign)) and src(s.targets[0] if isinstance(s, ast.Assign) else s.target) == name]

    np_ = [s for s in assign("num_passed") if isinstance(s, ast.Assign)]
    ok = len(np_) == 1 and src(np_[0].value) in ("sum((r.exitcode == PASS for r in test_results))", "sum([r.exitcode == PASS for r in test_results])")
    rep.check("R05.5", ok, m, np_[0] if np_ else fn, src(np_[0]) if np_ else "num_passed = ?", "num_passed must count exitcode == PASS over all results")
    nf = [s for s in assign("num_failed") if isinstance(s, ast.Assign)]
    ok = len(nf) == 1 and src(nf[0].value) == "num_found - num_passed"
    rep.check("R05.5", ok, m, nf[0] if nf else fn, src(nf[0]) if nf else "num_failed = ?", "num_failed must be the complement num_found - num_passed")
    nfound = [s for s in assign("num_found") if isinstance(s, ast.Assign)]
    ok = len(nfound) == 1 and src(nfound[0].value) == "len(funsigs)"
    rep.check("R05.5", ok, m, nfound[0] if nfound else fn, src(nfound[0]) if nfound else "num_found = ?", "num_found must be len(funsigs)")
    tf = assign("total_failed")
    augs = [s for s in tf if isinstance(s, ast.AugAssign)]
    ok = len(augs) == 1 and isinstance(augs[0].op, ast.Add) and src(augs[0].value) == "num_failed" and not guard_set(m, augs[0]) - {g for g in guard_set(m, np_[0])} if np_ else False
    rep.check("R05.5", bool(ok), m, augs[0] if augs else fn, src(augs[0]) if augs else "total_failed += ?", "total_failed must accumulate num_failed for every contract that ran")
    ec = [s for s in assign("exitcode") if isinstance(s, ast.Assign) and m.enclosing_func(s) is fn]
    ok = False
    for s in ec:
        v = s.value
        if isinstance(v, ast.IfExp):
            f0 = Folder(repo, "__main__", {"total_failed": 0}).fold(v)
            f1 = Folder(repo, "__main__", {"total_failed": 1}).fold(v)
            f7 = Folder(repo, "__main__", {"total_failed": 7}).fold(v)
            ok = f0 == 0 and f1 not in (0, UNKNOWN) and f7 not in (0, UNKNOWN)
            rep.check("R05.5", ok, m, s, src(s), "exit code must be 0 iff total_failed == 0")
    if not ec:
        raise AnalysisError("R05.5: final exit code assignment not found")
    rets = [r for r in body_walk(fn) if isinstance(r, ast.Return) and r.value is not None]
    for r in rets:
        t = src(r.value)
        if t == "on_exit(exitcode)":
            rep.ok("R05.5", m, r, src(r))
            continue
        if isinstance(r.value, ast.Call) and call_name(r.value) == "MainResult" and r.value.args:
            v = fold_in(repo, "__main__", r.value.args[0])
            gs = guard_set(m, r)
            ok = (v not in (0, UNKNOWN)) or (v == 0 and "args.version" in gs)
            rep.check("R05.5", ok, m, r, f"{src(r)} under {sorted(gs)}", "an early return with exit code 0 is only allowed for --version")
        else:
            rep.bad("R05.5", m, r, src(r), "unrecognised return of _main")
    mm, main = repo.fn("__main__.main")
    ok = any(isinstance(n, ast.Attribute) and n.attr == "exitcode" and src(n.value) == "_main()" for n in ast.walk(main))
    rep.check("R05.5", ok, mm, main, "main() returns _main().exitcode", "main must return the computed exit code")
    # run_tests: an exception in a test is a non-PASS result
    mm, rt = repo.fn("__main__.run_tests")
    hs = [h for s in body_walk(rt) if isinstance(s, ast.Try) for h in s.handlers]
    f = Folder(repo, "__main__")
    ok = False
    for h in hs:
        for c in ast.walk(h):
            if isinstance(c, ast.Call) and call_name(c) == "TestResult" and len(c.args) >= 2:
                v = f.fold(c.args[1])
                inside_append = any(isinstance(a, ast.Call) and last_attr(a) == "append" and "test_results" in dotted(a.func) for a in mm.ancestors(c))
                ok = v not in (0, UNKNOWN) and inside_append
    rep.check("R05.5", ok, mm, rt, "run_tests: except Exception -> test_results.append(TestResult(funsig, Exitcode.EXCEPTION.value))", "an exception while running a test must produce a non-PASS TestResult")
    # and the handler must not swallow without a result: every handler appends
    for h in hs:
        app = any(isinstance(c, ast.Call) and last_attr(c) == "append" and "test_results" in dotted(c.func) for c in ast.walk(h))
        rep.check("R05.5", app, mm, h, f"except {src(h.type) if h.type else ''}: ... test_results.append(...)", "handler drops the test without recording a result")
    mm, rc = repo.fn("__main__.run_contract")
    hs = [h for s in body_walk(rc) if isinstance(s, ast.Try) for h in s.handlers]
    for h in hs:
        rets_h = [r for r in ast.walk(h) if isinstance(r, ast.Return)]
        ok = bool(rets_h) and all(src(r.value) == "[]" for r in rets_h)
        rep.check("R05.5", ok, mm, h, "run_contract: setUp failure -> return []  (all found tests count as failed)", "setUp failure must yield no passing results")


def r05_7_output_recorded_first(repo: Repo, rep: Report):
    rep.rule("R05.7", "the solver callback records the output unconditionally, before anything that can fail (exceptions in done-callbacks are swallowed)")
    m, fn = repo.fn("__main__.CounterexampleHandler._solve_end_to_end_callback")
    apps = [c for c in body_walk(fn) if isinstance(c, ast.Call) and src(c.func).endswith("solver_outputs.append")]
    if len(apps) != 1:
        raise AnalysisError("_solve_end_to_end_callback: solver_outputs.append not found exactly once")
    st = stmt_of(m, apps[0])
    top = st in fn.body and not guard_set(m, apps[0])
    rep.check("R05.7", top and [src(a) for a in apps[0].args] == ["solver_output"], m, apps[0], f"{src(apps[0])} unconditional at the top level of the callback", "an output that is recorded only on some paths (or after an early return) is missing from the verdict")
    if top:
        k = fn.body.index(st)
        before = []
        for x in fn.body[:k]:
            if isinstance(x, ast.Expr) and isinstance(x.value, ast.Constant):
                continue  # docstring
            ok_stmt = isinstance(x, (ast.Assign, ast.AnnAssign)) and not any(isinstance(c, ast.Call) and src(c.func) != "self._get_solver_output" for c in ast.walk(x))
            # debug-level logging is not counted (treated as a diagnostic everywhere in this framework)
            ok_stmt = ok_stmt or (isinstance(x, ast.Expr) and isinstance(x.value, ast.Call) and src(x.value.func) in ("debug", "debug_once", "logger.debug", "logging.debug"))
            if not ok_stmt:
                before.append(x)
        rep.check("R05.7", not before, m, before[0] if before else st, f"before the append only bindings and _get_solver_output(..): {[src(x)[:40] for x in before]}", "something that can raise (file bookkeeping, logging of the failed query) runs before the output is recorded: if it raises, the exception is swallowed by the future's callback machinery and a crashed / timed-out solver output never reaches the verdict (PASS)")


def r05_6_shared(repo: Repo, rep: Report):
    """stuck-path confirmation (keep unless unsat) and soundness of the solver-free `unsat` from the core cache"""
    from hsa.rules.c16 import r16_1_core_recording, r16_2_subset_test
    from hsa.rules.verdicts import check_verdict_sites

    rep.rule("R02.1", "stuck-path / setUp filters keep a path unless the solver says unsat (shared with C02)")
    check_verdict_sites(repo, rep, "R02.1", modules=("__main__",), only_functions={"__main__.run_test", "__main__.setup"})
    rep.rule("R16.1", "cores recorded only for unsat with a non-empty core (shared with C16)")
    rep.rule("R16.2", "cache hit needs all ids of a core (shared with C16)")
    r16_1_core_recording(repo, rep)
    r16_2_subset_test(repo, rep)
    # what a (crashed, truncated, timed out) solver reply is turned into feeds the verdict: the core reader must not
    # accept a partial reply
    from hsa.rules.c11 import r11_3_dump_writer_reader

    rep.rule("R11.3", "solver reply readers: complete `unsat (...)` only (shared with C11)")
    r11_3_dump_writer_reader(repo, rep)
    # an `unsat` that counts toward PASS must answer the path's own, complete query, with every constraint tracked when
    # cores are learned from it (shared with C11)
    from hsa.rules.c11 import r11_1_serialisation

    rep.rule("R11.1", "serialisation is complete, ids are term ids (shared with C11)")
    r11_1_serialisation(repo, rep)
    # which counter a finished path lands in (stuck / normal / violation) is the per-path outcome the verdict aggregates
    from hsa.rules.c03 import r03_1_classification

    r03_1_classification(repo, rep)
    from hsa.rules.c10 import r10_1_cut_report_pairing

    r10_1_cut_report_pairing(repo, rep)  # includes what `stuck` means (CallContext.is_stuck)
    # a solver call that timed out must surface as `unknown` (-> TIMEOUT), whatever it printed before it was killed
    from hsa.rules.c17 import r17_1_exactly_once, r17_2_timeout_unknown

    r17_1_exactly_once(repo, rep)
    r17_2_timeout_unknown(repo, rep)
    # under --early-exit, what a killed solver had printed so far must not reach the verdict (shared with C04)
    from hsa.rules.c04 import r04_6_results_during_shutdown

    r04_6_results_during_shutdown(repo, rep)


RULES = [r05_1_pass_dominance, r05_2_precedence, r05_3_failure_mapping, r05_4_order_independence, r05_5_exit_code, r05_6_shared, r05_7_output_recorded_first]
