"""C08 — storage reads return the last write to the same slot; no aliasing."""

from __future__ import annotations

import ast

from hsa.core import AnalysisError, Repo, Report, body_walk, call_name, dotted, find_assign, kwarg, last_attr, src
from hsa.fold import UNKNOWN, fold_in
from hsa.keccak import keccak_int
from hsa.rules.common import guard_set, if_chain, method_calls
from hsa.rules.verdicts import check_verdict_sites

EXPLANATION = (
    "Decides, exhaustively over the precomputed tables: every keccak256_256 key is the Keccak-256 hash of its "
    "32-byte value (256 entries) and every keccak256_512 key is the hash of its 64-byte pair (512 entries), no "
    "two keys share an OffsetMap bucket (key >> 16), EMPTY_KECCAK is the hash of the empty string, and "
    "OffsetMap's shift/mask/delta arithmetic is self-consistent; the two storage layouts decode a location "
    "through the same recognisers (normalise first; hash of 512 bits, other hashes, additions, concrete values "
    "through the reverse lookup) and load/store of each layout derive the key through the same function, "
    "initialise first and index the same mapping entry; the SMT array name mentions every component of the "
    "mapping key; a store chain is skipped only on `unsat`; transient storage starts empty in every "
    "transaction and sload/sstore select the map by the transient flag only. Alias resolution for symbolic keys "
    "(values) is not decided."
    ' Round 4: every computed keccak is registered (C01 R01.4), since both layouts recognise a location through that registry.'
    ' Round 5: rollback pairing of sub-frames (C09 R09.1) and the etch effect (C14 R14.2) are evaluated here too.'
)
ASSUMPTIONS = ["Keccak-256 implementation in hsa/keccak.py (self-checked against known vectors and two in-repo constants)", "z3 Store/Select semantics"]


def _dict_literal(m, name):
    for st in m.tree.body:
        tgt = st.target if isinstance(st, ast.AnnAssign) else (st.targets[0] if isinstance(st, ast.Assign) else None)
        if tgt is not None and src(tgt) == name and isinstance(st.value, ast.Dict):
            return st.value
    raise AnalysisError(f"{m.name}.{name}: dict literal not found")


def r08_1_precomputed_tables(repo: Repo, rep: Report):
    rep.rule("R08.1", "precomputed keccak tables are exact; buckets unique; EMPTY_KECCAK; OffsetMap arithmetic consistent")
    from hsa.keccak import self_check

    self_check()
    m = repo.mod("hashes")
    t256 = _dict_literal(m, "keccak256_256")
    t512 = _dict_literal(m, "keccak256_512")
    buckets = {}
    bad = 0
    n = 0
    for k, v in zip(t256.keys, t256.values):
        kk, vv = fold_in(repo, "hashes", k), fold_in(repo, "hashes", v)
        n += 1
        ok = isinstance(kk, int) and isinstance(vv, int) and 0 <= vv < 2**256 and keccak_int(vv.to_bytes(32, "big")) == kk
        if not ok:
            bad += 1
            rep.bad("R08.1", m, k, f"keccak256_256[{src(k)[:22]}...] = {src(v)}", "key is not keccak256(uint256(value)): a storage slot written through this constant would alias another location")
        if isinstance(kk, int):
            b = kk >> 16
            if b in buckets:
                rep.bad("R08.1", m, k, f"bucket {b:#x} shared by {buckets[b]} and keccak256_256[{vv}]", "two precomputed hashes share an OffsetMap bucket: one shadows the other in reverse lookups")
            buckets[b] = f"keccak256_256[{vv}]"
    rep.check("R08.1", bad == 0 and n >= 256, m, t256, f"keccak256_256: {n} entries verified by hashing", "table incomplete or wrong")
    rep.table("keccak256_256", n)
    bad = 0
    n2 = 0
    for k, v in zip(t512.keys, t512.values):
        kk, vv = fold_in(repo, "hashes", k), fold_in(repo, "hashes", v)
        n2 += 1
        ok = isinstance(kk, int) and isinstance(vv, tuple) and len(vv) == 2 and all(isinstance(x, int) and 0 <= x < 2**256 for x in vv) and keccak_int(vv[0].to_bytes(32, "big") + vv[1].to_bytes(32, "big")) == kk
        if not ok:
            bad += 1
            rep.bad("R08.1", m, k, f"keccak256_512[{src(k)[:22]}...] = {src(v)}", "key is not keccak256(abi.encode(a, b))")
        if isinstance(kk, int):
            b = kk >> 16
            if b in buckets:
                rep.bad("R08.1", m, k, f"bucket {b:#x} shared by {buckets[b]} and keccak256_512{vv}", "two precomputed hashes share an OffsetMap bucket")
            buckets[b] = f"keccak256_512{vv}"
    rep.check("R08.1", bad == 0 and n2 >= 512, m, t512, f"keccak256_512: {n2} entries verified by hashing", "table incomplete or wrong")
    rep.table("keccak256_512", n2)
    rep.table("OffsetMap buckets", len(buckets))
    ms = repo.mod("sevm")
    ek = repo.const("sevm", "EMPTY_KECCAK")
    rep.check("R08.1", ek == keccak_int(b""), ms, ms.tree, f"EMPTY_KECCAK = {ek:#x}", "must be keccak256('')")
    # registry construction
    mu, mk = repo.fn("utils.mk_precomputed_keccak_registry")
    t = src(mk)
    ok = "for k, v in keccak256_256.items():\n        m[k] = f_sha3_256(con(v))" in t and "for k, (v1, v2) in keccak256_512.items():\n        m[k] = f_sha3_512(con((v1 << 256) + v2, size_bits=512))" in t
    rep.check("R08.1", ok, mu, mk, "registry: k -> f_sha3_256(v); k -> f_sha3_512(v1 || v2) (v1 in the high half)", "precomputed hashes registered with the wrong preimage term")
    # OffsetMap arithmetic
    _, init = repo.fn("utils.OffsetMap.__init__")
    _, gi = repo.fn("utils.OffsetMap.__getitem__")
    _, si = repo.fn("utils.OffsetMap.__setitem__")
    ti, tg, ts = src(init), src(gi), src(si)
    ok = "self._mask = (1 << offset_bits) - 1" in ti and "self._offset_bits = offset_bits" in ti
    rep.check("R08.1", ok, mu, init, "OffsetMap: mask = (1 << offset_bits) - 1", "mask and shift disagree")
    ok = "self._map.get(key >> self._offset_bits, (None, None))" in tg and "delta = (key & self._mask) - offset" in tg and "return (value, delta)" in tg
    rep.check("R08.1", ok, mu, gi, "lookup: bucket = key >> bits; delta = (key & mask) - stored offset", "reverse lookup returns the wrong delta")
    ok = "raw_key = key >> self._offset_bits" in ts and "raw_value = (value, key & self._mask)" in ts and "self._map[raw_key] = raw_value" in ts
    rep.check("R08.1", ok, mu, si, "store: bucket = key >> bits; offset = key & mask", "stored offset disagrees with the lookup")
    _, rl = repo.fn("sevm.KeccakRegistry.reverse_lookup")
    t = src(rl)
    ok = t.count("return expr + delta if delta else expr") == 2 and "self._hash_values[hash_value]" in t and "precomputed_keccak_registry[hash_value]" in t and t.rstrip().endswith("return None")
    rep.check("R08.1", ok, ms, rl, "reverse_lookup: local registry, then precomputed; returns expr + delta", "reverse lookup must return the hash term plus the offset")
    _, rg = repo.fn("sevm.KeccakRegistry.register")
    t = src(rg)
    ok = "hash_value = int.from_bytes(hash_value)" in t and "self._hash_values[hash_value] = expr" in t
    rep.check("R08.1", ok, ms, rg, "register: concrete hash value -> hash term", "registered under the wrong key")


def _arm_kinds(m, fn, repo):
    """sequence of recogniser kinds of the decode() if-chain"""
    heads = [i for i in fn.body if isinstance(i, ast.If)]
    kinds = []
    if not heads:
        return kinds
    for test, body in if_chain(heads[0]):
        if test is None:
            kinds.append(("else", body))
            continue
        t = src(test)
        if t == "loc.decl().name() == f_sha3_512_name":
            kinds.append(("sha3_512", body))
        elif t == "loc.decl().name() == f_sha3_256_name":
            kinds.append(("sha3_256", body))
        elif t == "is_f_sha3_name(loc.decl().name())":
            kinds.append(("sha3_any", body))
        elif t == "loc.decl().name() == 'bvadd'":
            kinds.append(("bvadd", body))
        elif t == "is_bv_value(loc)":
            kinds.append(("value", body))
        else:
            kinds.append((t, body))
    return kinds


def r08_2_decode_siblings(repo: Repo, rep: Report):
    rep.rule("R08.2", "both layouts decode a location through the same recognisers and recurse on the reverse lookup")
    m = repo.mod("sevm")
    res = {}
    for cls in ("SolidityStorage", "GenericStorage"):
        _, fn = repo.fn(f"sevm.{cls}.decode")
        first = fn.body[0]
        ok = isinstance(first, ast.Assign) and src(first) == "loc = normalize(loc)"
        rep.check("R08.2", ok, m, first, f"{cls}.decode: loc = normalize(loc) first", "a location must be normalised before it is recognised (Concat/Extract re-association)")
        kinds = _arm_kinds(m, fn, repo)
        res[cls] = kinds
        names = [k for k, _ in kinds]
        want = ["sha3_512", "sha3_256", "sha3_any", "bvadd", "value"] if cls == "SolidityStorage" else ["sha3_512", "sha3_any", "bvadd", "value"]
        rep.check("R08.2", names == want, m, fn, f"{cls}.decode recognisers: {names}", f"expected {want}: a location shape is no longer recognised (or recognised in the wrong order)")
        d = dict(kinds)
        if "value" in d:
            t = "\n".join(src(s) for s in d["value"])
            ok = "orig_term = ex.sha3s.reverse_lookup(loc.as_long())" in t and "return cls.decode(ex, orig_term)" in t and "if orig_term is not None:" in t
            rep.check("R08.2", ok, m, d["value"][0], f"{cls}.decode: concrete value -> reverse lookup -> decode the hash term", "a precomputed/registered hash constant must be decoded like the hash term it stands for")
        if "bvadd" in d:
            t = "\n".join(src(s) for s in d["bvadd"])
            ok = "args = loc.children()" in t and "if len(args) < 2:" in t
            rep.check("R08.2", ok, m, d["bvadd"][0], f"{cls}.decode: additions decode every operand", "operands of an addition dropped")
        tail = fn.body[-1]
        ok = isinstance(tail, ast.If) and src(tail.test) == "is_bv(loc)" and any(isinstance(s, ast.Raise) for s in tail.orelse)
        rep.check("R08.2", ok, m, tail, f"{cls}.decode: falls back to the bit-vector itself, else raises", "unrecognised locations must decode to themselves or raise")
    # Solidity layout specifics: m[k] -> (base..., key, 0); a[i] -> (base..., 0)
    d = dict(res["SolidityStorage"])
    t = "\n".join(src(s) for s in d.get("sha3_512", []))
    ok = "offset = simplify(Extract(511, 256, args))" in t and "base = simplify(Extract(255, 0, args))" in t and "return cls.decode(ex, base) + (offset, Z3_ZERO)" in t
    rep.check("R08.2", ok, m, d["sha3_512"][0] if d.get("sha3_512") else m.tree, "mapping: hash(key . slot) -> decode(slot) + (key, 0)", "mapping key/slot halves swapped or offset missing")
    t = "\n".join(src(s) for s in d.get("sha3_256", []))
    ok = "return cls.decode(ex, base) + (Z3_ZERO,)" in t and "base = loc.arg(0)" in t
    rep.check("R08.2", ok, m, d["sha3_256"][0] if d.get("sha3_256") else m.tree, "array: hash(slot) -> decode(slot) + (0,)", "dynamic array base decoded wrongly")
    t = "\n".join(src(s) for s in d.get("bvadd", []))
    ok = "key=lambda x: len(x)" in t and "reverse=True" in t and "if len(args[1]) > 1:" in t and "return args[0][0:-1] + (reduce(lambda r, x: r + x[0], args[1:], args[0][-1]),)" in t
    rep.check("R08.2", ok, m, d["bvadd"][0] if d.get("bvadd") else m.tree, "addition: offsets are summed into the last component of the single structured operand; two structured operands are ambiguous -> raise", "offset arithmetic on storage locations changed (reordered additions must denote the same slot)")
    g = dict(res["GenericStorage"])
    t = "\n".join(src(s) for s in g.get("sha3_512", []))
    ok = "hi = cls.decode(ex, simplify(Extract(511, 256, args)))" in t and "lo = cls.decode(ex, simplify(Extract(255, 0, args)))" in t and "return cls.simple_hash(Concat(hi, lo))" in t
    rep.check("R08.2", ok, m, g["sha3_512"][0] if g.get("sha3_512") else m.tree, "generic: hash(hi, lo) -> simple_hash(decode(hi) . decode(lo))", "generic layout hash decoding changed")
    _, sh = repo.fn("sevm.GenericStorage.simple_hash")
    rep.check("R08.2", "simplify(Concat(x, con(0, 257)))" in src(sh), m, sh, "simple_hash(x) = x . 0^257 (injective, disjoint from small offsets)", "injective stand-in for the hash changed")
    _, aa = repo.fn("sevm.GenericStorage.add_all")
    t = src(aa)
    ok = "bitsize = max([x.size() for x in args])" in t and "ZeroExt(bitsize - x.size(), x)" in t and "res += x" in t
    rep.check("R08.2", ok, m, aa, "add_all: zero-extend to the widest operand and sum all", "generic addition drops or mis-extends an operand")


def r08_3_load_store_agreement(repo: Repo, rep: Report):
    rep.rule("R08.3", "load and store of each layout derive the key the same way, init first, index the same entry; array names mention every key component")
    m = repo.mod("sevm")
    # solidity
    _, ld = repo.fn("sevm.SolidityStorage.load")
    _, stf = repo.fn("sevm.SolidityStorage.store")
    for nm, fn in (("load", ld), ("store", stf)):
        ks = [s for s in fn.body if isinstance(s, ast.Assign) and "cls.get_key_structure(ex, loc)" in src(s.value)]
        ok = len(ks) == 1 and src(ks[0].targets[0]) in ("(slot, keys, num_keys, size_keys)", "slot, keys, num_keys, size_keys")
        rep.check("R08.3", ok, m, ks[0] if ks else fn, f"SolidityStorage.{nm}: (slot, keys, num_keys, size_keys) = get_key_structure(ex, loc)", "load and store must derive the key structure through the same function")
        ini = [c for c in body_walk(fn) if isinstance(c, ast.Call) and dotted(c.func) == "cls.init"]
        ok = len(ini) == 1 and [src(a) for a in ini[0].args] == ["ex", "storage", "addr", "slot", "keys", "num_keys", "size_keys"] and (not ks or ini[0].lineno > ks[0].lineno)
        rep.check("R08.3", ok, m, ini[0] if ini else fn, f"SolidityStorage.{nm}: cls.init(ex, storage, addr, slot, keys, num_keys, size_keys)", "the entry must be initialised before it is read or written")
        idx = {src(n.slice) for n in body_walk(fn) if isinstance(n, ast.Subscript) and src(n.value) == "storage_addr"}
        rep.check("R08.3", idx == {"(slot, num_keys, size_keys)"}, m, fn, f"SolidityStorage.{nm}: indexes storage_addr[{sorted(idx)}]", "load and store index different mapping entries")
        sa = [src(v) for v in find_assign(fn, "storage_addr")]
        rep.check("R08.3", sa == ["storage[addr]"], m, fn, f"SolidityStorage.{nm}: storage_addr = {sa}", "wrong account's storage")
    t = src(ld)
    ok = "return ex.select(storage_chunk, concat_keys, ex.storages, symbolic)" in t and "concat_keys = concat(keys)" in t and "if num_keys == 0:\n        return storage_chunk" in t.replace("            ", "        ")
    rep.check("R08.3", ok, m, ld, "load: scalar -> stored value; mapping -> select(chunk, concat(keys))", "load reads with a different key than store writes")
    t = src(stf)
    ok = "new_storage = Store(storage_addr[slot, num_keys, size_keys], concat(keys), val)" in t and "storage_addr[slot, num_keys, size_keys] = new_storage_var" in t and "ex.storages[new_storage_var] = new_storage" in t
    rep.check("R08.3", ok, m, stf, "store: Store(old, concat(keys), val) named by a fresh array recorded in ex.storages", "store writes with a different key than load reads, or the update chain is not recorded")
    _, gks = repo.fn("sevm.SolidityStorage.get_key_structure")
    t = src(gks)
    ok = "offsets = cls.decode(ex, loc)" in t and "(slot, keys) = (ex.int_of(offsets[0], 'symbolic storage base slot'), offsets[1:])" in t.replace("slot, keys = ex.int_of", "(slot, keys) = (ex.int_of").replace("offsets[1:]\n", "offsets[1:])\n") or ("offsets = cls.decode(ex, loc)" in t and "offsets[1:]" in t and "len(keys)" in t and "cls.bitsize(keys)" in t)
    rep.check("R08.3", bool(ok), m, gks, "get_key_structure: slot = offsets[0]; keys = offsets[1:]; num_keys; size_keys = total bits", "key structure derived differently")
    _, em = repo.fn("sevm.SolidityStorage.empty")
    js = [n for n in body_walk(em) if isinstance(n, ast.JoinedStr)]
    parts = [src(v.value) for v in js[0].values if isinstance(v, ast.FormattedValue)] if js else []
    ok = parts == ["id_str(addr)", "slot", "num_keys", "size_keys"] and "BitVecSorts[size_keys]" in src(em)
    rep.check("R08.3", ok, m, em, f"SolidityStorage.empty name components: {parts}", "base array name must mention addr, slot, num_keys and size_keys: otherwise distinct structures share one SMT array (aliasing)")
    _, ini = repo.fn("sevm.SolidityStorage.init")
    t = src(ini)
    ok = "if (slot, num_keys, size_keys) in storage_addr:\n        return" in t.replace("            ", "        ") and "storage_addr[slot, num_keys, size_keys] = cls.empty(addr, slot, keys)" in t and "if storage_addr.symbolic else Z3_ZERO" in t
    rep.check("R08.3", ok, m, ini, "init: only if absent; mapping -> empty array; scalar -> 0 or fresh symbol when symbolic", "initialisation overwrites existing storage or starts from a non-zero value")
    js = [n for n in body_walk(stf) if isinstance(n, ast.JoinedStr)]
    parts = [src(v.value) for v in js[0].values if isinstance(v, ast.FormattedValue)] if js else []
    ok = parts[:4] == ["id_str(addr)", "slot", "num_keys", "size_keys"] and "uid()" in parts and "1 + len(ex.storages)" in parts
    rep.check("R08.3", ok, m, stf, f"store array name components: {parts}", "updated array name must carry the key structure and the per-path update counter")
    # generic
    _, gl = repo.fn("sevm.GenericStorage.load")
    _, gs = repo.fn("sevm.GenericStorage.store")
    for nm, fn in (("load", gl), ("store", gs)):
        first = [s for s in fn.body if isinstance(s, ast.Assign)][:2]
        ok = len(first) == 2 and src(first[0]) == "loc = cls.decode(ex, loc)" and src(first[1]) == "size_keys = loc.size()"
        rep.check("R08.3", ok, m, fn, f"GenericStorage.{nm}: loc = decode(loc); size_keys = loc.size()", "load and store must decode the location the same way")
        ini = [c for c in body_walk(fn) if isinstance(c, ast.Call) and dotted(c.func) == "cls.init"]
        ok = len(ini) == 1 and [src(a) for a in ini[0].args] == ["ex", "storage", "addr", "loc", "size_keys"]
        rep.check("R08.3", ok, m, ini[0] if ini else fn, f"GenericStorage.{nm}: cls.init(ex, storage, addr, loc, size_keys)", "entry must be initialised first")
        idx = {src(n.slice) for n in body_walk(fn) if isinstance(n, ast.Subscript) and src(n.value) == "storage_addr"}
        rep.check("R08.3", idx == {"size_keys"}, m, fn, f"GenericStorage.{nm}: indexes storage_addr[{sorted(idx)}]", "load and store index different entries")
    ok = "return ex.select(storage_addr[size_keys], loc, ex.storages, symbolic)" in src(gl) and "new_storage = Store(storage_addr[size_keys], loc, val)" in src(gs)
    rep.check("R08.3", ok, m, gl, "generic: select(entry, loc) / Store(entry, loc, val)", "generic load/store keys differ")
    _, gem = repo.fn("sevm.GenericStorage.empty")
    js = [n for n in body_walk(gem) if isinstance(n, ast.JoinedStr)]
    parts = [src(v.value) for v in js[0].values if isinstance(v, ast.FormattedValue)] if js else []
    rep.check("R08.3", parts == ["id_str(addr)", "loc.size()"], m, gem, f"GenericStorage.empty name components: {parts}", "generic base array name must mention addr and key width")
    # Exec.select: chain skipping only on unsat; empty arrays read as zero only when not symbolic
    check_verdict_sites(repo, rep, "R08.3", modules=("sevm",), only_functions={"sevm.Exec.select"})
    _, sel = repo.fn("sevm.Exec.select")
    t = src(sel)
    ok = "if eq(key, key0):\n                return val0" in t.replace("                    ", "                ") or ("if eq(key, key0):" in t and "return val0" in t)
    ok = ok and "return self.select(base, key, arrays, symbolic)" in t and "return Select(array, key)" in t
    rep.check("R08.3", ok, m, sel, "select: structural hit -> value; provably different key -> look in the base; otherwise Select(array, key)", "store-chain resolution changed")
    z = [r for r in body_walk(sel) if isinstance(r, ast.Return) and src(r.value) == "ZERO"]
    ok = len(z) == 1 and "not (symbolic)" in guard_set(m, z[0]) and "array not in arrays" in guard_set(m, z[0])
    rep.check("R08.3", ok, m, z[0] if z else sel, f"empty base array reads ZERO only when not symbolic", "symbolic storage must stay unconstrained; written arrays must not read as zero")
    base = [src(v) for v in find_assign(sel, "base")] + [src(v) for v in find_assign(sel, "key0")] + [src(v) for v in find_assign(sel, "val0")]
    rep.check("R08.3", base == ["store.arg(0)", "store.arg(1)", "store.arg(2)"], m, sel, f"store components: {base}", "Store(base, key, val) components read in the wrong order")


def r08_4_transient(repo: Repo, rep: Report):
    rep.rule("R08.4", "transient storage is fresh per transaction; sload/sstore select the map by the transient flag only")
    m = repo.mod("sevm")
    _, rm = repo.fn("sevm.SEVM.run_message")
    ecs = [c for c in body_walk(rm) if isinstance(c, ast.Call) and call_name(c) == "Exec"]
    ok = len(ecs) == 1 and src(kwarg(ecs[0], "transient_storage")) == "self.fresh_transient_storage(pre_ex)" and src(kwarg(ecs[0], "storage")) == "deepcopy(pre_ex.storage)"
    rep.check("R08.4", ok, m, ecs[0] if ecs else rm, "run_message: transient_storage=fresh_transient_storage(pre_ex); storage=deepcopy(pre_ex.storage)", "transient storage must start empty in every transaction; persistent storage is inherited")
    _, ft = repo.fn("sevm.SEVM.fresh_transient_storage")
    ok = "{addr: self.mk_storagedata() for addr in ex.transient_storage}" in src(ft)
    rep.check("R08.4", ok, m, ft, "fresh_transient_storage: a new StorageData per address (values not derived from the old map)", "transient values leak across transactions")
    for q in ("sevm.SEVM.sload", "sevm.SEVM.sstore"):
        _, fn = repo.fn(q)
        s = [src(v) for v in find_assign(fn, "storage")]
        rep.check("R08.4", s == ["ex.transient_storage if transient else ex.storage"], m, fn, f"{q}: storage = {s}", "the map must be chosen by the transient flag")
        calls = [c for c in body_walk(fn) if isinstance(c, ast.Call) and dotted(c.func) in ("self.storage_model.load", "self.storage_model.store")]
        ok = len(calls) == 1 and [src(a) for a in calls[0].args][:4] == ["ex", "storage", "addr", "loc"]
        rep.check("R08.4", ok, m, calls[0] if calls else fn, f"{q}: {src(calls[0]) if calls else '?'}", "storage model must operate on the selected map, account and location")
    _, run = repo.fn("sevm.SEVM.run")
    tl = [c for c in body_walk(run) if isinstance(c, ast.Call) and dotted(c.func) in ("self.sload", "self.sstore")]
    got = sorted((last_attr(c), src(kwarg(c, "transient")) if kwarg(c, "transient") is not None else "-") for c in tl)
    rep.check("R08.4", got == [("sload", "-"), ("sload", "True"), ("sstore", "-"), ("sstore", "True")], m, run, f"SLOAD/SSTORE vs TLOAD/TSTORE differ exactly in transient=True: {got}", "an instruction reads or writes the wrong storage")
    for c in tl:
        ok = [src(a) for a in c.args][:3] == ["ex", "ex.this()", "slot"]
        rep.check("R08.4", ok, m, c, src(c), "storage instructions operate on the executing account's own storage at the popped slot")
    _, mk = repo.fn("sevm.SEVM.mk_storagedata")
    rep.check("R08.4", "return self.storage_model.mk_storagedata()" in src(mk), m, mk, "mk_storagedata delegates to the layout", "storage data of the wrong layout")
    _, init = repo.fn("sevm.SEVM.__init__")
    t = src(init)
    ok = "is_generic = self.options.storage_layout == 'generic'" in t and "self.storage_model = GenericStorage if is_generic else SolidityStorage" in t
    rep.check("R08.4", ok, m, init, "storage model chosen by --storage-layout", "layout option ignored")


def r08_5_shared(repo: Repo, rep: Report):
    """persistent and transient storage (and the storage of different accounts) are distinct objects (shared with C20 R20.8)"""
    from hsa.rules.c20 import r20_1_fork_copies, r20_8_no_aliasing_assignment

    r20_8_no_aliasing_assignment(repo, rep)
    # a copy of the storage (branch, next transaction, rollback) keeps every field, including the `symbolic` flag
    r20_1_fork_copies(repo, rep)
    # a location is recognised through the registry of computed hashes: every keccak a path computes must be registered
    # (shared with C01 R01.4)
    from hsa.rules.c01 import r01_4_modelling_obligations

    r01_4_modelling_obligations(repo, rep)
    # the rollback of a failed sub-call restores each store from its own snapshot (C09 R09.1); vm.etch keeps the
    # account's storage (C14 R14.2)
    from hsa.rules.c09 import r09_1_snapshot_restore
    from hsa.rules.c14 import r14_2_selector_effect_table

    r09_1_snapshot_restore(repo, rep)
    r14_2_selector_effect_table(repo, rep)


RULES = [r08_5_shared, r08_1_precomputed_tables, r08_2_decode_siblings, r08_3_load_store_agreement, r08_4_transient]
