"""Helpers shared by the per-property rule modules."""

from __future__ import annotations

import ast

from hsa.core import (
    AnalysisError,
    Module,
    Repo,
    body_walk,
    call_name,
    calls_in,
    dotted,
    last_attr,
    src,
)
from hsa.flow import guard_text, guards_at

Z3_VERDICTS = {"sat", "unsat", "unknown"}


def if_chain(node: ast.If) -> list[tuple[ast.AST | None, list[ast.stmt]]]:
    """Flatten if/elif/.../else into [(test, body), ..., (None, else_body)]."""
    arms = []
    cur = node
    while True:
        arms.append((cur.test, cur.body))
        if len(cur.orelse) == 1 and isinstance(cur.orelse[0], ast.If):
            cur = cur.orelse[0]
            continue
        if cur.orelse:
            arms.append((None, cur.orelse))
        break
    return arms


def longest_if_chain(fn: ast.AST, mentions: str) -> ast.If:
    """The longest if/elif chain in fn whose first test mentions the given name."""
    best, best_len = None, 0
    elif_members = set()
    for n in body_walk(fn):
        if isinstance(n, ast.If):
            if len(n.orelse) == 1 and isinstance(n.orelse[0], ast.If):
                elif_members.add(n.orelse[0])
    for n in body_walk(fn):
        if isinstance(n, ast.If) and n not in elif_members:
            if mentions in {x.id for x in ast.walk(n.test) if isinstance(x, ast.Name)}:
                ln = len(if_chain(n))
                if ln > best_len:
                    best, best_len = n, ln
    if best is None:
        raise AnalysisError(f"no if-chain over '{mentions}' found")
    return best


def guard_set(m: Module, node: ast.AST, silent: bool = False) -> set[str]:
    """silent=True: only the guards whose failure skips the node silently (not those that raise / assert)"""
    return {guard_text(t, p) for t, p in guards_at(m, node, silent=silent)}


def method_calls(fn: ast.AST, attr: str, nested: bool = False):
    """calls `<anything>.attr(...)` or `attr(...)` inside fn"""
    it = ast.walk(fn) if nested else body_walk(fn)
    for n in it:
        if isinstance(n, ast.Call) and last_attr(n) == attr:
            yield n


def compares_with(fn: ast.AST, names: set[str], nested: bool = True):
    """Compare nodes with a bare Name operand in `names` (e.g. sat/unsat/unknown)."""
    it = ast.walk(fn) if nested else body_walk(fn)
    for n in it:
        if isinstance(n, ast.Compare):
            ops = [n.left] + list(n.comparators)
            hit = [o.id for o in ops if isinstance(o, ast.Name) and o.id in names]
            if hit:
                yield n, hit


def is_name(node, name: str) -> bool:
    return isinstance(node, ast.Name) and node.id == name


def is_attr_chain(node, text: str) -> bool:
    return dotted(node) == text


def param_names(fn: ast.FunctionDef, skip_self: bool = True) -> list[str]:
    names = [a.arg for a in fn.args.posonlyargs + fn.args.args]
    if skip_self and names and names[0] in ("self", "cls"):
        names = names[1:]
    return names


def z3_imported(m: Module, name: str) -> bool:
    return m.imports.get(name, ("", ""))[0] in ("z3", "z3.z3util")


def assigned_from(fn: ast.AST, name: str) -> list[ast.AST]:
    from hsa.core import find_assign

    return find_assign(fn, name)


def enclosing_loop(m: Module, node: ast.AST):
    for a in m.ancestors(node):
        if isinstance(a, (ast.For, ast.While)):
            return a
        if isinstance(a, (ast.FunctionDef, ast.AsyncFunctionDef, ast.Lambda)):
            return None
    return None


def class_methods(c: ast.ClassDef) -> dict[str, ast.FunctionDef]:
    return {
        n.name: n
        for n in c.body
        if isinstance(n, (ast.FunctionDef, ast.AsyncFunctionDef))
    }


class _MemCanon(ast.NodeTransformer):
    """`x in [a, b]`, `x in (a, b)`, `x in {a, b}`, `x in frozenset({a, b})` all read `x in {a, b}` (sorted)"""

    def visit_Compare(self, node):
        self.generic_visit(node)
        if len(node.ops) == 1 and isinstance(node.ops[0], (ast.In, ast.NotIn)):
            r = node.comparators[0]
            if isinstance(r, ast.Call) and isinstance(r.func, ast.Name) and r.func.id in ("frozenset", "set", "tuple", "list") and len(r.args) == 1 and not r.keywords:
                r = r.args[0]
            if isinstance(r, (ast.List, ast.Tuple, ast.Set)):
                node.comparators[0] = ast.Set(elts=sorted(r.elts, key=lambda e: ast.unparse(e)))
        return node


def csrc(node_or_text) -> str:
    """source text with membership containers canonicalised (accepts a node or a text that parses as an expression)"""
    import copy

    if isinstance(node_or_text, str):
        try:
            node = ast.parse(node_or_text, mode="eval").body
        except SyntaxError:
            return node_or_text
    else:
        node = copy.deepcopy(node_or_text)
    return ast.unparse(_MemCanon().visit(node))
