"""C17 — solver subprocess lifecycle is safe under every schedule (lock discipline, typestate, exactly-once completion)."""

from __future__ import annotations

import ast
import copy
import os
import sys

from hsa.core import AnalysisError, Repo, Report, body_walk, call_name, dotted, find_assign, kwarg, last_attr, src
from hsa.flow import Flow, function_exits, normal_exit_states
from hsa.rules.common import class_methods, guard_set, method_calls

EXPLANATION = (
    "Decides the structural conditions every schedule relies on: the worker thread completes the future "
    "exactly once (set_result is the only completion call, sits in the `finally` of the thread target's "
    "outermost try, nothing returns before it, start() is called only by PopenExecutor.submit on a freshly "
    "constructed future); a timeout is mapped to `unknown`; the executor's shutdown flag is read in the same "
    "critical section that registers and starts the job (check-then-act), because shutdown(wait=False) sweeps "
    "the registered jobs under that lock; cancel() leaves a trace for a job whose process does not exist yet "
    "and the worker re-checks it after creating the process; result() raises the stored exception because "
    "the running interpreter's concurrent.futures.Future reads the same private attribute. Interleavings "
    "themselves are not explored (that is model checking, a different family)."
    ' Also evaluated here: solving-context scope (C16 R16.5): every solver job of a test goes through the executor that shutdown reaches.'
    " Round 4: the executor's job registry only grows (no job is dropped from it before shutdown has seen it)."
    " Round 5: cancel() gives up early only when there is no running process; Popen sits inside the worker's try/except Exception/finally set_result."
)
ASSUMPTIONS = [
    "threading.Lock / Event semantics; CPython's concurrent.futures.Future implementation (parsed from the running interpreter's stdlib)",
    "psutil terminates the process tree when asked",
]


def _lock_blocks(m, fn, lock="self._lock"):
    return [w for w in body_walk(fn) if isinstance(w, ast.With) and any(src(i.context_expr) == lock for i in w.items)]


def r17_1_exactly_once(repo: Repo, rep: Report):
    rep.rule("R17.1", "set_result: only completion call, in the finally of the worker's outermost try; start() only from submit; futures are fresh")
    m, run = repo.fn("processes.PopenFuture.start.run")
    sets = []
    for modname, mm in repo.modules.items():
        for c in ast.walk(mm.tree):
            if isinstance(c, ast.Call) and last_attr(c) in ("set_result", "set_exception", "set_running_or_notify_cancel"):
                sets.append((mm, c))
    ok = len(sets) == 1 and sets[0][0].qual(sets[0][1]) == "processes.PopenFuture.start.run" and last_attr(sets[0][1]) == "set_result"
    rep.check("R17.1", ok, m, sets[0][1] if sets else run, f"completion calls: {[(mm.qual(c), src(c)[:50]) for mm, c in sets]}", "the future must be completed by exactly one set_result call in the worker")
    tries = [s for s in run.body if isinstance(s, ast.Try)]
    ok = len(run.body) == 1 and len(tries) == 1
    rep.check("R17.1", ok, m, run, "worker body is a single try statement", "code outside the try can raise past set_result (waiters would block forever)")
    if tries:
        t = tries[0]
        in_finally = any(isinstance(c, ast.Call) and last_attr(c) == "set_result" for s in t.finalbody for c in ast.walk(s))
        rep.check("R17.1", in_finally, m, t, "set_result(...) inside `finally`", "set_result outside finally: an exception in the worker leaves the future pending forever")
        # set_result is the last statement of finally and unconditional there
        last = t.finalbody[-1] if t.finalbody else None
        ok = last is not None and isinstance(last, ast.Expr) and isinstance(last.value, ast.Call) and last_attr(last.value) == "set_result"
        rep.check("R17.1", ok, m, last or t, "set_result is the unconditional last statement of finally", "completion is conditional or followed by code that may raise")
        rets = [r for r in ast.walk(t) if isinstance(r, ast.Return)]
        rep.check("R17.1", not rets, m, rets[0] if rets else t, "no return inside the worker", "a return path skips completion")
        # every handler only records the exception
        for h in t.handlers:
            ok = all(isinstance(s, ast.Assign) and src(s.targets[0]) == "self._exception" for s in h.body)
            rep.check("R17.1", ok, m, h, f"except {src(h.type) if h.type else ''}: self._exception = e", "handlers must only record the exception (re-raising would skip nothing, but swallowing differently changes result())")
        catch_all = any(h.type is not None and src(h.type) in ("Exception", "BaseException") for h in t.handlers)
        rep.check("R17.1", catch_all, m, t, "worker catches Exception", "an uncaught worker exception kills the thread; result() would not re-raise it")
        # cleanup before completion is guarded: it must not raise
        for s in t.finalbody[:-1]:
            ok = isinstance(s, ast.If) and src(s.test) == "self.process"
            rep.check("R17.1", ok, m, s, f"finally: {src(s)[:60]}", "unexpected statement before set_result in finally")
    # start() callers
    callers = []
    for modname, mm in repo.modules.items():
        for c in ast.walk(mm.tree):
            if isinstance(c, ast.Call) and last_attr(c) == "start" and isinstance(c.func, ast.Attribute) and src(c.func.value) in ("future", "self"):
                if modname == "processes":
                    callers.append((mm, c))
    ok = len(callers) == 1 and callers[0][0].qual(callers[0][1]) == "processes.PopenExecutor.submit"
    rep.check("R17.1", ok, m, callers[0][1] if callers else run, f"future.start() called from {[mm.qual(c) for mm, c in callers]}", "a future started twice completes twice (InvalidStateError) or runs two processes")
    # thread is non-daemon and started once
    _, st = repo.fn("processes.PopenFuture.start")
    th = [c for c in body_walk(st) if isinstance(c, ast.Call) and src(c.func).endswith("Thread")]
    ok = len(th) == 1 and src(kwarg(th[0], "target")) == "run"
    rep.check("R17.1", ok, m, th[0] if th else st, src(th[0]) if th else "threading.Thread(target=run)", "exactly one worker thread running `run`")
    # each submitted future is freshly constructed
    ms, sl = repo.fn("solve.solve_low_level")
    fut = [s for s in body_walk(sl) if isinstance(s, ast.Assign) and src(s.targets[0]) == "future"]
    ok = len(fut) == 1 and isinstance(fut[0].value, ast.Call) and call_name(fut[0].value) == "PopenFuture"
    rep.check("R17.1", ok, ms, fut[0] if fut else sl, src(fut[0]) if fut else "future = ?", "a fresh PopenFuture per solver invocation")
    subs = [c for c in method_calls(sl, "submit")]
    ok = len(subs) == 1 and src(subs[0].args[0]) == "future" and "executor" in dotted(subs[0].func)
    rep.check("R17.1", ok, ms, subs[0] if subs else sl, src(subs[0]) if subs else "executor.submit(future)", "the fresh future is submitted exactly once")
    res = [c for c in method_calls(sl, "result") if src(c.func.value) == "future"]
    ok = len(res) == 1 and any(isinstance(a, ast.Try) for a in ms.ancestors(res[0]))
    rep.check("R17.1", ok, ms, res[0] if res else sl, "future.result() inside try", "waiting on the job must go through result()")


def r17_2_timeout_unknown(repo: Repo, rep: Report):
    rep.rule("R17.2", "a job that exceeds its time limit is reported as unknown")
    m, sl = repo.fn("solve.solve_low_level")
    hs = [h for s in body_walk(sl) if isinstance(s, ast.Try) for h in s.handlers]
    th = [h for h in hs if h.type is not None and "TimeoutExpired" in src(h.type)]
    ok = len(th) == 1
    if ok:
        rets = [r for r in ast.walk(th[0]) if isinstance(r, ast.Return)]
        ok = len(rets) == 1 and isinstance(rets[0].value, ast.Call) and call_name(rets[0].value) == "SolverOutput" and src(kwarg(rets[0].value, "result") or rets[0].value.args[0]) == "unknown"
    rep.check("R17.2", ok, m, th[0] if th else sl, "except subprocess.TimeoutExpired: return SolverOutput(result=unknown, ...)", "timeout must map to unknown, never unsat")
    # the time limit reaches communicate()
    mp, run = repo.fn("processes.PopenFuture.start.run")
    comm = [c for c in method_calls(run, "communicate")]
    ok = len(comm) == 1 and src(kwarg(comm[0], "timeout")) == "self.timeout"
    rep.check("R17.2", ok, mp, comm[0] if comm else run, src(comm[0]) if comm else "communicate(timeout=self.timeout)", "the configured time limit must bound the wait for the solver")
    t = src(sl)
    # timeout_seconds, with single-assignment locals and `:=` targets replaced by what they are bound to
    binds = {}
    for n in body_walk(sl):
        if isinstance(n, ast.Assign) and len(n.targets) == 1 and isinstance(n.targets[0], ast.Name):
            binds.setdefault(n.targets[0].id, []).append(n.value)
        elif isinstance(n, ast.NamedExpr):
            binds.setdefault(n.target.id, []).append(n.value)

    class _Inl(ast.NodeTransformer):
        def visit_NamedExpr(self, node):
            return self.visit(node.value)

        def visit_Name(self, node):
            vs = binds.get(node.id, [])
            if isinstance(node.ctx, ast.Load) and len(vs) == 1 and node.id != "timeout_seconds":
                return self.visit(copy.deepcopy(vs[0]))
            return node

    tvals = binds.get("timeout_seconds", [])
    ttxt = src(_Inl().visit(copy.deepcopy(tvals[0]))) if len(tvals) == 1 else "?"
    ok = "PopenFuture(solver_command, timeout=timeout_seconds)" in t and ttxt in ("args.solver_timeout_assertion if args.solver_timeout_assertion else None", "args.solver_timeout_assertion or None")
    rep.check("R17.2", ok, m, sl, "timeout_seconds from args.solver_timeout_assertion (0 -> None)", "assertion timeout is not the configured one")
    # the worker records TimeoutExpired as the future's exception
    ok = any(h.type is not None and "TimeoutExpired" in src(h.type) for tr in body_walk(run) if isinstance(tr, ast.Try) for h in tr.handlers) or any(h.type is not None and src(h.type) == "Exception" for tr in body_walk(run) if isinstance(tr, ast.Try) for h in tr.handlers)
    rep.check("R17.2", ok, mp, run, "worker records TimeoutExpired in self._exception", "a timeout would not reach the waiter")


def r17_3_check_then_act(repo: Repo, rep: Report):
    rep.rule("R17.3", "submit reads the shutdown flag inside the critical section that registers and starts the job")
    m, sub = repo.fn("processes.PopenExecutor.submit")
    locks = _lock_blocks(m, sub)
    if len(locks) != 1:
        rep.bad("R17.3", m, sub, "with self._lock", "submit must register and start the job inside one critical section")
        return
    lk = locks[0]
    in_lock = set(id(n) for s in lk.body for n in ast.walk(s))
    apps = [c for c in method_calls(sub, "append") if dotted(c.func) == "self._futures.append"]
    starts = [c for c in method_calls(sub, "start") if src(c.func.value) == "future"]
    ok = len(apps) == 1 and len(starts) == 1 and id(apps[0]) in in_lock and id(starts[0]) in in_lock and apps[0].lineno < starts[0].lineno
    rep.check("R17.3", ok, m, lk, "self._futures.append(future); future.start() inside `with self._lock`, in that order", "the job must be registered before it is started, both under the lock (shutdown sweeps _futures under the lock)")
    # the registry only grows: a job leaves it never (shutdown must find every accepted job, also one whose process the
    # worker has not created yet -- is_running() is false for it)
    mc, pe = repo.cls("processes.PopenExecutor")
    shrink = []
    for n in ast.walk(pe):
        if isinstance(n, ast.Attribute) and n.attr == "_futures" and isinstance(n.ctx, (ast.Store, ast.Del)):
            f = mc.enclosing_func(n)
            if f is None or f.name != "__init__":
                shrink.append(n)
        elif isinstance(n, ast.Call) and isinstance(n.func, ast.Attribute) and n.func.attr in ("remove", "pop", "clear", "discard", "__delitem__") and src(n.func.value).endswith("_futures"):
            shrink.append(n)
        elif isinstance(n, ast.Delete) and any("_futures" in src(t) for t in n.targets):
            shrink.append(n)
    for n in shrink:
        rep.bad("R17.3", mc, n, f"{mc.qual(n)}: {src(mc.parents.get(n, n))[:90]}", "a registered job is dropped from the registry: shutdown(wait=False) does not cancel it and _join does not wait for it (its solver process survives the shutdown)")
    rep.ok("R17.3", mc, pe, f"PopenExecutor._futures is only bound in __init__ and appended to ({len(shrink)} other writers)")
    reads = [c for c in body_walk(sub) if isinstance(c, ast.Call) and src(c.func) in ("self._shutdown.is_set", "self.is_shutdown")]
    if not reads:
        rep.bad("R17.3", m, sub, "self._shutdown.is_set()", "submit does not check the shutdown flag: jobs are accepted after shutdown")
    inside = [c for c in reads if id(c) in in_lock]
    raised = False
    for c in inside:
        par = m.parents.get(c)
        if isinstance(par, ast.If) and any(isinstance(x, ast.Raise) and "ShutdownError" in src(x) for x in par.body) and par.lineno < (apps[0].lineno if apps else 0):
            raised = True
    rep.check("R17.3", raised, m, reads[0] if reads else sub, f"shutdown flag read {'inside' if inside else 'outside'} the critical section", "check-then-act race: shutdown(wait=False) can set the flag and sweep _futures between the flag test and the registration; the job then runs after shutdown returned")
    # shutdown: flag first, then sweep under the same lock
    _, sh = repo.fn("processes.PopenExecutor.shutdown")
    sets = [c for c in method_calls(sh, "set") if src(c.func.value) == "self._shutdown"]
    ok = len(sets) == 1 and not guard_set(m, sets[0], silent=True) and sets[0].lineno == min(getattr(s, "lineno", 10**9) for s in sh.body if not (isinstance(s, ast.Expr) and isinstance(s.value, ast.Constant)))
    rep.check("R17.3", ok, m, sets[0] if sets else sh, "shutdown: self._shutdown.set() first, unconditionally", "the flag must be raised before anything else in shutdown")
    sweeps = [w for w in body_walk(sh) if isinstance(w, ast.With) and any(src(i.context_expr) == "self._lock" for i in w.items)]
    ok = len(sweeps) == 1 and "not (wait)" in guard_set(m, sweeps[0]) and "f.cancel" in src(sweeps[0]) and "for f in self._futures" in src(sweeps[0])
    rep.check("R17.3", ok, m, sweeps[0] if sweeps else sh, "shutdown(wait=False): cancel every registered future under self._lock", "immediate shutdown must cancel every registered job under the lock")
    ok = "concurrent.futures.wait(cancel_tasks)" in src(sh)
    rep.check("R17.3", ok, m, sh, "shutdown waits for the cancellations", "shutdown(wait=False) must not return before the cancellations ran")
    _, jn = repo.fn("processes.PopenExecutor._join")
    ok = "for future in list(self._futures)" in src(jn) and "future.result()" in src(jn)
    rep.check("R17.3", ok, m, jn, "_join waits on every registered future", "shutdown(wait=True) must wait for every job")
    _, isd = repo.fn("processes.PopenExecutor.is_shutdown")
    rep.check("R17.3", "return self._shutdown.is_set()" in src(isd), m, isd, "is_shutdown() reads the flag", "is_shutdown must reflect the flag")


def r17_4_cancel_every_state(repo: Repo, rep: Report):
    rep.rule("R17.4", "cancel() is effective in every job state: a cancel that arrives before the process exists is remembered and honoured")
    m, cancel = repo.fn("processes.PopenFuture.cancel")
    _, run = repo.fn("processes.PopenFuture.start.run")
    # early return when not running must leave a trace (flag/event) ...
    early = [r for r in body_walk(cancel) if isinstance(r, ast.Return) and "not (self.is_running())" in guard_set(m, r)]
    records = []
    for s in cancel.body:
        if early and s.lineno >= m.parents[early[0]].lineno:
            break
        for n in ast.walk(s):
            if isinstance(n, ast.Assign) and src(n.targets[0]).startswith("self._cancel"):
                records.append(n)
            if isinstance(n, ast.Call) and last_attr(n) == "set" and src(n.func.value).startswith("self._cancel"):
                records.append(n)
    # ... and the worker re-checks it after Popen(...)
    popen = [c for c in body_walk(run) if isinstance(c, ast.Call) and call_name(c) == "Popen"]
    rechecks = [n for n in body_walk(run) if isinstance(n, (ast.Attribute, ast.Call)) and "self._cancel" in src(n) and popen and getattr(n, "lineno", 0) >= popen[0].lineno]
    ok = (not early) or (bool(records) and bool(rechecks))
    rep.check("R17.4", ok, m, early[0] if early else cancel, f"cancel(): `if not self.is_running(): return` {'records the request' if records else 'records nothing'}; worker {'re-checks' if rechecks else 'never re-checks'} after Popen(...)", "a shutdown sweep that runs between start() and Popen(...) is lost: the solver process is created afterwards and keeps running after shutdown returned")
    # the only reason to give up early is that there is no running process; anything else (e.g. "already requested
    # once") makes a later cancel - the worker's own clean-up at the time limit, a second shutdown - a no-op
    for r in [r for r in body_walk(cancel) if isinstance(r, ast.Return)]:
        gs = {g.replace(" ", "") for g in guard_set(m, r)}
        okr = gs <= {"not(self.is_running())", "notself.is_running()"} and (r.value is None or src(r.value) in ("None", "False", "True"))
        rep.check("R17.4", okr, m, r, f"cancel(): early return under {sorted(gs)}", "cancel() gives up for a reason other than `no running process`: once that reason holds, the process is never terminated by any later cancel (time limit, second shutdown), and result() may never return")
    # the process is created inside the worker's try: a spawn failure (missing binary, EMFILE) must end up in the future
    popen_all = [(mm_q, c) for mm_q, f_ in repo.functions("processes") for c in body_walk(f_) if isinstance(c, ast.Call) and call_name(c) == "Popen" and m.qual(c) == f"processes.{mm_q}"]
    for q_, c in popen_all:
        in_try = [a for a in m.ancestors(c) if isinstance(a, ast.Try) and any(c in list(ast.walk(b)) for b in a.body)]
        okp = q_ == "PopenFuture.start.run" and any(t_.finalbody and any(isinstance(x, ast.Call) and last_attr(x) == "set_result" for fb in t_.finalbody for x in ast.walk(fb)) and any(h.type is not None and src(h.type) == "Exception" for h in t_.handlers) for t_ in in_try)
        rep.check("R17.4", okp, m, c, f"processes.{q_}: Popen(...) inside the worker's try/except Exception/finally set_result", "a failure to spawn the solver escapes instead of resolving the future: the job is already registered, no thread will ever call set_result, and result() / shutdown(wait=True) hang")
    if not popen_all:
        raise AnalysisError("processes: Popen(...) call not found")
    # cancel terminates the whole tree then kills, and closes the pipes
    t = src(cancel)
    ok = "children(recursive=True)" in t and "process.terminate()" in t and "process.kill()" in t
    rep.check("R17.4", ok, m, cancel, "cancel: terminate process tree, grace period, kill survivors", "cancel must stop the whole process tree")
    # cancel() runs inside the worker's `finally` before set_result: it must not raise.
    waits = [c for c in body_walk(cancel) if isinstance(c, ast.Call) and last_attr(c) == "wait" and kwarg(c, "timeout") is not None]
    for wcall in waits:
        sup = None
        for a in m.ancestors(wcall):
            if isinstance(a, ast.With):
                for it in a.items:
                    if isinstance(it.context_expr, ast.Call) and src(it.context_expr.func) in ("contextlib.suppress", "suppress"):
                        sup = [src(x) for x in it.context_expr.args]
            if isinstance(a, ast.Try) and any(h.type is not None and "psutil.TimeoutExpired" in src(h.type) for h in a.handlers):
                sup = ["psutil.TimeoutExpired"]
        recv = src(wcall.func.value)
        is_psutil = any("psutil.Process(" in src(v) for v in find_assign(cancel, recv))
        need = "psutil.TimeoutExpired" if is_psutil else "subprocess.TimeoutExpired"
        ok = sup is not None and need in sup
        rep.check("R17.4", ok, m, wcall, f"{src(wcall)} suppresses {sup}", f"{recv}.wait(timeout=...) raises {need} when the solver survives the grace period; unsuppressed it escapes cancel() inside the worker's finally, set_result is never reached and result()/shutdown(wait=True) block forever")
    for c in body_walk(cancel):
        if isinstance(c, ast.Call) and isinstance(c.func, ast.Attribute) and c.func.attr in ("terminate", "kill", "children") :
            guarded = any(isinstance(a, ast.Try) and any(h.type is not None and "NoSuchProcess" in src(h.type) for h in a.handlers) for a in m.ancestors(c))
            rep.check("R17.4", guarded, m, c, f"{src(c)} inside try/except psutil.NoSuchProcess", "psutil calls on a process that already exited raise NoSuchProcess; unguarded it escapes cancel()")
    _, isr = repo.fn("processes.PopenFuture.is_running")
    ok = "self.process and self.process.poll() is None" in src(isr)
    rep.check("R17.4", ok, m, isr, "is_running: process exists and poll() is None", "is_running must reflect the OS process state")
    # the worker always cleans up its own process before completing
    tries = [s for s in run.body if isinstance(s, ast.Try)]
    ok = bool(tries) and any(isinstance(s, ast.If) and src(s.test) == "self.process" and "self.cancel()" in src(s) for s in tries[0].finalbody)
    rep.check("R17.4", ok, m, tries[0] if tries else run, "finally: if self.process: self.cancel()", "a timed-out or failed job must terminate its process before completing")


def r17_5_stdlib_coupling(repo: Repo, rep: Report):
    rep.rule("R17.5", "PopenFuture relies on concurrent.futures.Future's private `_exception`: confirmed against the running interpreter's stdlib source")
    import concurrent.futures._base as _b  # stdlib only; located for its source file

    path = _b.__file__
    with open(path, encoding="utf-8") as f:
        tree = ast.parse(f.read())
    fut = next((n for n in tree.body if isinstance(n, ast.ClassDef) and n.name == "Future"), None)
    if fut is None:
        raise AnalysisError("stdlib Future class not found")
    ms = class_methods(fut)
    gr = ms.get("_Future__get_result") or ms.get("__get_result")
    ok = gr is not None and "self._exception" in src(gr) and "raise self._exception" in src(gr)
    m, cls = repo.cls("processes.PopenFuture")
    rep.check("R17.5", ok, m, cls, f"{os.path.basename(path)}: Future.__get_result raises self._exception (python {sys.version_info.major}.{sys.version_info.minor})", "the stdlib no longer reads `_exception`: result() would stop raising TimeoutExpired and timeouts would be read as results")
    sr = ms.get("set_result")
    ok = sr is not None and "self._state = FINISHED" in src(sr) and "notify_all" in src(sr)
    rep.check("R17.5", ok, m, cls, "Future.set_result marks FINISHED and notifies waiters", "stdlib set_result semantics changed")
    res = ms.get("result")
    ok = res is not None and "__get_result" in src(res) and "FINISHED" in src(res)
    rep.check("R17.5", ok, m, cls, "Future.result returns via __get_result when FINISHED", "stdlib result semantics changed")
    # halmos side: the worker stores exceptions under that very name; result() defers to super
    _, run = repo.fn("processes.PopenFuture.start.run")
    stores = [s for s in body_walk(run) if isinstance(s, ast.Assign) and src(s.targets[0]) == "self._exception"]
    rep.check("R17.5", len(stores) >= 1, m, stores[0] if stores else run, "worker stores the exception in self._exception", "exception must be stored under the name the stdlib reads")
    _, r = repo.fn("processes.PopenFuture.result")
    ok = "super().result(timeout=timeout)" in src(r)
    rep.check("R17.5", ok, m, r, "PopenFuture.result -> super().result(timeout=timeout)", "result() must defer to the stdlib implementation")
    bases = [src(b) for b in cls.bases]
    rep.check("R17.5", bases == ["concurrent.futures.Future"], m, cls, f"class PopenFuture({', '.join(bases)})", "PopenFuture must derive from concurrent.futures.Future")
    _, exc = repo.fn("processes.PopenFuture.exception")
    rep.check("R17.5", "return self._exception" in src(exc), m, exc, "exception() returns the stored exception without blocking", "exception() must expose the stored exception")


def r17_7_shutdown_all_unfiltered(repo: Repo, rep: Report):
    rep.rule("R17.7", "ExecutorRegistry.shutdown_all asks every registered executor for an immediate shutdown (no executor is skipped)")
    m, fn = repo.fn("processes.ExecutorRegistry.shutdown_all")
    loops = [l for l in body_walk(fn) if isinstance(l, ast.For)]
    ok = len(loops) == 1 and src(loops[0].iter).replace(" ", "") in ("list(self._executors)", "self._executors", "tuple(self._executors)", "self._executors.copy()")
    rep.check("R17.7", ok, m, loops[0] if loops else fn, f"for ex in {src(loops[0].iter) if loops else '?'}", "the sweep must run over all registered executors")
    calls = [c for c in body_walk(fn) if isinstance(c, ast.Call) and last_attr(c) == "shutdown"]
    for c in calls:
        gs = guard_set(m, c, silent=True)
        w = kwarg(c, "wait")
        ok = not gs and w is not None and src(w) == "False"
        rep.check("R17.7", ok, m, c, f"{src(c)} under {sorted(gs)}", "an executor that is skipped keeps its solver processes: a graceful shutdown(wait=True) in progress only drains, it never kills, so `already shut down` is not `nothing left to cancel`")
    rep.check("R17.7", len(calls) == 1 and not any(isinstance(n, (ast.Continue, ast.Break, ast.Return)) for l in loops for n in ast.walk(l)), m, fn, f"{len(calls)} shutdown call(s); no continue/break/return in the sweep", "the sweep is cut short or filtered")


def r17_6_shared(repo: Repo, rep: Report):
    """every solver job of a test goes through the executor of that test's SolvingContext (the one that shutdown
    reaches): contexts are created once per function and handed on, never re-created (shared with C16 R16.5)"""
    from hsa.rules.c16 import r16_5_scope

    r16_5_scope(repo, rep)


RULES = [r17_7_shutdown_all_unfiltered, r17_6_shared, r17_1_exactly_once, r17_2_timeout_unknown, r17_3_check_then_act, r17_4_cancel_every_state, r17_5_stdlib_coupling]
