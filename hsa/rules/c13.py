"""C13 — assume and assert cheatcodes have exactly their stated meaning."""

from __future__ import annotations

import ast
import re

from hsa.core import AnalysisError, Repo, Report, body_walk, call_name, dotted, find_assign, kwarg, last_attr, src
from hsa.fold import UNKNOWN, fold_in
from hsa.keccak import selector
from hsa.rules.common import csrc, guard_set, if_chain, method_calls
from hsa.rules.verdicts import check_verdict_sites

EXPLANATION = (
    "Decides, exhaustively over the selector table: every key of assert_cheatcode_handler equals the first four "
    "bytes of keccak-256 of the signature literal it is bound to (76 entries), keys are unique, and the hevm "
    "constant for assume is the hash of assume(bool); mk_cond maps each tag to the operator of its signedness "
    "and direction (U* -> ULT/UGT/ULE/UGE, S* -> z3's signed < > <= >=, Eq/NotEq -> ==/!=) and the early "
    "returns for empty / size-mismatched operands are complementary for Eq and NotEq; mk_assert_handler derives "
    "'U' exactly for uint256 and every ordering signature in the table has operands in {uint256,int256}; "
    "extractors match the ABI type class (fixed slots 4/36, bytes/string by offset+length, T[] by "
    "offset+length*32, bytes[]/string[] rejected); the assert branching halts definitively only on `== unsat` "
    "of the condition and forks a failing path on `!= unsat` of its negation; vm.assume appends a branching "
    "constraint and drops the path only on is_false; a stored failure is re-raised before the next instruction "
    "and the FailCheatcode handler yields the state without returning to the caller. Operand values are not decided."
    ' Also evaluated here: verdict discipline of Path.check/Exec.check (C02 R02.1) and fork-copy completeness (C20 R20.1): an `unsat` replayed from a sibling path suppresses a failing branch.'
    ' Round 4: pending conditions are activated before a delayed path-ending error is re-raised in SEVM.run (the failing branch of a symbolic assert keeps the negated relation pending).'
    ' Round 5: substitutions are learnt only from a whole asserted equality term == constant, no recursion into sub-terms (R13.9); solver-free unsat answers are sound (C02 R02.2).'
    ' Round 7: every answer of mk_cond is one of the reviewed arms (operator on (v1, v2), empty and size-mismatch cases); a shortcut return for some operand representation is a violation (R13.2).'
)
ASSUMPTIONS = ["z3py operator semantics: < > <= >= on BitVecRef are signed; ULT/UGT/ULE/UGE unsigned", "Forge-std signatures (hash-verified)"]


def _handler_table(repo):
    m = repo.mod("assertions")
    tbl = None
    for st in m.tree.body:
        if isinstance(st, ast.Assign) and src(st.targets[0]) == "assert_cheatcode_handler" and isinstance(st.value, ast.Dict):
            tbl = st.value
    if tbl is None:
        raise AnalysisError("assert_cheatcode_handler dict literal not found")
    return m, tbl


def r13_1_selector_table(repo: Repo, rep: Report):
    rep.rule("R13.1", "every vm.assert* selector == keccak4(signature literal); keys unique; assume selector")
    m, tbl = _handler_table(repo)
    seen = {}
    for k, v in zip(tbl.keys, tbl.values):
        key = fold_in(repo, "assertions", k)
        if not (isinstance(v, ast.Call) and call_name(v) == "mk_assert_handler" and len(v.args) == 1):
            rep.bad("R13.1", m, v, src(v)[:80], "table value is not mk_assert_handler(<signature literal>)")
            continue
        sig = fold_in(repo, "assertions", v.args[0])
        if not isinstance(sig, str) or not isinstance(key, int):
            rep.bad("R13.1", m, k, f"{src(k)}: {src(v)}", "selector or signature is not a literal")
            continue
        ok = selector(sig) == key and key not in seen
        rep.check("R13.1", ok, m, k, f"{key:#010x}: {sig}", f"selector bound to the wrong semantics: keccak4('{sig}') = {selector(sig):#010x}" + (f"; duplicate key (also {seen.get(key)})" if key in seen else ""))
        seen[key] = sig
    rep.table("vm.assert* selectors", len(seen))
    if len(seen) < 70:
        raise AnalysisError(f"R13.1: only {len(seen)} assert selectors found")
    a = repo.mod("cheatcodes")
    _, hc = repo.cls("cheatcodes.hevm_cheat_code")
    from hsa.fold import class_consts

    consts = class_consts(repo, "cheatcodes", hc)
    rep.check("R13.1", consts.get("assume_sig") == selector("assume(bool)"), a, hc, f"assume_sig = {consts.get('assume_sig'):#010x}", f"must be keccak4('assume(bool)') = {selector('assume(bool)'):#010x}")
    # the failure pseudo-cheatcode payload: store(HEVM, "failed", 1)
    fp = None
    for st in hc.body:
        if isinstance(st, ast.Assign) and src(st.targets[0]) == "fail_payload":
            for c in ast.walk(st.value):
                if isinstance(c, ast.Call) and src(c.func) == "bytes.fromhex":
                    fp = fold_in(repo, "cheatcodes", c.args[0])
    want = f"{selector('store(address,bytes32,bytes32)'):08x}" + "000000000000000000000000" + "7109709ecfa91a80626ff3989d68f67f5b1dd12d" + "6661696c6564".ljust(64, "0") + "1".rjust(64, "0")
    rep.check("R13.1", fp == want, a, hc, f"fail_payload = {str(fp)[:40]}...", "DSTest.fail() payload must be store(HEVM_ADDRESS, 'failed', 1)")
    # unsupported-cheatcode table is hash-consistent too (so the error message names the right cheatcode)
    mu = repo.mod("utils")
    n_bad = 0
    n = 0
    for st in mu.tree.body:
        if isinstance(st, ast.Assign) and src(st.targets[0]) == "dict_of_unsupported_cheatcodes" and isinstance(st.value, ast.Dict):
            for k, v in zip(st.value.keys, st.value.values):
                kk, vv = fold_in(repo, "utils", k), fold_in(repo, "utils", v)
                if isinstance(kk, int) and isinstance(vv, str):
                    n += 1
                    if selector(vv) != kk:
                        n_bad += 1
                        rep.bad("R13.1", mu, k, f"{kk:#010x}: {vv}", f"unsupported-cheatcode table: keccak4 = {selector(vv):#010x}")
    rep.check("R13.1", n_bad == 0 and n > 100, mu, mu.tree, f"dict_of_unsupported_cheatcodes: {n} entries hash-consistent", "unsupported cheatcode table inconsistent")
    rep.table("unsupported cheatcode selectors", n)


OPS = {
    "ULt": ("call", "ULT"), "UGt": ("call", "UGT"), "ULe": ("call", "ULE"), "UGe": ("call", "UGE"),
    "SLt": ("cmp", ast.Lt), "SGt": ("cmp", ast.Gt), "SLe": ("cmp", ast.LtE), "SGe": ("cmp", ast.GtE),
    "Eq": ("cmp", ast.Eq), "NotEq": ("cmp", ast.NotEq),
}


def r13_2_mk_cond(repo: Repo, rep: Report):
    rep.rule("R13.2", "mk_cond: tag -> operator with the right signedness and direction; Eq/NotEq early returns are complementary")
    m, fn = repo.fn("assertions.mk_cond")
    found = {}
    elif_members = {i.orelse[0] for i in body_walk(fn) if isinstance(i, ast.If) and len(i.orelse) == 1 and isinstance(i.orelse[0], ast.If)}
    for i in [i for i in body_walk(fn) if isinstance(i, ast.If) and i not in elif_members]:
        for test, body in if_chain(i):
            if test is None or not (isinstance(test, ast.Compare) and src(test.left) == "bop" and isinstance(test.ops[0], ast.Eq)):
                continue
            tag = fold_in(repo, "assertions", test.comparators[0])
            rets = [r for r in body if isinstance(r, ast.Return)]
            if len(rets) != 1:
                continue
            v = rets[0].value
            gs = guard_set(m, rets[0])
            early = any(g.startswith("is_empty_bytes") or "v1.size() != v2.size()" in g for g in gs)
            found.setdefault(tag, []).append((v, early, rets[0]))
    # round 7: every answer of mk_cond is one of the reviewed arms - a return outside the `bop == <tag>` chains (a
    # shortcut for some operand representation) decides the relation by other means than the operator on (v1, v2)
    recorded = {id(x[2]) for xs in found.values() for x in xs}
    for r in body_walk(fn):
        if isinstance(r, ast.Return) and id(r) not in recorded:
            rep.bad("R13.2", m, r, f"return {src(r.value) if r.value else ''} under {sorted(guard_set(m, r))[:3]}", "mk_cond answers outside the reviewed operator arms / empty / size-mismatch cases (length and signedness of the operands are decided there)")
    for tag, (kind, op) in OPS.items():
        main = [x for x in found.get(tag, []) if not x[1]]
        if len(main) != 1:
            rep.bad("R13.2", m, fn, f"bop == {tag!r}", f"expected exactly one operator arm for {tag}, found {len(main)}")
            continue
        v, _, node = main[0]
        if kind == "call":
            ok = isinstance(v, ast.Call) and call_name(v) == op and [src(a) for a in v.args] == ["v1", "v2"]
        else:
            ok = isinstance(v, ast.Compare) and len(v.ops) == 1 and isinstance(v.ops[0], op) and src(v.left) == "v1" and src(v.comparators[0]) == "v2"
        rep.check("R13.2", ok, m, node, f"{tag}: return {src(v)}", f"{tag} must be {'the unsigned z3 function ' + op + '(v1, v2)' if kind == 'call' else 'the (signed) z3 operator on (v1, v2)'}")
    # early returns: (both empty) Eq True / NotEq False; (one empty) Eq False / NotEq True; (size mismatch) Eq False / NotEq True
    want = {"both": {"Eq": True, "NotEq": False}, "one": {"Eq": False, "NotEq": True}, "size": {"Eq": False, "NotEq": True}}
    got = {"both": {}, "one": {}, "size": {}}
    for tag in ("Eq", "NotEq"):
        for v, early, node in found.get(tag, []):
            if not early:
                continue
            gs = guard_set(m, node)
            val = fold_in(repo, "assertions", v.args[0]) if isinstance(v, ast.Call) and call_name(v) == "BoolVal" else UNKNOWN
            if "v1.size() != v2.size()" in gs:
                got["size"][tag] = val
            elif {"is_empty_bytes(v1)", "is_empty_bytes(v2)"} <= gs:
                got["both"][tag] = val
            elif any("is_empty_bytes(v1) or is_empty_bytes(v2)" in g for g in gs):
                got["one"][tag] = val
    rep.check("R13.2", got == want, m, fn, f"early returns: {got}", f"empty / size-mismatch cases must answer {want}")
    # ordering operators on mismatching/empty operands raise; ordering requires 256-bit operands
    t = src(fn)
    rep.check("R13.2", "v1.size() != 256 or v2.size() != 256" in t, m, fn, "ordering comparisons require 256-bit operands", "ordering on other widths must be rejected")
    # the mismatch test precedes the operator arms
    order = [n.lineno for n in body_walk(fn) if isinstance(n, ast.If) and src(n.test) == "v1.size() != v2.size()"]
    first_op = min((x[2].lineno for k in OPS for x in found.get(k, []) if not x[1]), default=0)
    rep.check("R13.2", bool(order) and order[0] < first_op, m, fn, "size-mismatch test precedes the comparison", "comparing operands of different sizes would raise a z3 sort error instead of answering")


def r13_3_sign_and_arity(repo: Repo, rep: Report):
    rep.rule("R13.3", "mk_assert_handler: 'U' exactly for uint256; ordering signatures only over uint256/int256; arity and log index")
    m, fn = repo.fn("assertions.mk_assert_handler")
    sg = [src(v) for v in find_assign(fn, "sign")]
    rep.check("R13.3", sg == ["'U' if typ == 'uint256' else 'S'"], m, fn, f"sign = {sg}", "unsigned comparison exactly for uint256, signed otherwise")
    bop = sorted(src(v) for v in find_assign(fn, "bop"))
    rep.check("R13.3", bop == ["operator", "sign + operator"], m, fn, f"bop = {bop}", "tag must be the operator (Eq/NotEq) or sign + operator")
    ib = [csrc(v) for v in find_assign(fn, "is_binary")]
    hl = [src(v) for v in find_assign(fn, "has_log")]
    ty = [src(v) for v in find_assign(fn, "typ")]
    ok = ib == [csrc("operator not in ['True', 'False']")] and hl == ["len(params) > (2 if is_binary else 1)"] and ty == ["params[0]"]
    rep.check("R13.3", ok, m, fn, f"is_binary = {ib}; has_log = {hl}; typ = {ty}", "arity / log detection changed")
    eqs = [i for i in body_walk(fn) if isinstance(i, ast.If) and csrc(i.test) == csrc("operator in ['Eq', 'NotEq']")]
    rep.check("R13.3", len(eqs) == 1, m, eqs[0] if eqs else fn, "Eq/NotEq keep their tag unsigned/sign-free", "equality must not get a sign prefix")
    rets = [src(r.value) for r in body_walk(fn) if isinstance(r, ast.Return)]
    ok = rets == ["vm_assert_binary(bop, typ, has_log)", "vm_assert_unary(operator == 'True', has_log)"]
    rep.check("R13.3", ok, m, fn, f"returns {rets}", "handler construction changed")
    # apply the repo's own signature regex (a literal) to every table signature
    pat = None
    for c in body_walk(fn):
        if isinstance(c, ast.Call) and src(c.func) == "re.search":
            pat = fold_in(repo, "assertions", c.args[0])
    if not isinstance(pat, str):
        raise AnalysisError("mk_assert_handler: signature regex literal not found")
    rx = re.compile(pat)
    _, tbl = _handler_table(repo)
    n = 0
    for k, v in zip(tbl.keys, tbl.values):
        sig = fold_in(repo, "assertions", v.args[0]) if isinstance(v, ast.Call) and v.args else None
        if not isinstance(sig, str):
            continue
        n += 1
        mm = rx.search(sig)
        if not mm:
            rep.bad("R13.3", m, v, sig, "signature does not match mk_assert_handler's pattern")
            continue
        op, params = mm.group(1), mm.group(2).split(",")
        binary = op not in ("True", "False")
        ok = True
        why = ""
        if binary:
            ok = len(params) in (2, 3) and params[0] == params[1]
            why = "binary assertion needs two operands of the same type"
            if ok and op in ("Lt", "Gt", "Le", "Ge"):
                ok = params[0] in ("uint256", "int256")
                why = "ordering assertion over a type other than uint256/int256 would silently be compared as signed"
            if ok and len(params) == 3:
                ok = params[2] == "string"
                why = "third parameter must be the log message"
        else:
            ok = params[0] == "bool" and (len(params) == 1 or (len(params) == 2 and params[1] == "string"))
            why = "unary assertion must be (bool[,string])"
        rep.check("R13.3", ok, m, v, f"{sig}: operator={op} params={params}", why)
    rep.table("assert signatures parsed", n)
    # log message argument index
    _, vb = repo.fn("assertions.vm_assert_binary")
    idx = {src(c.args[1]) for c in ast.walk(vb) if isinstance(c, ast.Call) and call_name(c) == "extract_string_argument"}
    rep.check("R13.3", idx == {"2"}, m, vb, f"binary: log message argument index {sorted(idx)}", "the log message of a binary assertion is argument 2")
    _, vu = repo.fn("assertions.vm_assert_unary")
    idx = {src(c.args[1]) for c in ast.walk(vu) if isinstance(c, ast.Call) and call_name(c) == "extract_string_argument"}
    rep.check("R13.3", idx == {"1"}, m, vu, f"unary: log message argument index {sorted(idx)}", "the log message of a unary assertion is argument 1")


def r13_4_extractors(repo: Repo, rep: Report):
    rep.rule("R13.4", "operand extractors match the ABI type class")
    m, vb = repo.fn("assertions.vm_assert_binary")
    inner = [f for f in ast.walk(vb) if isinstance(f, ast.FunctionDef) and f.name == "_f"]
    if len(inner) != 4:
        raise AnalysisError(f"vm_assert_binary: expected 4 closures, found {len(inner)}")
    classes = {}
    for f in inner:
        gs = guard_set(m, f)
        key = ("arr" if "arr" in gs else "scalar", "bytes" if "is_bytes" in gs else "word")
        classes[key] = f
    want = {
        ("scalar", "word"): ["extract_bytes(arg, 4, 32)", "extract_bytes(arg, 36, 32)"],
        ("scalar", "bytes"): ["extract_bytes_argument(arg, 0)", "extract_bytes_argument(arg, 1)"],
        ("arr", "word"): ["extract_bytes32_array_argument(arg, 0)", "extract_bytes32_array_argument(arg, 1)"],
    }
    for key, calls in want.items():
        f = classes.get(key)
        got = [src(v) for n in ("v1", "v2") for v in find_assign(f, n)] if f else []
        rep.check("R13.4", got == calls, m, f or vb, f"{key}: v1, v2 = {got}", f"{key} operands must be read with {calls}")
        if f:
            c = [src(v) for v in find_assign(f, "cond")]
            rep.check("R13.4", c == ["mk_cond(bop, v1, v2)"], m, f, f"{key}: cond = {c}", "condition must be mk_cond(bop, v1, v2) (operand order preserved)")
    f = classes.get(("arr", "bytes"))
    ok = f is not None and any(isinstance(s, ast.Raise) and "NotImplementedError" in src(s) for s in f.body)
    rep.check("R13.4", ok, m, f or vb, "bytes[] / string[]: raise NotImplementedError", "nested dynamic arrays must be rejected, not compared as words")
    arr = [src(v) for v in find_assign(vb, "arr")]
    isb = [csrc(v) for v in find_assign(vb, "is_bytes")]
    ok = arr == ["typ.endswith('[]')"] and isb == [csrc("typ in ['bytes', 'string']")]
    rep.check("R13.4", ok, m, vb, f"arr = {arr}; is_bytes = {isb}", "type classification changed")
    _, vu = repo.fn("assertions.vm_assert_unary")
    t = src(vu)
    ok = "actual = uint256(arg.get_word(4))" in t and "cond = test(actual, expected)" in t
    rep.check("R13.4", ok, m, vu, "unary: cond = test(uint256(arg.get_word(4)), expected)", "assertTrue/False must test the first argument word")
    mu, tf = repo.fn("utils.test")
    t = src(tf)
    ok = "return x.is_non_zero().as_z3() if b else x.is_zero().as_z3()" in t
    rep.check("R13.4", ok, mu, tf, "test(x, True) = x != 0; test(x, False) = x == 0", "truth test inverted")
    # extractors: offset + length layout
    _, eb = repo.fn("utils.extract_bytes_argument")
    t = src(eb)
    ok = "extract_word(data, 4 + arg_idx * 32)" in t and "extract_word(data, 4 + offset)" in t and "extract_bytes(data, 4 + offset + 32, length)" in t
    rep.check("R13.4", ok, mu, eb, "bytes/string: head at 4+32*i, length at 4+offset, data at 4+offset+32, `length` bytes", "dynamic bytes layout changed (equality must be length-sensitive)")
    _, ea = repo.fn("utils.extract_bytes32_array_argument")
    t = src(ea)
    ok = "extract_bytes(data, 4 + arg_idx * 32, 32)" in t and "extract_bytes(data, 4 + offset, 32)" in t and "extract_bytes(data, 4 + offset + 32, length * 32)" in t
    rep.check("R13.4", ok, mu, ea, "T[]: head at 4+32*i, length at 4+offset, data at 4+offset+32, length*32 bytes", "array layout changed (equality must be element-wise over exactly `length` words)")


def r13_8_extractor_helpers(repo: Repo, rep: Report):
    rep.rule("R13.8", "bytes/string operands are the `length` bytes at the encoded offset, unmodified")
    from hsa.origin import origin_text

    m, fn = repo.fn("utils.extract_bytes_argument")
    rets = [r for r in body_walk(fn) if isinstance(r, ast.Return) and r.value is not None]
    texts = sorted(origin_text(m, fn, r.value).replace("$", "") for r in rets)
    core = "extract_bytes(data, 4 + int_of(extract_word(data, 4 + arg_idx * 32), 'symbolic offset for bytes argument') + 32, int_of(extract_word(data, 4 + int_of(extract_word(data, 4 + arg_idx * 32), 'symbolic offset for bytes argument')), 'symbolic size for bytes argument'))"
    want = sorted(["b''", f"bv_value_to_bytes({core}) if is_bv_value({core}) else {core}"])
    alt = sorted(["b''", f"try_bv_value_to_bytes({core})"])
    rep.check("R13.8", texts in (want, alt), m, fn, f"extract_bytes_argument returns {[t[:70] for t in texts]}", "the operand must be exactly the encoded bytes (offset word, length word, `length` bytes): stripping, truncating or padding it changes what assertEq/assertNotEq on bytes and strings compare (e.g. 'ab\\x00' == 'ab')")
    bad = [c for c in body_walk(fn) if isinstance(c, ast.Call) and last_attr(c) in ("strip", "rstrip", "lstrip", "replace", "removesuffix", "removeprefix", "ljust", "rjust", "zfill")]
    rep.check("R13.8", not bad, m, bad[0] if bad else fn, f"extract_bytes_argument: value-rewriting calls: {[src(c)[:40] for c in bad]}", "operand bytes rewritten")
    m2, fs = repo.fn("utils.extract_string_argument")
    rets = [origin_text(m2, fs, r.value).replace("$", "") for r in body_walk(fs) if isinstance(r, ast.Return) and r.value is not None]
    ok = rets == ["extract_bytes_argument(data, arg_idx).decode('utf-8') if is_concrete(extract_bytes_argument(data, arg_idx)) else extract_bytes_argument(data, arg_idx)"]
    rep.check("R13.8", ok, m2, fs, f"extract_string_argument returns {[t[:90] for t in rets]}", "string operand must be the decoded bytes argument, unmodified")


def r13_5_branching(repo: Repo, rep: Report):
    rep.rule("R13.5", "vm.assert*: definite failure only on `check(cond) == unsat`; failing branch on `check(not cond) != unsat`; vm.assume appends a branching constraint")
    m, hf = repo.fn("cheatcodes.hevm_cheat_code.handle")
    check_verdict_sites(repo, rep, "R13.5", modules=("cheatcodes",))
    chain = [i for i in hf.body if isinstance(i, ast.If) and src(i.test) == "funsig in assert_cheatcode_handler"]
    if len(chain) != 1:
        raise AnalysisError("hevm handle: `if funsig in assert_cheatcode_handler` arm not found")
    arm = chain[0]
    va = [src(v) for v in find_assign(hf, "vm_assert")]
    rep.check("R13.5", va == ["assert_cheatcode_handler[funsig](arg)"], m, arm, f"vm_assert = {va}", "the handler bound to this selector must evaluate this call's arguments")
    cond = [src(v) for v in find_assign(hf, "cond")]
    rep.check("R13.5", cond == ["vm_assert.cond"], m, arm, f"cond = {cond}", "branching must use the assertion's own condition")
    inner = [i for i in arm.body if isinstance(i, ast.If)]
    ok = len(inner) == 1
    if ok:
        arms = if_chain(inner[0])
        t0, b0 = arms[0]
        t1, b1 = arms[1] if len(arms) > 1 else (None, [])
        ok = src(t0) == "ex.check(cond) == unsat" and t1 is not None and src(t1) == "ex.check(not_cond) != unsat" and len(arms) == 2
        h0 = " ; ".join(src(s) for s in b0)
        h1 = " ; ".join(src(s) for s in b1)
        ok = ok and "ex.halt(data=ByteVec(), error=FailCheatcode(" in h0 and "sevm.create_branch(ex, not_cond, ex.pc)" in h1 and "new_ex.halt(data=ByteVec(), error=FailCheatcode(" in h1 and "stack.push(new_ex)" in h1
    rep.check("R13.5", ok, m, inner[0] if inner else arm, "if check(cond) == unsat: halt(Fail) elif check(not_cond) != unsat: fork failing branch", "assertion failure must be reported for exactly the inputs where the relation is false")
    rets = [r for r in arm.body if isinstance(r, ast.Return)]
    rep.check("R13.5", len(rets) == 1 and src(rets[0].value) == "ret" and arm.body[-1] is rets[0], m, arm, "assert arm returns empty return data (execution continues on the passing side)", "assert cheatcode must continue on the non-failing side")
    # assume
    arms = if_chain(chain[0])
    assume = [(t, b) for t, b in arms if t is not None and src(t) == "funsig == hevm_cheat_code.assume_sig"]
    ok = len(assume) == 1
    if ok:
        body = assume[0][1]
        t = " ; ".join(src(s) for s in body)
        ok = "assume_cond = simplify(BV(arg.get_word(4)).is_non_zero().as_z3())" in t and "ex.path.append(assume_cond, branching=True)" in t and "if is_false(assume_cond):" in src(ast.Module(body=body, type_ignores=[]))
        raises = [r for s in body for r in ast.walk(s) if isinstance(r, ast.Raise)]
        ok = ok and len(raises) == 1 and "InfeasiblePath" in src(raises[0])
    rep.check("R13.5", ok, m, assume[0][0] if assume else hf, "vm.assume: cond = (arg word != 0); InfeasiblePath only if is_false; path.append(cond, branching=True)", "vm.assume must restrict the path to exactly the inputs satisfying the argument")


def r13_6_propagation(repo: Repo, rep: Report):
    rep.rule("R13.6", "a stored failure is re-raised before the next instruction; the FailCheatcode handler ends the whole path")
    m, run = repo.fn("sevm.SEVM.run")
    loop = [w for w in body_walk(run) if isinstance(w, ast.While) and "stack.pop()" in src(w.test)][0]
    rr = [r for r in body_walk(loop) if isinstance(r, ast.Raise) and src(r.exc) == "ex.context.output.error"]
    ok = len(rr) == 1 and "isinstance(ex.context.output.error, PathEndingException)" in guard_set(m, rr[0])
    rep.check("R13.6", ok, m, rr[0] if rr else loop, "if isinstance(ex.context.output.error, PathEndingException): raise it", "a halted failing branch taken from the worklist must end instead of executing further")
    if rr:
        first_insn = min((n.lineno for n in body_walk(loop) if isinstance(n, ast.Assign) and src(n.targets[0]) == "opcode"), default=10**9)
        rep.check("R13.6", rr[0].lineno < first_insn, m, rr[0], "the re-raise precedes instruction dispatch", "failure re-raised after an instruction already ran")
        # the failing branch of a symbolic vm.assert* keeps the negated relation in path.pending until activation: a
        # path that ends before it was activated is reported without the constraint that makes it a failure
        acts = [c for c in body_walk(loop) if isinstance(c, ast.Call) and src(c.func) == "ex.path.activate"]
        ok = len(acts) == 1 and acts[0].lineno < rr[0].lineno and {g.replace(" ", "") for g in guard_set(m, acts[0])} - {g.replace(" ", "") for g in guard_set(m, rr[0])} <= {"not(ex.path.is_activated())", "notex.path.is_activated()"}
        rep.check("R13.6", ok, m, acts[0] if acts else loop, "ex.path.activate() (unless activated) precedes the delayed re-raise", "a delayed failure is yielded with its pending conditions (the negated assertion) not in the path: the reported failing path admits inputs that pass the assertion")
    hs = [h for t in body_walk(run) if isinstance(t, ast.Try) for h in t.handlers if h.type is not None and src(h.type) == "FailCheatcode"]
    ok = len(hs) == 1
    if ok:
        t = src(hs[0])
        ok = "if not ex.is_halted():" in t and "ex.halt(data=ByteVec(), error=err)" in t and "yield ex" in t and "finalize" not in t and isinstance(hs[0].body[-1], ast.Continue)
    rep.check("R13.6", ok, m, hs[0] if hs else run, "except FailCheatcode: halt(data=ByteVec(), error) unless halted; yield ex (no finalize); continue", "a cheatcode failure must end the whole path (not return to the caller) with non-None data")
    mc, hf = repo.fn("cheatcodes.hevm_cheat_code.handle")
    rs = [r for r in body_walk(hf) if isinstance(r, ast.Raise) and "FailCheatcode" in src(r)]
    ok = len(rs) == 1 and "arg == hevm_cheat_code.fail_payload" in guard_set(mc, rs[0])
    rep.check("R13.6", ok, mc, rs[0] if rs else hf, "store(HEVM, 'failed', 1) -> raise FailCheatcode()", "DSTest.fail() must raise the failure")
    me = repo.mod("exceptions")
    _, fc = repo.cls("exceptions.FailCheatcode")
    rep.check("R13.6", [src(b) for b in fc.bases] == ["PathEndingException"], me, fc, "FailCheatcode(PathEndingException)", "FailCheatcode must be a path-ending exception that is neither an EvmException nor a HalmosException")
    _, he = repo.cls("exceptions.HalmosException")
    _, ee = repo.cls("exceptions.EvmException")
    rep.check("R13.6", [src(b) for b in ee.bases] == ["Exception"] and [src(b) for b in he.bases] == ["PathEndingException"], me, ee, "EvmException(Exception); HalmosException(PathEndingException)", "exception hierarchy changed: handlers in SEVM.run would catch the wrong class")
    # handler order in run: InfeasiblePath, EvmException, HalmosException, FailCheatcode are disjoint except via PathEndingException
    # is_global_fail_set covers nested frames (R03.1)
    mm, gf = repo.fn("__main__.is_global_fail_set")
    t = src(gf)
    ok = "isinstance(context.output.error, FailCheatcode)" in t and "is_global_fail_set(x) for x in context.subcalls()" in t
    rep.check("R13.6", ok, mm, gf, "is_global_fail_set: own frame or any nested frame", "failure inside a nested call would be missed")


def r13_9_learned_substitutions(repo: Repo, rep: Report):
    rep.rule("R13.9", "a value is substituted for a term only when a whole, asserted path condition is the equality term == constant")
    m, pc = repo.fn("sevm.Concretization.process_cond")
    stores = [n for n in body_walk(pc) if isinstance(n, ast.Subscript) and isinstance(n.ctx, ast.Store) and src(n.value) == "self.substitution"]
    if not stores:
        raise AnalysisError("process_cond: no substitution store found")
    for n in stores:
        st = m.parents[n]
        gs = guard_set(m, n)
        key, val = src(n.slice), src(st.value) if isinstance(st, ast.Assign) else "?"
        sides = {"left": "cond.arg(0)", "right": "cond.arg(1)"}
        binds = {k: [src(v) for v in find_assign(pc, k)] for k in ("left", "right")}
        tup = [st2 for st2 in body_walk(pc) if isinstance(st2, ast.Assign) and src(st2.targets[0]) in ("(left, right)", "left, right") and src(st2.value) in ("(cond.arg(0), cond.arg(1))", "cond.arg(0), cond.arg(1)")]
        ok = "is_eq(cond)" in gs and f"is_bv_value({val})" in gs and {key, val} == {"left", "right"} and (bool(tup) or all(binds[k] == [sides[k]] for k in sides))
        rep.check("R13.9", ok, m, st, f"process_cond: {src(st)} under {sorted(gs)}", "a substitution is recorded for something else than `term == constant` of the condition itself")
    # the condition handed in is a whole asserted condition: no recursion into sub-terms (polarity is lost there: a
    # disjunct under a negation is assumed false, not true), and the only caller passes the condition it asserts
    inner = [c for c in body_walk(pc) if isinstance(c, ast.Call) and last_attr(c) == "process_cond"]
    for c in inner:
        rep.bad("R13.9", m, c, f"process_cond recurses: {src(c)[:80]} under {sorted(guard_set(m, c))[-2:]}", "equalities are learnt from sub-terms of a condition: unless every step preserves polarity (conjuncts only) the table records the opposite of what was assumed, and vm.assert* on a re-read value silently passes or spuriously fails")
    callers = [(mm, c) for mm in repo.modules.values() for c in ast.walk(mm.tree) if isinstance(c, ast.Call) and last_attr(c) == "process_cond" and mm.qual(c) != "sevm.Concretization.process_cond"]
    ok = len(callers) == 1 and callers[0][0].qual(callers[0][1]) == "sevm.Path.append" and src(callers[0][1].args[0]) == "cond"
    rep.check("R13.9", ok, callers[0][0] if callers else m, callers[0][1] if callers else pc, f"process_cond called from {[mm.qual(c) for mm, c in callers]}", "the learner must be fed exactly the conditions that Path.append asserts")


def r13_10_shared(repo: Repo, rep: Report):
    """the failing branch of vm.assert* is created unless `check(not cond)` is unsat: the solver-free `unsat` answers
    of that check must be sound (shared with C02 R02.2)"""
    from hsa.rules.c02 import r02_2_solver_free_unsat

    r02_2_solver_free_unsat(repo, rep)


def r13_7_shared(repo: Repo, rep: Report):
    """whether an assertion creates a failing branch is decided by Path.check / Exec.check: `unsat` must come from this
    path's own solver state (verdict discipline, shared with C02; fork-copy completeness, shared with C20)"""
    from hsa.rules.c02 import r02_1_verdict_discipline
    from hsa.rules.c20 import r20_1_fork_copies

    r02_1_verdict_discipline(repo, rep)
    r20_1_fork_copies(repo, rep)


RULES = [r13_8_extractor_helpers, r13_7_shared, r13_1_selector_table, r13_2_mk_cond, r13_3_sign_and_arity, r13_4_extractors, r13_5_branching, r13_6_propagation, r13_9_learned_substitutions, r13_10_shared]
