"""C12 — symbolic calldata is a fully general, well-formed ABI encoding."""

from __future__ import annotations

import ast
import re

from hsa.core import AnalysisError, Repo, Report, body_walk, call_name, dotted, find_assign, kwarg, last_attr, src
from hsa.flow import _loop_level
from hsa.fold import fold_in
from hsa.rules.common import csrc, guard_set, if_chain, method_calls

EXPLANATION = (
    "Decides: encode()'s isinstance chain covers every subclass of Type defined in calldata.py and ends in a "
    "raise; every path to a BaseType passes the allow-list regex (evaluated on sample type names: fixed-point "
    "and function types are rejected) with its NotImplementedError; every leaf and every length symbol is a "
    "BitVec whose name contains the leaf's path name, a uid() drawn per symbol and the per-call counter; the "
    "full candidate list of each dynamic parameter is recorded, registered for branching without resetting "
    "earlier registrations, and elements are laid out for max(candidates); the static/dynamic flag of each "
    "arm equals the ABI table and encode_tuple computes heads/tails with the running byte size (offset = bytes "
    "before the tail, head size = size if static else 32); create() returns only after the size self-check. "
    "The head/tail offsets as numbers for concrete type trees are not enumerated."
    ' Also evaluated here: fork-copy completeness (C20 R20.1) for the per-path length substitution, and that the candidates of every created calldata are registered where it is created.'
    ' Round 4: the validating and the extracting pattern of --array-lengths accept the same parameter names (C18 R18.6).'
    ' Round 5: size candidates are registered on the path after extend_path (R12.8).'
)
ASSUMPTIONS = ["the Solidity ABI specification (static vs dynamic types, head/tail layout)"]


def r12_1_type_coverage(repo: Repo, rep: Report):
    rep.rule("R12.1", "encode covers every Type subclass and ends in raise")
    m = repo.mod("calldata")
    subs = [c.name for c in m.tree.body if isinstance(c, ast.ClassDef) and any(src(b) == "Type" for b in c.bases)]
    _, enc = repo.fn("calldata.Calldata.encode")
    handled = []
    for i in enc.body:
        if isinstance(i, ast.If) and isinstance(i.test, ast.Call) and call_name(i.test) == "isinstance" and src(i.test.args[0]) == "typ":
            handled.append(src(i.test.args[1]))
            rets = [r for r in ast.walk(i) if isinstance(r, ast.Return)]
            rep.check("R12.1", bool(rets), m, i, f"isinstance(typ, {src(i.test.args[1])}) arm returns an EncodingResult", "type arm falls through")
    rep.check("R12.1", sorted(handled) == sorted(subs) and len(subs) >= 4, m, enc, f"Type subclasses {sorted(subs)} handled {sorted(handled)}", "a Type subclass has no encoding arm (or an arm for an undefined type)")
    last = enc.body[-1]
    rep.check("R12.1", isinstance(last, ast.Raise), m, last, "encode ends with raise ValueError(typ)", "an unknown type must raise instead of returning None")


def r12_2_allow_list(repo: Repo, rep: Report):
    rep.rule("R12.2", "parse_type: array suffix handled first; primitive types pass the allow-list regex or raise NotImplementedError")
    m, pt = repo.fn("calldata.parse_type")
    pats = [fold_in(repo, "calldata", c.args[0]) for c in body_walk(pt) if isinstance(c, ast.Call) and src(c.func) == "re.search"]
    if len(pats) != 2 or not all(isinstance(p, str) for p in pats):
        raise AnalysisError("parse_type: expected two regex literals")
    arr, allow = re.compile(pats[0]), re.compile(pats[1])
    accept = ["uint256", "uint8", "int128", "int", "uint", "address", "bool", "bytes32", "bytes1", "bytes", "string", "tuple"]
    reject = ["fixed128x18", "ufixed128x18", "fixed", "ufixed", "function", "uint256x", "mapping", "address payable", "bytes32 ", " uint8", "tuple2", ""]
    bad = [t for t in accept if not allow.search(t)] + [t for t in reject if allow.search(t)]
    rep.check("R12.2", not bad, m, pt, f"allow-list {pats[1]!r}: accepts {len(accept)} supported names, rejects {len(reject)} unsupported", f"allow-list misclassifies {bad}")
    arr_ok = all(arr.search(t) for t in ("uint256[]", "uint8[3]", "tuple[][2]", "bytes[]")) and not any(arr.search(t) for t in ("uint256", "bytes32", "tuple"))
    g = arr.search("uint8[3][]")
    arr_ok = arr_ok and g is not None and g.group(1) == "uint8[3]" and g.group(3) == ""
    rep.check("R12.2", arr_ok, m, pt, f"array pattern {pats[0]!r}: outermost dimension is peeled off last-first", "array suffix parsing changed (T[k][] must be a dynamic array of T[k])")
    raises = [r for r in body_walk(pt) if isinstance(r, ast.Raise) and "NotImplementedError" in src(r)]
    ok = len(raises) == 1 and "not (match)" in guard_set(m, raises[0])
    rep.check("R12.2", ok, m, raises[0] if raises else pt, "unsupported type -> raise NotImplementedError", "unsupported types must be rejected with an error")
    bts = [r for r in body_walk(pt) if isinstance(r, ast.Return) and isinstance(r.value, ast.Call) and call_name(r.value) == "BaseType"]
    ok = len(bts) == 1 and raises and bts[0].lineno > raises[0].lineno and src(bts[0].value) == "BaseType(var, typ)"
    rep.check("R12.2", bool(ok), m, bts[0] if bts else pt, "BaseType(var, typ) only after the allow-list check", "a primitive type is accepted without the allow-list check")
    t = src(pt)
    ok = "return DynamicArrayType(var, base)" in t and "return FixedArrayType(var, base, int(array_len))" in t and "if array_len == ''" in t and "base = parse_type('', base_type, item)" in t
    rep.check("R12.2", ok, m, pt, "T[] -> DynamicArrayType; T[k] -> FixedArrayType(k); base parsed recursively", "array types are parsed into the wrong node")
    _, ptt = repo.fn("calldata.parse_tuple_type")
    ok = "[parse_type(item['name'], item['type'], item) for item in items]" in src(ptt)
    rep.check("R12.2", ok, m, ptt, "tuple: every component parsed, in order", "tuple components dropped or reordered")


def _fstr_parts(js: ast.JoinedStr):
    return [src(v.value) for v in js.values if isinstance(v, ast.FormattedValue)]


def r12_3_leaf_freshness(repo: Repo, rep: Report):
    rep.rule("R12.3", "every leaf / length symbol: BitVec whose name has the leaf's path, a per-symbol uid() and the per-call counter")
    m = repo.mod("calldata")
    _, enc = repo.fn("calldata.Calldata.encode")
    _, gds = repo.fn("calldata.Calldata.get_dyn_sizes")
    labels = []
    for fn in (enc, gds):
        bv_name_args = {src(c.args[0]) for c in body_walk(fn) if isinstance(c, ast.Call) and call_name(c) == "BitVec" and c.args and isinstance(c.args[0], ast.Name)}
        for n in body_walk(fn):
            if not isinstance(n, ast.JoinedStr):
                continue
            par = m.parents[n]
            direct = isinstance(par, ast.Call) and call_name(par) == "BitVec" and par.args and par.args[0] is n
            via = isinstance(par, ast.Assign) and isinstance(par.targets[0], ast.Name) and par.targets[0].id in bv_name_args
            if direct or via:
                labels.append((fn, n, par))
    if len(labels) < 2:
        raise AnalysisError("R12.3: symbol labels not found in calldata.py")
    for fn, js, par in labels:
        parts = _fstr_parts(js)
        ok = "name" in parts and "uid()" in parts and "self.new_symbol_id()" in parts
        rep.check("R12.3", ok, m, js, f"{m.qual(js)}: {src(js)[:90]}", "a calldata symbol must be named after its parameter path, with a uid() drawn for this symbol and the per-call counter: otherwise two parameters can become the same symbol (decoded leaves are no longer independent)")
    # the labels flow into BitVec(...)
    bvs = [c for c in body_walk(enc) if isinstance(c, ast.Call) and call_name(c) == "BitVec"]
    ok = len(bvs) == 2 and all(src(c.args[0]) == "new_symbol" for c in bvs) and sorted(src(c.args[1]) for c in bvs) == ["256", "8 * size_pad_right"]
    rep.check("R12.3", ok, m, bvs[0] if bvs else enc, f"leaf symbols: {[src(c) for c in bvs]}", "leaves must be one fresh symbol of 256 bits (static) or 8*padded-size bits (bytes/string)")
    sv = [c for c in body_walk(gds) if isinstance(c, ast.Call) and call_name(c) == "BitVec"]
    ok = len(sv) == 1 and isinstance(sv[0].args[0], ast.JoinedStr) and src(sv[0].args[1]) == "256"
    rep.check("R12.3", ok, m, sv[0] if sv else gds, "length symbol: BitVec(<label>, 256)", "each dynamic parameter needs its own fresh 256-bit length symbol")
    _, init = repo.fn("calldata.Calldata.__init__")
    ok = "self.new_symbol_id = new_symbol_id if new_symbol_id else lambda: ''" in src(init) and "self.dyn_params = []" in src(init)
    rep.check("R12.3", ok, m, init, "Calldata starts with an empty dyn_params list and the caller's counter", "per-call state leaked between calldata objects")
    mk = repo.fn("calldata.mk_calldata")[1]
    rep.check("R12.3", "return Calldata(args, new_symbol_id).create(abi, fun_info)" in src(mk), m, mk, "mk_calldata builds a fresh Calldata per call", "Calldata object reused across calls")


def r12_4_candidates(repo: Repo, rep: Report):
    rep.rule("R12.4", "all length candidates are recorded and registered (never reset); elements laid out for max(candidates)")
    m = repo.mod("calldata")
    _, gds = repo.fn("calldata.Calldata.get_dyn_sizes")
    apps = [c for c in method_calls(gds, "append") if dotted(c.func) == "self.dyn_params.append"]
    ok = len(apps) == 1 and src(apps[0].args[0]) == "DynamicParam(name, sizes, size_var, typ)" and not guard_set(m, apps[0], silent=True)
    rep.check("R12.4", ok, m, apps[0] if apps else gds, src(apps[0]) if apps else "self.dyn_params.append(...)", "every dynamic parameter must be recorded with its full candidate list and its own length symbol")
    sz = [src(v) for v in find_assign(gds, "sizes")]
    ok = sz == ["self.args.array_lengths.get(name)", "self.args.default_array_lengths if isinstance(typ, DynamicArrayType) else self.args.default_bytes_lengths"]
    rep.check("R12.4", ok, m, gds, f"sizes = {sz}", "candidates must come from --array-lengths[name], else the defaults for arrays / bytes")
    rets = [src(r.value) for r in body_walk(gds) if isinstance(r, ast.Return)]
    rep.check("R12.4", rets == ["(sizes, size_var)"], m, gds, f"get_dyn_sizes returns {rets}", "must return the candidate list and the length symbol")
    _, enc = repo.fn("calldata.Calldata.encode")
    t = src(enc)
    ok = "for i in range(max(sizes))" in t and [src(v) for v in find_assign(enc, "size")] == ["max(sizes)"]
    rep.check("R12.4", ok, m, enc, "arrays: range(max(sizes)); bytes: size = max(sizes)", "the payload must be laid out for the largest candidate (any order of the list); a smaller layout makes longer inputs read as zeros")
    ms, pdp = repo.fn("sevm.Concretization.process_dyn_params")
    body = [s for s in pdp.body if not (isinstance(s, ast.Expr) and isinstance(s.value, ast.Constant))]
    ok = len(body) == 1 and isinstance(body[0], ast.For) and src(body[0].iter) == "dyn_params" and [src(s) for s in body[0].body] == ["self.candidates[d.size_symbol] = d.size_choices"]
    rep.check("R12.4", ok, ms, pdp, "process_dyn_params: candidates[d.size_symbol] = d.size_choices for every d (nothing else)", "registering a calldata's candidates must not drop, filter or reset the candidates of another calldata on the same path")
    _, ppd = repo.fn("sevm.Path.process_dyn_params")
    rep.check("R12.4", "self.concretization.process_dyn_params(dyn_params)" in src(ppd), ms, ppd, "Path.process_dyn_params delegates to the path's concretization", "candidates registered on the wrong object")
    # every producer registers its dyn_params on the path that will execute the calldata
    for q, frag in (("__main__.run_message", "path.process_dyn_params(dyn_params)"), ("__main__.run_target_function", "path.process_dyn_params(dyn_params)"), ("__main__.setup", "setup_ex.path.process_dyn_params(dyn_params)"), ("cheatcodes.create_calldata_generic", "ex.path.process_dyn_params(dyn_params)")):
        mm, fn = repo.fn(q)
        rep.check("R12.4", frag in src(fn), mm, fn, f"{q}: {frag}", "candidates of this calldata are never registered: its length stays symbolic and is not explored per candidate")
    # ... in the same block as (i.e. once per) the creation of the calldata: a registration outside the loop that creates
    # several calldata registers only the last one
    n_pairs = 0
    for mm in repo.modules.values():
        for q, fn in mm.defs.items():
            if not isinstance(fn, (ast.FunctionDef, ast.AsyncFunctionDef)):
                continue
            for st in body_walk(fn):
                if not (isinstance(st, ast.Assign) and isinstance(st.value, ast.Call) and call_name(st.value) == "mk_calldata" and isinstance(st.targets[0], (ast.Tuple, ast.List)) and len(st.targets[0].elts) == 2 and isinstance(st.targets[0].elts[1], ast.Name)):
                    continue
                dname = st.targets[0].elts[1].id
                parent = mm.parents.get(st)
                block = next((lst for fld in ("body", "orelse", "finalbody") if isinstance(lst := getattr(parent, fld, None), list) and any(x is st for x in lst)), None)
                later = []
                if block is not None:
                    idx = next(i for i, x in enumerate(block) if x is st)
                    for x in block[idx + 1:]:
                        for c in ast.walk(x):
                            if isinstance(c, ast.Call) and last_attr(c) == "process_dyn_params" and c.args and src(c.args[0]) == dname:
                                later.append(c)
                            elif isinstance(c, ast.Call) and isinstance(c.func, ast.Name) and any(isinstance(a, ast.Name) and a.id == dname for a in c.args):
                                # handed to a function of the package that registers its parameter
                                for mod2 in repo.modules.values():
                                    g = mod2.defs.get(c.func.id)
                                    if isinstance(g, (ast.FunctionDef, ast.AsyncFunctionDef)):
                                        pos = next(i for i, a in enumerate(c.args) if isinstance(a, ast.Name) and a.id == dname)
                                        params = [a.arg for a in g.args.args]
                                        if pos < len(params) and any(isinstance(c2, ast.Call) and last_attr(c2) == "process_dyn_params" and c2.args and src(c2.args[0]) == params[pos] for c2 in ast.walk(g)):
                                            later.append(c)
                n_pairs += 1
                rep.check("R12.4", len(later) >= 1, mm, st, f"{mm.name}.{q}: {src(st.targets[0])} = mk_calldata(...) is followed in the same block by process_dyn_params({dname})", "the candidates of each created calldata must be registered where it is created (per loop iteration): otherwise only the last calldata's lengths are explored")
    if n_pairs < 4:
        raise AnalysisError(f"R12.4: only {n_pairs} mk_calldata producers found (setup, run_target_function, run_message, create_calldata_generic expected)")
    # the branch point
    _, cl = repo.fn("sevm.SEVM.calldataload")
    loops = [l for l in body_walk(cl) if isinstance(l, ast.For)]
    ok = len(loops) == 1 and src(loops[0].iter) == "ex.path.concretization.candidates[loaded]" and "loaded in ex.path.concretization.candidates" in guard_set(ms, loops[0])
    rep.check("R12.4", ok, ms, loops[0] if loops else cl, "calldataload: one branch per registered candidate of the loaded length symbol", "length symbol is not branched over its candidates")
    if loops:
        cb = [c for c in body_walk(loops[0]) if isinstance(c, ast.Call) and last_attr(c) == "create_branch"]
        ok = len(cb) == 1 and src(cb[0].args[1]) == "loaded == candidate" and "new_ex.st.push_any(candidate)" in src(loops[0])
        rep.check("R12.4", ok, ms, cb[0] if cb else loops[0], "branch condition `loaded == candidate`, pushes the candidate", "each branch must fix the length to its candidate")


def r12_5_static_dynamic(repo: Repo, rep: Report):
    rep.rule("R12.5", "static/dynamic flags equal the ABI table; encode_tuple head/tail arithmetic uses the running byte size")
    m = repo.mod("calldata")
    _, enc = repo.fn("calldata.Calldata.encode")
    flags = {}
    for i in enc.body:
        if isinstance(i, ast.If) and isinstance(i.test, ast.Call) and call_name(i.test) == "isinstance":
            ty = src(i.test.args[1])
            for r in ast.walk(i):
                if isinstance(r, ast.Return) and isinstance(r.value, ast.Call) and call_name(r.value) == "EncodingResult":
                    gs = guard_set(m, r)
                    cgs = {csrc(g) for g in gs}
                    key = ty + (":bytes" if csrc("typ.typ in ['bytes', 'string']") in cgs else (":word" if csrc("typ.typ not in ['bytes', 'string']") in cgs else ""))
                    flags[key] = (src(r.value.args[0]), src(r.value.args[1]), src(r.value.args[2]))
                elif isinstance(r, ast.Return):
                    flags[ty] = ("encode_tuple", src(r.value), "")
    want = {
        "TupleType": ("encode_tuple", "self.encode_tuple(items)", ""),
        "FixedArrayType": ("encode_tuple", "self.encode_tuple(items)", ""),
        "DynamicArrayType": ("[size_var] + encoded.data", "32 + encoded.size", "False"),
        "BaseType:bytes": ("[size_var] + data", "32 + size_pad_right", "False"),
        "BaseType:word": ("[BitVec(new_symbol, 256)]", "32", "True"),
    }
    for k, v in want.items():
        rep.check("R12.5", flags.get(k) == v, m, enc, f"{k}: data={flags.get(k, ('?',))[0]} size={flags.get(k, ('', '?'))[1]} static={flags.get(k, ('', '', '?'))[2]}", f"ABI: {k} must encode as data={v[0]}, size={v[1]}, static={v[2] or 'per members'}")
    spr = [src(v) for v in find_assign(enc, "size_pad_right")]
    rep.check("R12.5", spr == ["(size + 31) // 32 * 32"], m, enc, f"size_pad_right = {spr}", "bytes payload must be padded to a multiple of 32")
    items = sorted(set(src(v) for v in find_assign(enc, "items")))
    ok = items == sorted(["[self.encode(f'{prefix}{item.var}', item) for item in typ.items]", "[self.encode(f'{name}[{i}]', typ.base) for i in range(typ.size)]", "[self.encode(f'{name}[{i}]', typ.base) for i in range(max(sizes))]"])
    rep.check("R12.5", ok, m, enc, f"members encoded: {items}", "every member must be encoded, in order, under its own path name")
    _, et = repo.fn("calldata.Calldata.encode_tuple")
    hs = [f for f in ast.walk(et) if isinstance(f, ast.FunctionDef) and f.name == "head_size"]
    ok = len(hs) == 1 and "return x.size if x.static else 32" in src(hs[0])
    rep.check("R12.5", ok, m, hs[0] if hs else et, "head_size(x) = x.size if x.static else 32", "a dynamic member occupies one offset word in the head; a static one its full size")
    ths = [src(v) for v in find_assign(et, "total_head_size")]
    rep.check("R12.5", ths == ["reduce(lambda s, x: s + head_size(x), items, 0)"], m, et, f"total_head_size = {ths}", "total head size is the sum of the head sizes")
    ts = [n for n in body_walk(et) if isinstance(n, (ast.Assign, ast.AugAssign)) and src(n.targets[0] if isinstance(n, ast.Assign) else n.target) == "total_size"]
    ok = len(ts) == 2 and isinstance(ts[0], ast.Assign) and src(ts[0].value) == "total_head_size" and isinstance(ts[1], ast.AugAssign) and isinstance(ts[1].op, ast.Add) and src(ts[1].value) == "item.size" and "not (item.static)" in guard_set(m, ts[1])
    rep.check("R12.5", ok, m, ts[0] if ts else et, f"total_size starts at total_head_size; += item.size per dynamic item", "the running size must count the bytes of every tail emitted so far")
    loops = [l for l in body_walk(et) if isinstance(l, ast.For) and src(l.iter) == "items"]
    ok = len(loops) == 1
    if ok:
        b = loops[0].body
        ok = len(b) == 1 and isinstance(b[0], ast.If) and src(b[0].test) == "item.static" and [src(s) for s in b[0].body] == ["heads.extend(item.data)"] and [src(s) for s in b[0].orelse] == ["heads.append(con(total_size))", "tails.extend(item.data)", "total_size += item.size"]
    rep.check("R12.5", ok, m, loops[0] if loops else et, "static: head = data; dynamic: head = offset(total_size so far), tail = data, then total_size += size", "offset of a dynamic member must be the byte count of heads plus all earlier tails, taken before its own tail is added")
    st = [src(v) for v in find_assign(et, "static")]
    rets = [src(r.value) for r in body_walk(et) if isinstance(r, ast.Return) and m.enclosing_func(r) is et]
    ok = st == ["len(tails) == 0"] and rets == ["EncodingResult(heads + tails, total_size, static)"]
    rep.check("R12.5", ok, m, et, f"static = {st}; returns {rets}", "a tuple is static iff it has no dynamic member; data is heads followed by tails")


def r12_6_create(repo: Repo, rep: Report):
    rep.rule("R12.6", "create(): selector first, all encoded words appended in order, size self-check before returning")
    m, cr = repo.fn("calldata.Calldata.create")
    t = src(cr)
    from hsa.origin import origin_text

    top_apps = [c for c in body_walk(cr) if isinstance(c, ast.Call) and dotted(c.func) == "calldata.append" and not any(isinstance(a, (ast.For, ast.While)) for a in m.ancestors(c))]
    first_is_selector = bool(top_apps) and origin_text(m, cr, top_apps[0].args[0]).replace("$", "") == "bytes.fromhex(fun_info.selector)"
    ok = first_is_selector and len(top_apps) == 1 and "tuple_type = parse_tuple_type('', fun_abi['inputs'])" in t and "encoded = self.encode('', tuple_type)" in t
    rep.check("R12.6", ok, m, cr, "selector, then encode('', tuple of inputs)", "calldata must be selector || enc(inputs)")
    loops = [l for l in body_walk(cr) if isinstance(l, ast.For)]
    ok = len(loops) == 1 and src(loops[0].iter) == "encoded.data" and [src(s) for s in loops[0].body] == ["calldata.append(data)"]
    rep.check("R12.6", ok, m, loops[0] if loops else cr, "for data in encoded.data: calldata.append(data)", "encoded words dropped or filtered")
    chk = [i for i in body_walk(cr) if isinstance(i, ast.If) and src(i.test) == "calldata_size != encoded.size"]
    ok = len(chk) == 1 and any(isinstance(s, ast.Raise) for s in chk[0].body) and [src(v) for v in find_assign(cr, "calldata_size")] == ["len(calldata) - starting_size"]
    rep.check("R12.6", ok, m, chk[0] if chk else cr, "if calldata_size != encoded.size: raise", "the size self-check is the only run-time guard of the encoder's bookkeeping")
    rets = [r for r in body_walk(cr) if isinstance(r, ast.Return)]
    ok = len(rets) == 2 and all(src(r.value) == "(calldata, self.dyn_params)" for r in rets) and chk and rets[-1].lineno > chk[0].lineno and "not (tuple_type.items)" in guard_set(m, rets[0])
    rep.check("R12.6", bool(ok), m, rets[-1] if rets else cr, "returns (calldata, dyn_params) after the check (or early for no parameters)", "create must return the calldata together with all dynamic parameter records")


def r12_8_registration_survives(repo: Repo, rep: Report):
    rep.rule("R12.8", "size candidates are registered on the path after it was extended from the previous state (extend_path replaces the path's Concretization)")
    n = 0
    for modname in ("__main__", "sevm", "cheatcodes"):
        m = repo.mod(modname)
        for q, fn in repo.functions(modname):
            ext = [c for c in body_walk(fn) if isinstance(c, ast.Call) and last_attr(c) == "extend_path" and isinstance(c.func, ast.Attribute)]
            reg = [c for c in body_walk(fn) if isinstance(c, ast.Call) and last_attr(c) == "process_dyn_params" and isinstance(c.func, ast.Attribute)]
            for r in reg:
                for e in ext:
                    if src(e.func.value) == src(r.func.value):
                        n += 1
                        rep.check("R12.8", e.lineno < r.lineno, m, r, f"{modname}.{q}: {src(e)[:40]} precedes {src(r)[:50]}", "the candidates registered for the new calldata are discarded when the path is then extended from the previous state: calldataload never branches over the configured lengths")
    # extend_path really replaces the concretization (if it merged instead, the order would not matter)
    ms, ep = repo.fn("sevm.Path.extend_path")
    rep.check("R12.8", any(isinstance(st, ast.Assign) and src(st.targets[0]) == "self.concretization" for st in body_walk(ep)), ms, ep, "Path.extend_path rebinds self.concretization", "anchor changed: extend_path no longer replaces the concretization")
    rep.floor("R12.8", 2, "extend_path / process_dyn_params pairs")


def r12_7_shared(repo: Repo, rep: Report):
    """the length substitution of a path (Concretization) must be the path's own: fork-copy completeness (shared with C20)"""
    from hsa.rules.c20 import r20_1_fork_copies, r20_5_uid_nominal

    r20_1_fork_copies(repo, rep)
    # leaf symbols are distinct because their names are: uid() must be fresh per call
    r20_5_uid_nominal(repo, rep)
    # the configured size candidates reach get_dyn_sizes under the name they were given
    from hsa.rules.c18 import r18_6b_array_length_patterns

    rep.rule("R18.6", "--array-lengths: validated names are extracted whole")
    r18_6b_array_length_patterns(repo, rep)


RULES = [r12_7_shared, r12_1_type_coverage, r12_2_allow_list, r12_3_leaf_freshness, r12_4_candidates, r12_5_static_dynamic, r12_6_create, r12_8_registration_survives]
