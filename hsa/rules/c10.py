"""C10 — incomplete exploration is always reported."""

from __future__ import annotations

import ast

from hsa.core import AnalysisError, Repo, Report, body_walk, call_name, dotted, find_assign, kwarg, last_attr, src, stmt_of
from hsa.flow import _loop_level
from hsa.fold import UNKNOWN, fold_in
from hsa.origin import origin_text
from hsa.rules.common import guard_set, if_chain, longest_if_chain, method_calls

EXPLANATION = (
    "Decides that every place where exploration is cut is paired with its report: the loop bound in jumpi "
    "appends to the engine's bounded-loop log exactly when a feasible side is not followed, the bound is "
    "compared only for symbolic conditions (constant loops are never cut) and the per-path counters are "
    "incremented per followed side; the --depth cut warns before dropping the state; the --width cut warns "
    "before leaving the path loop; stuck paths are collected (kept unless proved infeasible) and force a "
    "non-PASS status; stuck or failing invariant target calls are reported with error(); every SEVM instance's "
    "loop log flows into a LOOP_BOUND warning in the function that created it (setUp, test, invariant target "
    "call); cut reports must not go through the process-wide de-duplicating logger; an unsupported opcode "
    "raises HalmosException (stuck -> ERROR). It does not run programs with loops."
    " Also decided: nothing replaces or empties an engine's loop log after its construction."
    ' Round 4: every SEVM construction in __main__ is bound to a local (an engine built inline has a loop log nobody reads).'
    " Round 5: setUp paths leave the classification loop only through the warning arm or as candidates (R10.6); the loop log is read after the last consumer of the lazy engine's states; C03 R03.4 is evaluated here too."
    ' Round 7: a branch answered unsat without the solver is a silent cut, so the solver-free shortcuts must be the reviewed ones (C02 R02.2).'
)
ASSUMPTIONS = ["logging delivers warn()/error() records", "C05 R05.1: stuck paths exclude PASS"]


def r10_1_cut_report_pairing(repo: Repo, rep: Report):
    rep.rule("R10.1", "each cut site is dominated by / paired with its report (loop bound, --depth, --width, stuck, target-call failures)")
    # (a) loop bound
    m, jf = repo.fn("sevm.SEVM.jumpi")
    apps = [c for c in method_calls(jf, "append") if dotted(c.func) == "self.logs.bounded_loops.append"]
    if len(apps) != 1:
        rep.bad("R10.1", m, jf, "self.logs.bounded_loops.append(jid)", "the unrolling bound is applied without being logged")
    else:
        a = apps[0]
        gs = guard_set(m, a)
        ok = "is_symbolic_cond" in gs and "unroll_limit_reached_true or unroll_limit_reached_false" in gs and src(a.args[0]) == "jid"
        rep.check("R10.1", ok, m, a, f"{src(a)} under {sorted(gs)}", "the bounded-loop log must be written whenever either feasible side is cut")
    for side in ("true", "false"):
        v = [src(x) for x in find_assign(jf, f"unroll_limit_reached_{side}")]
        ok = v == [f"potential_{side} and (not follow_{side})"]
        rep.check("R10.1", ok, m, jf, f"unroll_limit_reached_{side} = {v}", f"limit-reached flag must be `potential_{side} and not follow_{side}` (a feasible side that is not followed)")
    isc = [src(x) for x in find_assign(jf, "is_symbolic_cond")]
    rep.check("R10.1", isc == ["not (must_true or must_false)"], m, jf, f"is_symbolic_cond = {isc}", "a condition is constant only if the solver is certain of one side (must_true/must_false)")
    mt = [src(x) for x in find_assign(jf, "must_true")]
    mf = [src(x) for x in find_assign(jf, "must_false")]
    ok = mt == ["check_true == sat and check_false == unsat"] and mf == ["check_true == unsat and check_false == sat"]
    rep.check("R10.1", ok, m, jf, f"must_true = {mt}; must_false = {mf}", "certainty needs sat on one side AND unsat on the other (unsat alone can stem from an already infeasible path)")
    # the bound is read only under is_symbolic_cond
    for n in body_walk(jf):
        if isinstance(n, ast.Attribute) and src(n) == "self.options.loop":
            gs = guard_set(m, n)
            rep.check("R10.1", "is_symbolic_cond" in gs, m, n, f"self.options.loop read under {sorted(gs)}", "loops with a concrete condition must never be cut by --loop")
    # per-path counters
    vis = [src(x) for x in find_assign(jf, "visited")]
    rep.check("R10.1", vis == ["ex.jumpis.get(jid, {True: 0, False: 0})"], m, jf, f"visited = {vis}", "visit counters must be read from this path's own jumpis")
    want = {"new_ex_true": "{True: visited[True] + 1, False: visited[False]}", "new_ex_false": "{True: visited[True], False: visited[False] + 1}"}
    for var, val in want.items():
        sts = [s for s in body_walk(jf) if isinstance(s, ast.Assign) and src(s.targets[0]) == f"{var}.jumpis[jid]"]
        ok = len(sts) == 1 and src(sts[0].value) == val and "is_symbolic_cond" in guard_set(m, sts[0])
        rep.check("R10.1", ok, m, sts[0] if sts else jf, f"{src(sts[0]) if sts else var + '.jumpis[jid] = ?'}", "the followed side must increment its own visit counter (otherwise the bound is never reached or reached too early)")
    jid = [src(x) for x in find_assign(jf, "jid")]
    rep.check("R10.1", jid == ["ex.jumpid()"], m, jf, f"jid = {jid}", "loop identity must be ex.jumpid()")
    # (b) --depth
    m, run = repo.fn("sevm.SEVM.run")
    cuts = [c for c in body_walk(run) if isinstance(c, ast.Continue) and "max_depth" in guard_set(m, c)]
    if len(cuts) != 1:
        rep.bad("R10.1", m, run, "--depth cut", f"expected exactly one --depth cut, found {len(cuts)}")
    else:
        blk = m.parents[cuts[0]]
        warns = [c for s in blk.body for c in ast.walk(s) if isinstance(c, ast.Call) and call_name(c) in ("warn", "warn_code", "error") and "--depth" in src(c)]
        ok = isinstance(blk, ast.If) and len(warns) == 1 and warns[0].lineno < cuts[0].lineno and src(blk.test) == "max_depth and step_id > max_depth"
        rep.check("R10.1", ok, m, cuts[0], f"if {src(blk.test) if isinstance(blk, ast.If) else '?'}: warn(... --depth ...); continue", "a state dropped by --depth must be preceded by a warning naming the test")
        if warns:
            rep.check("R10.1", "self.fun_info.sig" in src(warns[0]), m, warns[0], "the --depth warning names the test function", "the warning must identify the affected test")
    md = [src(x) for x in find_assign(run, "max_depth")]
    rep.check("R10.1", md == ["self.options.depth"], m, run, f"max_depth = {md}", "--depth must come from the options")
    # (c) --width
    m2, rt = repo.fn("__main__.run_test")
    wb = [b for b in body_walk(rt) if isinstance(b, ast.Break) and "args.width" in guard_set(m2, b)]
    if len(wb) != 1:
        rep.bad("R10.1", m2, rt, "--width cut", f"expected exactly one --width cut, found {len(wb)}")
    else:
        blk = m2.parents[wb[0]]
        warns = [c for s in blk.body for c in ast.walk(s) if isinstance(c, ast.Call) and call_name(c) in ("warn", "warn_code", "error")]
        ok = len(warns) >= 1 and warns[0].lineno < wb[0].lineno and "--width" in src(blk) and "funsig" in src(warns[0])
        rep.check("R10.1", ok, m2, wb[0], f"if {src(blk.test)}: warn(... --width ...); break", "the --width cut must warn (naming the test) before leaving the path loop")
    # (d) stuck paths are collected and reported
    sa = [c for c in method_calls(rt, "append") if dotted(c.func) == "stuck.append"]
    ok = len(sa) == 1 and "ex.context.is_stuck()" in guard_set(m2, sa[0]) and "solver_output.result != unsat" in guard_set(m2, sa[0])
    rep.check("R10.1", ok, m2, sa[0] if sa else rt, f"stuck.append(...) under {sorted(guard_set(m2, sa[0]))[-3:] if sa else '?'}", "a stuck path must be recorded unless it is proved infeasible")
    loops = [l for l in body_walk(rt) if isinstance(l, ast.For) and src(l.iter) == "stuck"]
    ok = len(loops) == 1 and "warn_code(INTERNAL_ERROR" in src(loops[0])
    rep.check("R10.1", ok, m2, loops[0] if loops else rt, "for ... in stuck: warn_code(INTERNAL_ERROR, ...)", "every stuck path must be reported")
    # (e) stuck / failing invariant target calls
    m3, cf = repo.fn("__main__._compute_frontier")
    conts = [c for c in body_walk(cf) if isinstance(c, ast.Continue) and "subcall.is_stuck()" in guard_set(m3, c)]
    ok = len(conts) == 1
    if ok:
        blk = m3.parents[conts[0]]
        ok = any(isinstance(c, ast.Call) and call_name(c) == "error" and "get_stuck_reason()" in src(c) for s in blk.body for c in ast.walk(s))
    rep.check("R10.1", ok, m3, conts[0] if conts else cf, "if subcall.is_stuck(): error(...); continue", "a stuck target call must be reported before it is skipped")
    # no other skip may come first: every other `continue` of the post-state loop is reached only for non-stuck calls
    others = [c for c in body_walk(cf) if isinstance(c, ast.Continue) and c not in conts]
    late = [c for c in others if "not (subcall.is_stuck())" not in guard_set(m3, c)]
    rep.check("R10.1", not late, m3, late[0] if late else cf, f"{len(others)} other skips are all guarded by `not subcall.is_stuck()`", "a post-state can be skipped (e.g. as an ordinary revert) before the stuck check: an unsupported feature in a target call goes unreported")
    _, rtc = repo.fn("__main__.run_target_contract")
    hs = [h for t in body_walk(rtc) if isinstance(t, ast.Try) for h in t.handlers]
    ok = bool(hs) and all(any(isinstance(c, ast.Call) and call_name(c) == "error" for c in ast.walk(h)) for h in hs)
    rep.check("R10.1", ok, m3, hs[0] if hs else rtc, "run_target_contract: except Exception: error(...); continue", "an exception in a target call must be reported")
    # (f) unsupported opcode -> HalmosException (stuck)
    chain = longest_if_chain(run, "opcode")
    arms = if_chain(chain)
    last_test, last_body = arms[-1]
    all_raises = [r for s in last_body for r in ast.walk(s) if isinstance(r, ast.Raise)]
    ok = last_test is None and bool(all_raises) and all(r.exc is not None and "HalmosException" in src(r.exc) for r in all_raises) and isinstance(last_body[-1], ast.Raise)
    rep.check("R10.1", ok, m, last_body[0] if last_body else chain, f"dispatch else: every exit is `raise HalmosException(...)` ({len(all_raises)} raise site(s))", "an opcode without an arm must stop the path with an internal error (stuck -> ERROR); any other exception type (InvalidOpcode, ...) turns a not-implemented instruction into an ordinary revert that is silently ignored")
    hs = [h for t in body_walk(run) if isinstance(t, ast.Try) for h in t.handlers if h.type is not None and src(h.type) == "HalmosException"]
    ok = len(hs) == 1 and "ex.halt(data=None, error=err)" in src(hs[0]) and "finalize(ex)" in src(hs[0])
    rep.check("R10.1", ok, m, hs[0] if hs else run, "except HalmosException: ex.halt(data=None, error=err); finalize", "internal errors must end the path as stuck (data=None)")
    _, isf = repo.fn("sevm.CallContext.is_stuck")
    ok = "data is None or isinstance(error, HalmosException)" in src(isf)
    rep.check("R10.1", ok, m, isf, "is_stuck: data is None or error is a HalmosException", "stuck detection changed")


def r10_2_loop_logs_reported(repo: Repo, rep: Report):
    rep.rule("R10.2", "every SEVM instance's bounded-loop log flows into a LOOP_BOUND warning in the function that created it")
    m = repo.mod("__main__")
    n = 0
    for q, fn in repo.functions("__main__"):
        for st in body_walk(fn):
            if isinstance(st, ast.Assign) and isinstance(st.value, ast.Call) and call_name(st.value) == "SEVM" and isinstance(st.targets[0], ast.Name):
                n += 1
                var = st.targets[0].id
                aliases = {f"{var}.logs"}
                for name in ("logs",):
                    if [src(v) for v in find_assign(fn, name)] == [f"{var}.logs"]:
                        aliases.add(name)
                reports = [c for c in body_walk(fn) if isinstance(c, ast.Call) and call_name(c) == "warn_code" and c.args and src(c.args[0]) == "LOOP_BOUND"]
                ok = False
                for r in reports:
                    gs = guard_set(m, r)
                    if any(f"{a}.bounded_loops" in gs for a in aliases):
                        ok = True
                        if kwarg(r, "allow_duplicate") is not None and fold_in(repo, "__main__", kwarg(r, "allow_duplicate")) is False:
                            ok = False
                rep.check("R10.2", ok, m, st, f"__main__.{q}: {src(st)} -> warn_code(LOOP_BOUND, ...) if {var}.logs.bounded_loops", "this engine's loop log is never reported: a loop cut in it yields a clean result")
                # the engine runs lazily (run / run_message are generators): the log is complete only after the last
                # statement that consumes its states
                gens = set()
                consumers = []
                def runs_engine(call):
                    if dotted(call.func) in (f"{var}.run", f"{var}.run_message"):
                        return True
                    # a generator function of this module that is handed the engine (run_message(ctx, sevm, ..))
                    if isinstance(call.func, ast.Name) and any(isinstance(a, ast.Name) and a.id == var for a in call.args):
                        callee = m.defs.get(call.func.id)
                        return callee is not None and any(isinstance(y, (ast.Yield, ast.YieldFrom)) for y in ast.walk(callee))
                    return False

                for x in body_walk(fn):
                    if isinstance(x, ast.Assign) and isinstance(x.value, ast.Call) and runs_engine(x.value) and isinstance(x.targets[0], ast.Name):
                        gens.add(x.targets[0].id)
                for x in body_walk(fn):
                    if not isinstance(x, ast.stmt) or isinstance(x, (ast.FunctionDef, ast.Try, ast.If, ast.With)):
                        continue
                    if isinstance(x, ast.Assign) and isinstance(x.value, ast.Call) and runs_engine(x.value):
                        continue
                    heads = [x.iter] if isinstance(x, (ast.For, ast.AsyncFor)) else ([x.test] if isinstance(x, ast.While) else [x])
                    for h in heads:
                        if any((isinstance(n, ast.Name) and n.id in gens and isinstance(n.ctx, ast.Load)) or (isinstance(n, ast.Call) and runs_engine(n)) for n in ast.walk(h)):
                            consumers.append(x)
                guarded = [r for r in reports if any(f"{a}.bounded_loops" in guard_set(m, r) for a in aliases)]
                if consumers and guarded:
                    # document order by traversal (line numbers are not reliable in the normalised view)
                    order = {}

                    def number(node):
                        order[id(node)] = len(order)
                        for ch in ast.iter_child_nodes(node):
                            number(ch)

                    number(fn)
                    last = max(order[id(y)] for x in consumers for y in ast.walk(x) if isinstance(y, (ast.stmt, ast.expr)))  # (Load/Store/operator nodes are shared singletons)
                    late = all(order[id(r)] > last for r in guarded)
                    rep.check("R10.2", late, m, guarded[0], f"__main__.{q}: the loop-log test follows the last consumer of {var}'s states", "the loop log is read before the (lazy) engine has run: it is still empty, so the LOOP_BOUND warning can never fire")
                elif not consumers:
                    raise AnalysisError(f"R10.2: no consumer of {var}.run / run_message found in __main__.{q}")
    if n < 3:
        raise AnalysisError(f"R10.2: only {n} SEVM constructions found in __main__ (setUp, test, target call expected)")
    # an engine that is not bound to a name (constructed inline as an argument) has a log nobody can read afterwards
    for c in ast.walk(m.tree):
        if isinstance(c, ast.Call) and call_name(c) == "SEVM":
            par = m.parents.get(c)
            bound = isinstance(par, ast.Assign) and par.value is c and len(par.targets) == 1 and isinstance(par.targets[0], ast.Name)
            rep.check("R10.2", bound, m, c, f"__main__.{m.qual(c)}: {src(c)} is bound to a local", "an engine constructed inline runs code (deployment, constructor) whose loop cuts are recorded in a log that is dropped with it")
    # the engine's log object is created per engine and only appended to
    ms, init = repo.fn("sevm.SEVM.__init__")
    rep.check("R10.2", "self.logs = HalmosLogs()" in src(init), ms, init, "SEVM.__init__: self.logs = HalmosLogs()", "each engine must own a fresh loop log")
    # the log lives as long as the engine: between its creation and the report nothing may replace or empty it
    writers = []
    for mm in repo.modules.values():
        for n in ast.walk(mm.tree):
            if isinstance(n, ast.Attribute) and isinstance(n.ctx, (ast.Store, ast.Del)) and n.attr in ("logs", "bounded_loops"):
                f = mm.enclosing_func(n)
                where = mm.qual(n)
                if f is not None and f.name in ("__init__", "__post_init__") and isinstance(n.value, ast.Name) and n.value.id == "self":
                    if (n.attr == "logs" and where.startswith("sevm.SEVM.")) or (n.attr == "bounded_loops" and where.startswith("sevm.HalmosLogs.")):
                        continue  # the constructors of the engine and of the log
                writers.append((mm, n, where))
            elif isinstance(n, ast.Call) and isinstance(n.func, ast.Attribute) and n.func.attr in ("clear", "pop", "remove") and src(n.func.value).endswith("bounded_loops"):
                writers.append((mm, n, mm.qual(n)))
    for mm, n, where in writers:
        rep.bad("R10.2", mm, n, f"{where}: {src(mm.parents.get(n, n))[:100]}", "the bounded-loop log is replaced or emptied after the engine was created: cuts recorded before this point are never reported")
    rep.ok("R10.2", ms, init, f"writers of .logs / .bounded_loops outside SEVM.__init__: {len(writers)}")
    # no other SEVM constructions elsewhere that could run code without a report
    for modname in ("cheatcodes", "sevm", "solve", "traces"):
        mm = repo.mod(modname)
        for c in ast.walk(mm.tree):
            if isinstance(c, ast.Call) and call_name(c) == "SEVM":
                rep.bad("R10.2", mm, c, src(c), "engine constructed outside __main__: its loop log has no reporter")


def r10_6_setup_paths(repo: Repo, rep: Report):
    rep.rule("R10.6", "setUp: a path leaves the classification loop only through the error arm (warning unless plain revert) or as a candidate state; no silent skip")
    m, fn = repo.fn("__main__.setup")
    loops = [l for l in body_walk(fn) if isinstance(l, ast.For) and "setup_exs_all" in src(l.iter)]
    if len(loops) != 1:
        raise AnalysisError("setup: loop over setup_exs_all not found")
    loop = loops[0]
    exits = [n for n in body_walk(loop) if isinstance(n, (ast.Continue, ast.Break, ast.Return)) and m.enclosing_loop(n) is loop] if hasattr(m, "enclosing_loop") else [n for n in ast.walk(loop) if isinstance(n, (ast.Continue, ast.Break))]
    for n in exits:
        blk = m.parents[n]
        before = [x for x in getattr(blk, "body", []) if getattr(x, "lineno", 0) < n.lineno]
        reported = any(isinstance(c, ast.Call) and call_name(c) in ("warn_code", "warn", "error") for x in before for c in ast.walk(x))
        rep.check("R10.6", reported, m, n, f"setup: `{type(n).__name__.lower()}` under {sorted(guard_set(m, n))[-2:]}", "a setUp path is dropped without a warning (only debug output): a path stopped by an unsupported feature in setUp disappears and the tests built on the remaining state pass cleanly")
    # the error arm warns for everything but REVERT / INVALID
    arms = [i for i in loop.body if isinstance(i, ast.If) and "output.error" in src(i.test)]
    ok = len(arms) == 1 and any(isinstance(c, ast.Call) and call_name(c) == "warn_code" and c.args and src(c.args[0]) == "INTERNAL_ERROR" and "opcode not in [EVM.REVERT, EVM.INVALID]" in {g for g in guard_set(m, c)} for c in ast.walk(arms[0]))
    rep.check("R10.6", ok, m, arms[0] if arms else loop, "error arm: warn_code(INTERNAL_ERROR, ..) unless the opcode is REVERT / INVALID", "a setUp path that ended in an error other than a plain revert must be reported")
    apps = [c for c in body_walk(loop) if isinstance(c, ast.Call) and src(c.func).endswith("setup_exs_no_error.append")]
    in_error_arm = bool(arms) and any(c in list(ast.walk(b)) for c in apps for b in arms[0].body)
    ok = len(apps) == 1 and not in_error_arm and not [g for g in guard_set(m, apps[0]) - guard_set(m, loop) if "output.error" not in g and "err" not in g.split()]
    rep.check("R10.6", ok, m, apps[0] if apps else loop, "every path without an error becomes a candidate setup state", "an error-free setUp path must be kept as a candidate (unconditionally)")


def r10_5_message_identity(repo: Repo, rep: Report):
    rep.rule("R10.5", "log helpers take the finished message: no lazy %-formatting (the de-duplicating filter keys on the message it is given)")
    ml = repo.mod("logs")
    for name in ("debug", "info", "warn", "error", "warn_code", "debug_once"):
        fn = ml.defs.get(name)
        if not isinstance(fn, ast.FunctionDef):
            continue
        a = fn.args
        rep.check("R10.5", a.vararg is None and a.kwarg is None, ml, fn, f"logs.{name}({src(a)})", "a log helper that forwards *args lets callers pass a format template: UniqueLoggingFilter then de-duplicates on the template, and every later report of the same kind (other function, other bound) is dropped")
        for c in body_walk(fn):
            if isinstance(c, ast.Call) and isinstance(c.func, ast.Attribute) and c.func.attr in ("debug", "info", "warning", "error", "log"):
                extra = [x for x in c.args[1:] if not (c.func.attr == "log" and x is c.args[1])]
                rep.check("R10.5", not any(isinstance(x, ast.Starred) for x in c.args) and (len(c.args) <= (2 if c.func.attr == "log" else 1)), ml, c, f"logs.{name}: {src(c)[:80]}", "the logger must receive the finished text only")
    # call sites: warn / warn_code with more positional arguments than (code,) text
    n = 0
    for mm in repo.modules.values():
        for c in ast.walk(mm.tree):
            if isinstance(c, ast.Call) and isinstance(c.func, ast.Name) and c.func.id in ("warn", "warn_code", "error", "info"):
                n += 1
                limit = 2 if c.func.id == "warn_code" else 1
                ok = len(c.args) <= limit and not any(isinstance(a, ast.Starred) for a in c.args)
                if not ok:
                    rep.bad("R10.5", mm, c, f"{mm.qual(c)}: {src(c)[:110]}", "format arguments passed separately: the message identity used for de-duplication is the template, not the text")
    rep.ok("R10.5", ml, ml.tree, f"warn/warn_code/error/info call sites examined: {n}")


def r10_3_reports_not_deduplicated(repo: Repo, rep: Report):
    rep.rule("R10.3", "cut reports are not routed through the process-wide de-duplicating logger")
    sites = []
    m, run = repo.fn("sevm.SEVM.run")
    for c in body_walk(run):
        if isinstance(c, ast.Call) and call_name(c) in ("warn", "warn_code") and "--depth" in src(c):
            sites.append((m, c, "--depth"))
    m2, rt = repo.fn("__main__.run_test")
    for c in body_walk(rt):
        if isinstance(c, ast.Call) and call_name(c) in ("warn", "warn_code") and ("--width" in src(m2.parents.get(stmt_of(m2, c), c)) or (c.args and src(c.args[0]) in ("LOOP_BOUND", "INTERNAL_ERROR", "REVERT_ALL"))):
            sites.append((m2, c, "run_test report"))
    for q in ("__main__.setup", "__main__.run_target_function"):
        mm, fn = repo.fn(q)
        for c in body_walk(fn):
            if isinstance(c, ast.Call) and call_name(c) == "warn_code" and c.args and src(c.args[0]) == "LOOP_BOUND":
                sites.append((mm, c, q))
    if len(sites) < 5:
        raise AnalysisError(f"R10.3: only {len(sites)} cut reports found")
    for mm, c, what in sites:
        ad = kwarg(c, "allow_duplicate")
        dedup = ad is not None and fold_in(repo, mm.name, ad) is False
        rep.check("R10.3", not dedup, mm, c, f"{what}: {src(c)[:110]}", "report goes through allow_duplicate=False: the UniqueLoggingFilter set lives for the whole process, so the same text is shown only once - later tests/runs cut by the same limit stay silent")
    # debug_once is fine for debug text, but never for warnings of cuts
    ml, wf = repo.fn("logs.warn")
    rep.check("R10.3", "allow_duplicate=True" in src(wf.args) or [src(d) for d in wf.args.defaults] == ["True"], ml, wf, "logs.warn defaults to allow_duplicate=True", "warnings are de-duplicated by default")
    _, wc = repo.fn("logs.warn_code")
    rep.check("R10.3", [src(d) for d in wc.args.defaults] == ["True"], ml, wc, "logs.warn_code defaults to allow_duplicate=True", "coded warnings are de-duplicated by default")
    _, lf = repo.fn("logs.logger_for")
    rep.check("R10.3", "logger if allow_duplicate else logger_unique" in src(lf), ml, lf, "logger_for: unique logger only when allow_duplicate is False", "logger selection changed")


def r10_4_cache_published_before_complete(repo: Repo, rep: Report):
    rep.rule("R10.4", "a shared cache entry filled by a generator is published only when complete (or carries a completeness marker)")
    m, cf = repo.fn("__main__._compute_frontier")
    pubs = [s for s in cf.body if isinstance(s, ast.Assign) and isinstance(s.targets[0], ast.Subscript) and src(s.targets[0].value) in ("frontier_states", "ctx.frontier_states") and isinstance(s.value, ast.Name)]
    if not pubs:
        raise AnalysisError("R10.4: publication of the frontier cache not found in _compute_frontier")
    for pub in pubs:
        lst = pub.value.id
        fills = [c for c in body_walk(cf) if isinstance(c, ast.Call) and dotted(c.func) == f"{lst}.append"]
        in_yield_loop = [c for c in fills if any(isinstance(a, (ast.For, ast.While)) and any(isinstance(y, ast.Yield) for y in ast.walk(a)) for a in m.ancestors(c))]
        first_fill = min((c.lineno for c in in_yield_loop), default=None)
        early = first_fill is not None and pub.lineno < first_fill
        # a consumer can tell partial from complete only if a completion marker is written after the producing loops
        marker = any(isinstance(s2, (ast.Assign, ast.Expr)) and s2.lineno > max((c.lineno for c in fills), default=0) and ("complete" in src(s2) or "done" in src(s2)) for s2 in cf.body)
        rep.check("R10.4", not early or marker, m, pub, f"{src(pub)}  (list filled inside a yielding loop from line {first_fill})", "the cache entry is visible to get_frontier() while it is still being filled: when the consumer abandons the generator (--early-exit, --width) a later test silently reuses a partial frontier and can report a clean PASS")
    mg, gf = repo.fn("__main__.get_frontier")
    ok = "ctx.frontier_states.get(depth)" in src(gf)
    rep.check("R10.4", ok, mg, gf, "get_frontier returns the cached list when present", "frontier lookup changed")


def r10_7_shared(repo: Repo, rep: Report):
    """the --width cut is reported where the paths are counted: the generator of paths must reach that loop unsliced
    (shared with C03 R03.4)"""
    from hsa.rules.c03 import r03_4_verdict_domain

    r03_4_verdict_domain(repo, rep)
    # round 7: a branch answered `unsat` without the solver is cut without any report - the solver-free shortcuts
    # must be the reviewed, sound ones (shared with C02 R02.2)
    from hsa.rules.c02 import r02_2_solver_free_unsat

    r02_2_solver_free_unsat(repo, rep)


RULES = [r10_5_message_identity, r10_1_cut_report_pairing, r10_2_loop_logs_reported, r10_3_reports_not_deduplicated, r10_4_cache_published_before_complete, r10_6_setup_paths, r10_7_shared]
