"""C06 — word-level instruction semantics are exact and total (structural part)."""

from __future__ import annotations

import ast
import re

from hsa.core import AnalysisError, Repo, Report, body_walk, call_name, dotted, find_assign, kwarg, last_attr, src
from hsa.fold import UNKNOWN, Folder, fold_in
from hsa.opsem import arm_records, dispatch, signature
from hsa.rules.c01 import _defined_ops, r01_2_3_arm_semantics
from hsa.rules.c04 import r04_2_refine_exact
from hsa.rules.common import class_methods, guard_set, method_calls

EXPLANATION = (
    "Decides totality/promptness of the concrete fast paths and the wiring of signedness, operand order and "
    "abstractions: every Python division/remainder on operand values is dominated by an early return on a zero "
    "divisor; exponentiation is modular (bounded cost) and shifts by operand values are bounded; each "
    "HalmosBitVec method uses exactly the reviewed set of operators (Python operators on the concrete path, z3 "
    "operators on the symbolic path, helper methods it may delegate to) with self on the left - so a method "
    "cannot silently switch signedness or grow an unreviewed fast path; no Python operator is applied to a "
    "wrapper object and no wrapper is passed to a z3 function; an arm that takes a stack item unconverted "
    "(possibly Bool-typed) only applies operations that are closed over {0,1} as words; byte indexing is "
    "big-endian (folded for all 32 indices); SIGNEXTEND's bit arithmetic; the division/remainder axioms use "
    "ULE; the exact definitions of the abstractions (shared R04.2) and the dispatcher's operand order (shared "
    "R01.3). Validity of the resulting terms for all 2^256 operand values is SMT, not decided here."
    ' Also decided: ADDMOD/MULMOD form the sum/product on operands already widened to the intermediate size, and the concrete shortcut computes on Python integers.'
)
ASSUMPTIONS = ["z3py operator semantics on BitVecRef: / is bvsdiv, % is bvsmod (not used), >> is bvashr, < > <= >= signed; UDiv/URem/SRem/LShR/ULT.. as named", "Python int arithmetic"]

ARITH_METHODS = {"add", "sub", "mul", "div", "sdiv", "mod", "smod", "exp", "addmod", "mulmod", "signextend", "lshl", "lshr", "ashr", "bitwise_not", "bitwise_and", "bitwise_or", "bitwise_xor", "ult", "ugt", "slt", "sgt", "ule", "uge", "eq", "byte", "is_zero", "is_non_zero"}
Z3_OPS = {"ULT", "UGT", "ULE", "UGE", "UDiv", "URem", "SRem", "LShR", "SignExt", "ZeroExt", "Extract", "Concat", "If", "Not", "And", "Or", "Xor", "BitVecVal", "BoolVal", "simplify", "to_signed", "is_power_of_two", "pow"}

# method -> reviewed operator tokens (Python operators, z3 functions, delegated HalmosBitVec methods)
REVIEWED = {
    "add": {"Add"},
    "sub": {"Sub"},
    "mul": {"Eq", "Mult", "Sub", "abstraction", "is_power_of_two", "m:lshl"},
    "div": {"Eq", "FloorDiv", "Sub", "UDiv", "abstraction", "is_power_of_two", "m:lshr"},
    "sdiv": {"BitVecVal", "Div", "Eq", "abstraction"},
    "mod": {"Eq", "Extract", "Mod", "Sub", "URem", "ZeroExt", "abstraction", "is_power_of_two"},
    "smod": {"BitVecVal", "Eq", "SRem", "abstraction"},
    "exp": {"Eq", "LShift", "LtE", "Sub", "abstraction", "m:mul", "pow"},
    "addmod": {"Add", "Eq", "Mod", "NotEq", "m:add", "m:mod"},
    "mulmod": {"Eq", "Mod", "Mult", "NotEq", "m:mod", "m:mul"},
    "signextend": {"Add", "Extract", "GtE", "Mult", "SignExt", "Sub"},
    "lshl": {"Eq", "GtE", "LShift"},
    "lshr": {"Eq", "GtE", "LShR", "RShift"},
    "ashr": {"Eq", "RShift"},
    "bitwise_not": {"BitAnd", "Invert", "LShift", "Sub"},
    "bitwise_and": {"BitAnd"},
    "bitwise_or": {"BitOr"},
    "bitwise_xor": {"BitXor"},
    "ult": {"Lt", "ULT"},
    "ugt": {"Gt", "UGT"},
    "ule": {"LtE", "ULE"},
    "uge": {"GtE", "UGE"},
    "slt": {"Lt", "to_signed"},
    "sgt": {"Gt", "to_signed"},
    "eq": {"Eq"},
    "byte": {"Add", "Extract", "FloorDiv", "GtE", "Mult", "Sub"},
    "is_zero": {"Eq"},
    "is_non_zero": {"NotEq"},
}
# which z3 operator class must appear on the *symbolic* path when the python operator on terms is used
SIGNED_BY_PYTHON_OP = {"sdiv": "Div", "slt": "Lt", "sgt": "Gt", "ashr": "RShift"}


def _tokens(fn: ast.FunctionDef) -> set[str]:
    toks = set()
    for n in body_walk(fn):
        if isinstance(n, ast.Assert):
            continue
        if any(isinstance(a, ast.Assert) for a in _anc(fn, n)):
            continue
        if isinstance(n, ast.BinOp):
            toks.add(type(n.op).__name__)
        elif isinstance(n, ast.UnaryOp) and isinstance(n.op, ast.Invert):
            toks.add("Invert")
        elif isinstance(n, ast.Compare):
            for op in n.ops:
                if not isinstance(op, (ast.Is, ast.IsNot)):
                    toks.add(type(op).__name__)
        elif isinstance(n, ast.Call):
            nm = call_name(n)
            if nm in Z3_OPS:
                toks.add(nm)
            elif isinstance(n.func, ast.Attribute) and n.func.attr in ARITH_METHODS and nm.split(".")[0] in ("self", "other", "r1", "r2", "exp", "self_ext", "other_ext", "mod_ext") or (isinstance(n.func, ast.Attribute) and isinstance(n.func.value, ast.Call) and call_name(n.func.value) == "HalmosBitVec" and n.func.attr in ARITH_METHODS):
                toks.add("m:" + n.func.attr)
            elif nm in ("abstraction", "exp_abstraction", "mul_abstraction", "mod_abstraction"):
                toks.add("abstraction")
    return toks


_PARENTS: dict = {}


def _anc(fn, node):
    key = id(fn)
    if key not in _PARENTS:
        par = {}
        for p in ast.walk(fn):
            for c in ast.iter_child_nodes(p):
                par[c] = p
        _PARENTS[key] = par
    par = _PARENTS[key]
    cur = par.get(node)
    while cur is not None:
        yield cur
        cur = par.get(cur)


def r06_1_zero_divisor(repo: Repo, rep: Report):
    rep.rule("R06.1", "every Python // % on operand values (and modular pow) is dominated by an early return on a zero divisor")
    m, cls = repo.cls("bitvec.HalmosBitVec")
    n = 0
    for name, fn in class_methods(cls).items():
        for b in body_walk(fn):
            if isinstance(b, ast.BinOp) and isinstance(b.op, (ast.FloorDiv, ast.Mod)):
                div = src(b.right)
                if div.isdigit() or div in ("8",):
                    continue
                n += 1
                gs = guard_set(m, b)
                ok = f"{div} != 0" in gs or f"not ({div} == 0)" in gs
                rep.check("R06.1", ok, m, b, f"{name}: {src(b)}  under {sorted(g for g in gs if div in g)}", f"`{src(b)}` can divide by zero: ZeroDivisionError escapes the engine (EVM: result 0)")
    if n < 4:
        raise AnalysisError(f"R06.1: only {n} integer divisions found in HalmosBitVec")
    # symbolic path: zero is handled by the abstraction's exact definition (R04.2) or by explicit early returns for concrete zero
    for name in ("div", "sdiv", "mod", "smod"):
        fn = class_methods(cls)[name]
        z = [r for r in body_walk(fn) if isinstance(r, ast.Return) and src(r.value) == "other" and "rhs == 0" in guard_set(m, r) and "other.is_concrete" in guard_set(m, r)]
        rep.check("R06.1", len(z) == 1, m, z[0] if z else fn, f"{name}: concrete zero divisor -> returns the zero operand", "division / remainder by a concrete zero must be zero")


def r06_2_bounded_cost(repo: Repo, rep: Report):
    rep.rule("R06.2", "no unbounded ** ; shifts by operand values are bounded by the word size")
    m, cls = repo.cls("bitvec.HalmosBitVec")
    for name, fn in class_methods(cls).items():
        for b in body_walk(fn):
            if isinstance(b, ast.BinOp) and isinstance(b.op, ast.Pow):
                ok = fold_in(repo, "bitvec", b.right) is not UNKNOWN
                rep.check("R06.2", ok, m, b, f"{name}: {src(b)}", "`**` with an operand-derived exponent does not terminate for large exponents: use pow(base, exp, modulus)")
    ex = class_methods(cls)["exp"]
    pows = [c for c in body_walk(ex) if isinstance(c, ast.Call) and call_name(c) == "pow"]
    ok = len(pows) == 1 and len(pows[0].args) == 3 and src(pows[0].args[2]) == "1 << size" and [src(a) for a in pows[0].args[:2]] == ["lhs", "rhs"]
    rep.check("R06.2", ok, m, pows[0] if pows else ex, f"exp: {src(pows[0]) if pows else 'pow(lhs, rhs, 1 << size)'}", "concrete EXP must be modular exponentiation modulo 2**size with (base=lhs, exponent=rhs)")
    # the unrolled multiplication is bounded by the option
    loops = [l for l in body_walk(ex) if isinstance(l, ast.For)]
    ok = len(loops) == 1 and src(loops[0].iter) == "range(rhs - 1)" and "rhs <= smt_exp_by_const" in guard_set(m, loops[0])
    rep.check("R06.2", ok, m, loops[0] if loops else ex, "exp by small constant: rhs - 1 multiplications, only for rhs <= smt_exp_by_const", "unrolled exponentiation must be bounded by --smt-exp-by-const")
    for name in ("lshl", "lshr"):
        fn = class_methods(cls)[name]
        sh = [b for b in body_walk(fn) if isinstance(b, ast.BinOp) and isinstance(b.op, (ast.LShift, ast.RShift)) and src(b.right) == "shift_amount"]
        bounds = [r for r in body_walk(fn) if isinstance(r, ast.Return) and "shift_amount >= size" in guard_set(m, r) and "shift.is_concrete" in guard_set(m, r)]
        ok = len(sh) == 1 and (isinstance(sh[0].op, ast.RShift) or (len(bounds) == 1 and src(bounds[0].value) == "HalmosBitVec(0, size=size)"))
        rep.check("R06.2", ok, m, sh[0] if sh else fn, f"{name}: {src(sh[0]) if sh else '?'}; concrete shift >= size returns 0", "a concrete left shift by an operand value >= the word size must return 0 instead of building a huge integer")


def r06_3_operator_table(repo: Repo, rep: Report):
    rep.rule("R06.3", "each HalmosBitVec method uses exactly its reviewed operators (signedness, direction, fast paths, delegation), self on the left")
    m, cls = repo.cls("bitvec.HalmosBitVec")
    ms = class_methods(cls)
    for name, want in REVIEWED.items():
        fn = ms.get(name)
        if fn is None:
            rep.bad("R06.3", m, cls, f"HalmosBitVec.{name}", "method missing")
            continue
        got = _tokens(fn)
        extra, missing = got - want, want - got
        rep.check("R06.3", not extra and not missing, m, fn, f"{name}: {sorted(got)}", f"operator set differs from the reviewed one: new {sorted(extra)} / gone {sorted(missing)} - a changed signedness, a swapped operator or an unreviewed fast path")
    # operand order: self/lhs on the left, other/rhs on the right
    left_ok = ("self", "lhs", "left", "self_ext", "r1")
    right_ok = ("other", "rhs", "right", "other_ext", "mod_ext", "modulus", "shift")
    for name in ("sub", "div", "sdiv", "mod", "smod", "ult", "ugt", "ule", "uge", "slt", "sgt", "lshl", "lshr", "ashr", "exp"):
        fn = ms[name]
        for n in body_walk(fn):
            if any(isinstance(a, ast.Assert) for a in _anc(fn, n)):
                continue
            pair = None
            if isinstance(n, ast.BinOp) and isinstance(n.op, (ast.Sub, ast.FloorDiv, ast.Mod, ast.Div, ast.LShift, ast.RShift)):
                pair = (n.left, n.right)
            elif isinstance(n, ast.Compare) and isinstance(n.ops[0], (ast.Lt, ast.Gt, ast.LtE, ast.GtE)) and len(n.ops) == 1:
                pair = (n.left, n.comparators[0])
            elif isinstance(n, ast.Call) and call_name(n) in ("ULT", "UGT", "ULE", "UGE", "UDiv", "URem", "SRem", "LShR", "abstraction", "exp_abstraction") and len(n.args) == 2:
                pair = (n.args[0], n.args[1])
            elif isinstance(n, ast.Call) and call_name(n) == "pow" and len(n.args) == 3:
                pair = (n.args[0], n.args[1])
            if pair is None:
                continue
            l, r = src(pair[0]), src(pair[1])
            if not any(k in l for k in left_ok + right_ok) and not any(k in r for k in left_ok + right_ok):
                continue  # pure bookkeeping arithmetic (bit sizes)
            lo = any(l.startswith(k) or f"({k}" in l for k in left_ok) and not any(l.startswith(k) for k in right_ok)
            ro = any(r.startswith(k) or f"({k}" in r for k in right_ok) or r.isdigit() or r in ("size",)
            if l in ("rhs", "shift_amount", "size", "bl") or l.startswith(("rhs.", "(size", "256", "1")):
                continue
            rep.check("R06.3", lo and ro, m, n, f"{name}: {src(n)[:70]}", "operands in the wrong order (EVM: first stack operand on the left)")
    # signed operations use Python operators on z3 terms (signed in z3py), never on wrappers
    for name, tok in SIGNED_BY_PYTHON_OP.items():
        fn = ms[name]
        hits = []
        for n in body_walk(fn):
            if isinstance(n, ast.BinOp) and type(n.op).__name__ == tok or (isinstance(n, ast.Compare) and type(n.ops[0]).__name__ == tok):
                l = src(n.left)
                hits.append(l)
        z3side = [h for h in hits if ".as_z3()" in h or h.startswith("BitVecVal(")]
        rep.check("R06.3", bool(z3side), m, fn, f"{name}: signed operator applied to {z3side}", "signed z3 operator must be applied to z3 terms (as_z3() / BitVecVal)")
    # SEVM.arith axioms use ULE (ULT is invalid for y = 0)
    ms_, ar = repo.fn("sevm.SEVM.arith")
    ax = [c for c in body_walk(ar) if isinstance(c, ast.Call) and dotted(c.func) == "ex.path.append"]
    texts = sorted(src(c.args[0]) for c in ax)
    ok = texts == ["ULE(term.as_z3(), w1.as_z3())", "ULE(term.as_z3(), w2.as_z3())"]
    rep.check("R06.3", ok, ms_, ar, f"arith axioms: {texts}", "(x / y) <= x and (x % y) <= y with ULE; ULT excludes y = 0 where the EVM result is 0")


def r06_4_wrapper_term_boundary(repo: Repo, rep: Report):
    rep.rule("R06.4", "no Python operator on wrapper objects; no wrapper passed to a z3 function symbol")
    m, cls = repo.cls("bitvec.HalmosBitVec")
    wrappers = {"self", "other", "modulus", "shift", "exp", "r1", "r2", "self_ext", "other_ext", "mod_ext"}
    n = 0
    for name, fn in class_methods(cls).items():
        if name.startswith("__"):
            continue
        for b in body_walk(fn):
            ops = []
            if isinstance(b, ast.BinOp):
                ops = [b.left, b.right]
            elif isinstance(b, ast.Compare) and not isinstance(b.ops[0], (ast.Is, ast.IsNot, ast.Eq, ast.NotEq)):
                ops = [b.left] + b.comparators
            elif isinstance(b, ast.UnaryOp) and isinstance(b.op, (ast.Invert, ast.USub)):
                ops = [b.operand]
            bad = [src(o) for o in ops if isinstance(o, ast.Name) and o.id in wrappers]
            if ops:
                n += 1
            if bad:
                rep.bad("R06.4", m, b, f"{name}: {src(b)}", f"Python operator applied to the wrapper object(s) {bad}: HalmosBitVec defines no arithmetic dunders -> TypeError on the first symbolic operand")
    rep.check("R06.4", n > 20, m, cls, f"{n} operator applications in HalmosBitVec methods, none on a bare wrapper", "operator scan found too few sites")
    # z3 function symbols in the dispatcher receive z3 terms
    _, _, chain, arms = dispatch(repo)
    ops = _defined_ops(repo)
    ms = repo.mod("sevm")
    pat = re.compile(r"\b(f_[a-z0-9_]+)\(([^()]*(?:\([^()]*\)[^()]*)*)\)")
    k = 0
    for name, v in ops.items():
        i, recs = arm_records(repo, arms, v)
        if recs is None:
            continue
        for _, _, tops, effs in signature(recs):
            for t in tops + effs:
                for mm in pat.finditer(t):
                    fsym, args = mm.group(1), mm.group(2)
                    if fsym in ("f_mod", "f_mul"):
                        continue
                    k += 1
                    bare = [a.strip() for a in args.split(",") if re.fullmatch(r"(I\()?s\d+\)?", a.strip())]
                    rep.check("R06.4", not bare, ms, arms[i][0], f"{name}: {mm.group(0)[:70]}", f"stack value {bare} passed to the z3 function {fsym} without .as_z3(): Z3Exception for Bool-typed or symbolic operands")
    rep.units["R06.4_z3_function_applications"] = k


BARE_OK = {"is_zero", "eq", "is_concrete", "value", "is_true", "is_false"}


def r06_5_bool_closedness(repo: Repo, rep: Report):
    rep.rule("R06.5", "an arm that uses a stack item unconverted (possibly Bool-typed) applies only operations closed over {0,1} as words")
    _, _, chain, arms = dispatch(repo)
    ops = _defined_ops(repo)
    ms = repo.mod("sevm")
    pat = re.compile(r"(?<![\w(.])s\d+\.(\w+)")
    n = 0
    for name, v in sorted(ops.items(), key=lambda kv: kv[1]):
        i, recs = arm_records(repo, arms, v)
        if recs is None:
            continue
        for r in recs:
            for t in list(r.tops) + list(r.effects) + list(r.guards):
                for mm in pat.finditer(t):
                    n += 1
                    meth = mm.group(1)
                    rep.check("R06.5", meth in BARE_OK, ms, arms[i][0], f"{name}: unconverted item .{meth}  in `{t[:70]}`", f"`.{meth}()` on an unconverted stack item: for a Bool-typed item this is the boolean operation, not the 256-bit one (e.g. NOT(1) must be 2**256-2)")
    rep.check("R06.5", n >= 3, ms, chain, f"{n} method applications on unconverted stack items checked", "scan found too few sites")
    # bitwise(): mixed Bool/BV operands are converted to words first
    _, bw = repo.fn("sevm.bitwise")
    t = src(bw)
    ok = "if type(x) is not type(y):\n        return bitwise(op, BV(x, size=256), BV(y, size=256))" in t.replace("            ", "        ") and "x.bitwise_and(y)" in t and "x.bitwise_or(y)" in t and "x.bitwise_xor(y)" in t
    rep.check("R06.5", ok, ms, bw, "bitwise(): operands of different kinds are both converted to 256-bit words; AND/OR/XOR dispatch by opcode", "mixed Bool/word operands must be widened before the bitwise operation")
    for opn, meth in (("OP_AND", "bitwise_and"), ("OP_OR", "bitwise_or"), ("OP_XOR", "bitwise_xor")):
        ok = any(isinstance(i, ast.If) and src(i.test) == f"op == {opn}" and f"x.{meth}(y)" in src(i) for i in ast.walk(bw))
        rep.check("R06.5", ok, ms, bw, f"bitwise: {opn} -> {meth}", "bitwise opcode routed to the wrong operation")
    # Bool algebra: AND/OR/XOR on Bools are the logical ones; as_bv maps True/False to 1/0
    mb, hb = repo.cls("bitvec.HalmosBool")
    hm = class_methods(hb)
    ok = "And(self.as_z3(), other.as_z3())" in src(hm["bitwise_and"]) and "Or(self.as_z3(), other.as_z3())" in src(hm["bitwise_or"]) and "Xor(self.as_z3(), other.as_z3())" in src(hm["bitwise_xor"])
    rep.check("R06.5", ok, mb, hb, "HalmosBool and/or/xor = And/Or/Xor", "Bool algebra changed")
    t = src(hm["as_bv"])
    ok = "If(self.sym_val, BitVecVal(1, size), BitVecVal(0, size))" in t and "return ONE if size == 256 else HalmosBitVec(1, size=size)" in t and "return ZERO if size == 256 else HalmosBitVec(0, size=size)" in t
    rep.check("R06.5", ok, mb, hm["as_bv"], "as_bv: True -> 1, False -> 0, symbolic -> If(b, 1, 0)", "Bool to word conversion changed")
    t = src(hm["is_zero"])
    rep.check("R06.5", "HalmosBool(Not(self.sym_val))" in t and "return FALSE" in t and "return TRUE" in t, mb, hm["is_zero"], "Bool.is_zero = logical negation", "ISZERO on a Bool must negate it")
    _, st = repo.cls("sevm.State")
    sm = class_methods(st)
    for nm in ("popi", "topi"):
        ok = "val.as_bv(size=256) if type(val) is Bool else val" in src(sm[nm])
        rep.check("R06.5", ok, ms, sm[nm], f"State.{nm}: Bool -> 256-bit word", "popi/topi must convert Bools to words")


def r06_6_byte_and_signextend(repo: Repo, rep: Report):
    rep.rule("R06.6", "BYTE indexing is big-endian for all 32 indices; SIGNEXTEND bit arithmetic")
    ms, sb = repo.fn("sevm.SEVM.sym_byte_of")
    gen = [f for f in ast.walk(sb) if isinstance(f, ast.FunctionDef) and f.name == "gen_nested_ite"]
    if len(gen) != 1:
        raise AnalysisError("sym_byte_of.gen_nested_ite not found")
    g = gen[0]
    ext = [c for c in ast.walk(g) if isinstance(c, ast.Call) and call_name(c) == "Extract"]
    ifs = [i for i in g.body if isinstance(i, ast.If)]
    ok = len(ext) == 1 and len(ifs) == 1 and src(ext[0].args[2]) == "w"
    bad = []
    if ok:
        for i in range(32):
            f = Folder(repo, "sevm", {"curr": i})
            hi, lo = f.fold(ext[0].args[0]), f.fold(ext[0].args[1])
            if (hi, lo) != (255 - 8 * i, 248 - 8 * i) or f.fold(ifs[0].test) is not True:
                bad.append((i, hi, lo))
        f = Folder(repo, "sevm", {"curr": 32})
        ok = f.fold(ifs[0].test) is False and any(isinstance(r, ast.Return) and src(r.value) == "con(0, 8)" for r in ast.walk(g))
    rep.check("R06.6", ok and not bad, ms, g, "sym_byte_of: index i selects bits [255-8i : 248-8i] for i in 0..31; index >= 32 gives 0", f"symbolic BYTE selects the wrong bits for {bad[:3]}")
    rep.table("BYTE indices folded", 32)
    t = src(g)
    ok = "idx == con(curr)" in t and "gen_nested_ite(curr + 1)" in t and "return ZeroExt(248, gen_nested_ite(0))" in src(sb)
    rep.check("R06.6", ok, ms, sb, "nested ite over idx == 0..31, zero-extended to 256 bits", "symbolic BYTE chain changed")
    m, cls = repo.cls("bitvec.HalmosBitVec")
    by = class_methods(cls)["byte"]
    lo = [v for v in find_assign(by, "lo")]
    hi = [v for v in find_assign(by, "hi")]
    bad = []
    if len(lo) == 1 and len(hi) == 1:
        for i in range(32):
            f = Folder(repo, "bitvec", {"byte_length": 32, "idx": i})
            l = f.fold(lo[0])
            h = Folder(repo, "bitvec", {"lo": l}).fold(hi[0])
            if (h, l) != (255 - 8 * i, 248 - 8 * i):
                bad.append((i, h, l))
    else:
        bad = ["lo/hi not found"]
    rep.check("R06.6", not bad, m, by, "HalmosBitVec.byte: lo = (n-1-idx)*8, hi = lo+7 for idx in 0..31", f"BYTE extracts the wrong bits: {bad[:3]}")
    t = src(by)
    ok = "if idx >= byte_length:\n        return HalmosBitVec(0, size=output_size)" in t.replace("            ", "        ") and "b = self._value.to_bytes(length=byte_length, byteorder='big')" in t and "HalmosBitVec(b[idx], size=output_size)" in t and "Extract(hi, lo, self._value)" in t
    rep.check("R06.6", ok, m, by, "byte: idx >= 32 -> 0; concrete path reads byte idx of the big-endian encoding; symbolic Extract(hi, lo)", "BYTE concrete and symbolic paths disagree")
    se = class_methods(cls)["signextend"]
    t = src(se)
    bl = [v for v in find_assign(se, "bl")]
    ok = len(bl) == 1 and all(Folder(repo, "bitvec", {"size": k}).fold(bl[0]) == 8 * (k + 1) for k in range(31))
    ok = ok and "if size >= 31:\n        return self" in t.replace("            ", "        ") and "SignExt(256 - bl, Extract(bl - 1, 0, self.as_z3()))" in t
    rep.check("R06.6", ok, m, se, "signextend(b): b >= 31 -> identity; else SignExt(256 - 8(b+1), low 8(b+1) bits)", "SIGNEXTEND bit arithmetic changed")
    # to_signed
    _, ts = repo.fn("bitvec.to_signed")
    t = src(ts)
    ok = "sign_bit = 1 << bit_size - 1" in t and "return x - (1 << bit_size) if x & sign_bit else x" in t
    rep.check("R06.6", ok, m, ts, "to_signed: two's complement of bit_size bits", "signed interpretation of concrete values changed")


def r06_8_widen_before_arith(repo: Repo, rep: Report):
    rep.rule("R06.8", "ADDMOD/MULMOD: the sum/product is formed on operands already widened to the intermediate size (no wrap-around before the remainder)")
    from hsa.origin import origin_text

    m, cls = repo.cls("bitvec.HalmosBitVec")
    meths = class_methods(cls)
    for name, op in (("addmod", "add"), ("mulmod", "mul")):
        fn = meths[name]
        calls = [c for c in body_walk(fn) if isinstance(c, ast.Call) and isinstance(c.func, ast.Attribute) and c.func.attr == op]
        for c in calls:
            recv = origin_text(m, fn, c.func.value).replace("$", "")
            arg = origin_text(m, fn, c.args[0]).replace("$", "") if c.args else "?"
            wide = lambda t: t.startswith("HalmosBitVec(") and "size=" in t and ("size=self._size + 8" in t or "size=self._size * 2" in t or "size=newsize" in t)
            ok = wide(recv) and wide(arg)
            rep.check("R06.8", ok, m, c, f"{name}: {recv[:60]}.{op}({arg[:60]})", f"the {op} must be computed at the widened size: at the operand size it wraps modulo 2**256 before the remainder is taken")
        rep.check("R06.8", len(calls) == 1, m, fn, f"{name}: {len(calls)} symbolic {op}() site(s)", "a second (unwidened) arithmetic path was added, or the widened one vanished")
        # the all-concrete shortcut works on unbounded Python ints
        rets = [r for r in body_walk(fn) if isinstance(r, ast.Return) and r.value is not None and "%" in src(r.value)]
        want = ast.parse(f"HalmosBitVec((self.value {'+' if op == 'add' else '*'} other.value) % modulus.value, size=size)", mode="eval").body
        ok = len(rets) == 1 and ast.dump(rets[0].value) == ast.dump(want)
        rep.check("R06.8", ok, m, rets[0] if rets else fn, f"{name}: concrete result {src(rets[0].value) if rets else '?'}", "concrete shortcut must compute on Python integers (no wrap-around)")


def r06_7_shared(repo: Repo, rep: Report):
    rep.rule("R04.2", "exact definitions of the abstractions (shared with C04)")
    r04_2_refine_exact(repo, rep)
    r01_2_3_arm_semantics(repo, rep)


RULES = [r06_8_widen_before_arith, r06_1_zero_divisor, r06_2_bounded_cost, r06_3_operator_table, r06_4_wrapper_term_boundary, r06_5_bool_closedness, r06_6_byte_and_signextend, r06_7_shared]
