"""C19 — bytecode decoding and jump-destination validity follow the EVM."""

from __future__ import annotations

import ast
import re

from hsa.core import AnalysisError, Repo, Report, body_walk, call_name, dotted, kwarg, last_attr, src
from hsa.fold import UNKNOWN, Folder, class_consts, fold_in
from hsa.flow import guard_text, guards_at
from hsa.rules.common import class_methods, guard_set, method_calls, param_names
from hsa.spec import evm_ops

EXPLANATION = (
    "Decides the structural clauses behind C19 on the parsed source: insn_len folded over all 256 "
    "opcode values equals the EVM instruction length; the jumpdest scanner and the decoder both "
    "stride through insn_len and the scanner records a pc only under opcode == JUMPDEST; every "
    "data-derived program counter (advance(pc=...), create_branch(..., target)) is dominated by "
    "membership in valid_jumpdests(); a pc beyond the end decodes to the STOP singleton; the three "
    "opcode tables (contract.OP_*, utils.EVM, utils.str_opcode) agree with each other and with the "
    "EVM table; duck-typed slice() receivers agree on parameter meaning; scanner and decoder use "
    "the same concreteness predicate. It does not decide ByteVec chunk arithmetic (values)."
    " Also decided: the concrete fast prefix is exactly the first concrete chunk's bytes (never its backing buffer); raw slices of it are guarded to end inside it, through local aliases too; and the jump arms' advance(pc=...) operands (shared with C01 R01.3)."
    ' Round 5: jump-target candidates are kept unless the solver says unsat (C02 R02.1 at SEVM.run / jumpi).'
    ' Round 7: a raw Python slice of the concrete code prefix in any method of Contract must end inside the prefix (a PUSH cut off by the end of the code reads zeros) (R19.8).'
)
ASSUMPTIONS = [
    "no monkey-patching of Contract / Instruction at run time (checked by meta-rule in C20 R20.4)",
    "ByteVec.get_byte / slice return what their names say (C07, not decided statically)",
]


def r19_1_insn_len(repo: Repo, rep: Report):
    rep.rule("R19.1", "insn_len(opcode) folded over 0..255 == 1+n for PUSHn else 1")
    m, fn = repo.fn("contract.insn_len")
    rets = [n for n in body_walk(fn) if isinstance(n, ast.Return)]
    if len(rets) != 1 or rets[0].value is None:
        raise AnalysisError("insn_len: expected a single return expression")
    pname = param_names(fn)[0]
    bad = []
    for v in range(256):
        got = fold_in(repo, "contract", rets[0].value, {pname: v})
        if got is UNKNOWN:
            raise AnalysisError(f"insn_len: cannot fold for opcode {v:#x}")
        if int(got) != evm_ops.push_len(v):
            bad.append((v, int(got)))
    rep.table("insn_len over opcode values", 256)
    rep.check(
        "R19.1", not bad, m, rets[0], src(rets[0]),
        f"insn_len disagrees with the EVM for {[(hex(v), g) for v, g in bad[:6]]}",
    )


def _aug_pc_sites(fn):
    for n in body_walk(fn):
        if isinstance(n, ast.AugAssign) and isinstance(n.target, ast.Name) and n.target.id == "pc":
            yield n
        elif isinstance(n, ast.Assign) and any(isinstance(t, ast.Name) and t.id == "pc" for t in n.targets):
            yield n


def r19_2_scanner_decoder(repo: Repo, rep: Report):
    rep.rule("R19.2", "scanner and decoder stride only through insn_len; scanner records pc only under opcode == JUMPDEST")
    m, scan = repo.fn("contract.Contract.__get_jumpdests")
    jd = repo.const("contract", "OP_JUMPDEST")
    f = Folder(repo, "contract")

    def jumpdest_guarded(node) -> bool:
        for t, pol in guards_at(m, node):
            if isinstance(t, ast.Compare) and len(t.ops) == 1 and isinstance(t.left, ast.Name) and t.left.id == "opcode":
                rhs = f.fold(t.comparators[0])
                if rhs == jd and ((isinstance(t.ops[0], ast.Eq) and pol) or (isinstance(t.ops[0], ast.NotEq) and not pol)):
                    return True
        return False

    n_sites = 0
    for n in _aug_pc_sites(scan):
        if isinstance(n, ast.Assign):
            # pc = 0 initialisation is fine; anything else is an unknown stride
            ok = isinstance(n.value, ast.Constant) and n.value.value == 0 and not any(
                isinstance(a, (ast.While, ast.For)) for a in m.ancestors(n)
            )
            rep.check("R19.2", ok, m, n, src(n), "scanner assigns pc other than the initial 0 outside the loops")
            continue
        n_sites += 1
        v = n.value
        if not isinstance(n.op, ast.Add):
            rep.bad("R19.2", m, n, src(n), "scanner changes pc by something other than +=")
            continue
        if isinstance(v, ast.Call) and call_name(v) == "insn_len" and len(v.args) == 1 and src(v.args[0]) == "opcode":
            rep.ok("R19.2", m, n, src(n))
        elif f.fold(v) == 1 and jumpdest_guarded(n):
            rep.ok("R19.2", m, n, src(n) + "  [under opcode == OP_JUMPDEST]")
        else:
            rep.bad("R19.2", m, n, src(n), "scanner stride is neither insn_len(opcode) nor 1 under opcode == OP_JUMPDEST")
    if n_sites < 1:
        raise AnalysisError("R19.2: no pc stride found in the scanner")
    # the scan covers both byte sources completely: the only way out of a loop is a non-concrete opcode, and nothing
    # leaves the function before both sources were scanned
    exits = [n for n in body_walk(scan) if isinstance(n, (ast.Break, ast.Return))]
    for n in exits:
        in_handler = any(isinstance(a, ast.ExceptHandler) and a.type is not None and "NotConcreteError" in src(a.type) for a in m.ancestors(n))
        last_return = isinstance(n, ast.Return) and n is scan.body[-1]
        rep.check("R19.2", in_handler or last_return, m, n, f"scanner exit `{src(n)}`" + (" in except NotConcreteError" if in_handler else " (final return)" if last_return else f" under {sorted(guard_set(m, n))}"), "the scan is cut short: the second (symbolic-chunk aware) pass or the rest of the code is skipped, and JUMPDESTs behind a symbolic chunk are missing from valid_jumpdests()")
    srcs = [l for l in body_walk(scan) if isinstance(l, ast.For)]
    ok = len(srcs) == 1 and src(srcs[0].iter).replace(" ", "") in ("(self._fastcode,self._code)", "[self._fastcode,self._code]")
    rep.check("R19.2", ok, m, srcs[0] if srcs else scan, f"scanner sources: {src(srcs[0].iter) if srcs else '?'}", "both the concrete prefix and the full code must be scanned")
    adds = [c for c in method_calls(scan, "add") if dotted(c.func).startswith("jumpdests")]
    if not adds:
        rep.bad("R19.2", m, scan, "jumpdests.add(pc)", "scanner never records a jump destination")
    for c in adds:
        ok = len(c.args) == 1 and src(c.args[0]) == "pc" and jumpdest_guarded(c)
        rep.check("R19.2", ok, m, c, src(c), "jumpdests.add must add the current pc under opcode == OP_JUMPDEST")
    # opcode is the byte at pc
    reads = [n for n in body_walk(scan) if isinstance(n, ast.Assign) and any(isinstance(t, ast.Name) and t.id == "opcode" for t in n.targets)]
    for r in reads:
        ok = isinstance(r.value, ast.Subscript) and src(r.value.slice) == "pc" or (
            isinstance(r.value, ast.Call) and any(isinstance(a, ast.Subscript) and src(a.slice) == "pc" for a in r.value.args)
        )
        rep.check("R19.2", ok, m, r, src(r), "scanner must read the opcode at the current pc")
    if not reads:
        raise AnalysisError("R19.2: scanner opcode read not found")
    # the scanner loop is bounded by the code length and stops on a symbolic opcode
    # decoder
    md, dec = repo.fn("contract.Contract._decode_instruction")
    length_vals = [n for n in body_walk(dec) if isinstance(n, ast.Assign) and src(n.targets[0]) == "length"]
    nxt = [n for n in body_walk(dec) if isinstance(n, ast.Assign) and src(n.targets[0]) == "next_pc"]
    ok = bool(length_vals) and all(isinstance(n.value, ast.Call) and call_name(n.value) == "insn_len" and src(n.value.args[0]) == "opcode" for n in length_vals)
    rep.check("R19.2", ok, md, length_vals[0] if length_vals else dec, src(length_vals[0]) if length_vals else "length = ?", "decoder length must be insn_len(opcode)")
    ok = bool(nxt) and all(src(n.value) in ("pc + length", "length + pc") for n in nxt)
    rep.check("R19.2", ok, md, nxt[0] if nxt else dec, src(nxt[0]) if nxt else "next_pc = ?", "decoder next_pc must be pc + length")
    # Instruction(...) constructions carry next_pc=next_pc and pc=pc; operand = bytes pc+1 .. next_pc
    for c in method_calls(dec, "Instruction"):
        np_, pc_ = kwarg(c, "next_pc"), kwarg(c, "pc")
        ok = np_ is not None and src(np_) == "next_pc" and pc_ is not None and src(pc_) == "pc" and c.args and src(c.args[0]) == "opcode"
        rep.check("R19.2", ok, md, c, src(c), "Instruction must be built with (opcode, pc=pc, next_pc=next_pc)")
    ops = [c for c in method_calls(dec, "unwrapped_slice")]
    for c in ops:
        ok = len(c.args) == 2 and src(c.args[0]) == "pc + 1" and src(c.args[1]) == "next_pc"
        rep.check("R19.2", ok, md, c, src(c), "PUSH operand must be the bytes pc+1 .. next_pc")
    if not ops:
        rep.bad("R19.2", md, dec, "unwrapped_slice(pc + 1, next_pc)", "decoder does not read the PUSH operand")


_VJ = re.compile(r"^(\w+) in (.+)\.valid_jumpdests\(\)$")


def _from_valid_jumpdests(m, fn, name: str, node) -> bool:
    """name is bound by iteration over (a filter of) valid_jumpdests()"""

    def iter_is_vj(it) -> bool:
        if isinstance(it, ast.Call) and last_attr(it) == "valid_jumpdests":
            return True
        if isinstance(it, ast.Name):
            from hsa.core import find_assign

            vals = find_assign(fn, it.id)
            return bool(vals) and all(
                isinstance(v, (ast.ListComp, ast.SetComp, ast.GeneratorExp))
                and len(v.generators) == 1
                and iter_is_vj(v.generators[0].iter)
                and src(v.elt) == src(v.generators[0].target)
                for v in vals
            )
        return False

    for a in m.ancestors(node):
        if isinstance(a, ast.For) and isinstance(a.target, ast.Name) and a.target.id == name:
            return iter_is_vj(a.iter)
    return False


def r19_3_jump_targets(repo: Repo, rep: Report):
    rep.rule("R19.3", "every data-derived pc is dominated by membership in valid_jumpdests()")
    m = repo.mod("sevm")
    n = 0
    for q in ("sevm.SEVM.run", "sevm.SEVM.jumpi"):
        _, fn = repo.fn(q)
        for c in body_walk(fn):
            if not isinstance(c, ast.Call):
                continue
            la = last_attr(c)
            expr = None
            if la == "advance":
                pc = kwarg(c, "pc") or (c.args[0] if c.args else None)
                if pc is None or src(pc) in ("insn.next_pc", "ex.insn.next_pc"):
                    continue
                expr = pc
            elif la == "create_branch" and len(c.args) >= 3:
                if src(c.args[2]).endswith(".pc"):
                    continue
                expr = c.args[2]
            else:
                continue
            n += 1
            names = {x.id for x in ast.walk(expr) if isinstance(x, ast.Name)}
            gs = guard_set(m, c)
            ok = False
            for g in gs:
                mm = _VJ.match(g)
                if mm and mm.group(1) in names and mm.group(2).endswith("pgm"):
                    ok = True
            if not ok:
                ok = any(_from_valid_jumpdests(m, fn, nm, c) for nm in names)
            if ok and la == "advance":
                # skipping the JUMPDEST itself: only target + 1 is admissible
                ok = isinstance(expr, ast.BinOp) and isinstance(expr.op, ast.Add) and {src(expr.left), src(expr.right)} >= {"1"} or isinstance(expr, ast.Name)
            rep.check("R19.3", ok, m, c, src(c), "program counter derived from data without a dominating `target in pgm.valid_jumpdests()` check")
    rep.floor("R19.3", 4, "JUMP concrete, JUMP symbolic, JUMPI true, jumpi() x2")
    # Exec.advance: pc or insn.next_pc, then decode at that pc
    _, adv = repo.fn("sevm.Exec.advance")
    assigns = [s for s in body_walk(adv) if isinstance(s, ast.Assign)]
    txt = " ; ".join(src(s) for s in assigns)
    ok = "next_pc = pc or self.insn.next_pc" in txt and "self.pc = next_pc" in txt and "self.insn = self.pgm.decode_instruction(next_pc)" in txt
    rep.check("R19.3", ok, m, adv, txt, "Exec.advance must set pc and fetch the instruction at that same pc")


def r19_4_stop_beyond_end(repo: Repo, rep: Report):
    rep.rule("R19.4", "a pc at or beyond the end decodes to the STOP singleton")
    m, fn = repo.fn("contract.Contract.decode_instruction")
    rets = [r for r in body_walk(fn) if isinstance(r, ast.Return) and r.value is not None and src(r.value) == "Instruction.STOP"]
    if not rets:
        rep.bad("R19.4", m, fn, "return Instruction.STOP", "decode_instruction never returns the implicit STOP")
    for r in rets:
        gs = guard_set(m, r)
        ok = any(g in ("pc >= len(self._insn)", "pc >= len(self)", "pc >= len(self._code)") for g in gs)
        rep.check("R19.4", ok, m, r, f"return Instruction.STOP under {sorted(gs)}", "STOP must be returned exactly for pc >= code length")
    # the singleton really is STOP
    stop_assign = [s for s in m.tree.body if isinstance(s, ast.Assign) and src(s.targets[0]) == "Instruction.STOP"]
    ok = False
    for s in stop_assign:
        if isinstance(s.value, ast.Call) and s.value.args:
            ok = fold_in(repo, "contract", s.value.args[0]) == 0
    rep.check("R19.4", ok, m, stop_assign[0] if stop_assign else fn, src(stop_assign[0]) if stop_assign else "Instruction.STOP = ?", "Instruction.STOP must be Instruction(OP_STOP) with OP_STOP == 0")
    # _insn is sized by the code
    _, init = repo.fn("contract.Contract.__init__")
    sized = [s for s in body_walk(init) if isinstance(s, ast.Assign) and src(s.targets[0]) == "self._insn"]
    ok = bool(sized) and "len(code)" in src(sized[0].value)
    rep.check("R19.4", ok, m, sized[0] if sized else init, src(sized[0]) if sized else "self._insn = ?", "instruction cache must be sized by len(code)")


def r19_5_opcode_tables(repo: Repo, rep: Report):
    rep.rule("R19.5", "contract.OP_* == utils.EVM.* == str_opcode == EVM table (value and mnemonic)")
    mc = repo.mod("contract")
    mu = repo.mod("utils")
    ops_c = {}
    for st in mc.tree.body:
        if isinstance(st, ast.Assign) and len(st.targets) == 1 and isinstance(st.targets[0], ast.Name) and st.targets[0].id.startswith("OP_"):
            v = fold_in(repo, "contract", st.value)
            if isinstance(v, int):
                ops_c[st.targets[0].id[3:]] = (v, st)
    _, evm_cls = repo.cls("utils.EVM")
    ops_u = class_consts(repo, "utils", evm_cls)
    # str_opcode: keys EVM.X -> "X" (need key expressions, to detect a mis-bound mnemonic)
    so = None
    for st in mu.tree.body:
        tgt = st.target if isinstance(st, ast.AnnAssign) else (st.targets[0] if isinstance(st, ast.Assign) else None)
        if tgt is not None and src(tgt) == "str_opcode":
            so = st.value
    if not isinstance(so, ast.Dict):
        raise AnalysisError("utils.str_opcode dict literal not found")
    n = 0
    for name, (v, st) in sorted(ops_c.items()):
        n += 1
        canon = evm_ops.ALIASES.get(name, name)
        spec = evm_ops.BY_NAME.get(canon)
        ok = spec is not None and spec[0] == v and ops_u.get(name) == v
        rep.check("R19.5", ok, mc, st, src(st), f"OP_{name}={v:#x}: EVM table says {spec[0] if spec else None}, utils.EVM says {ops_u.get(name)}")
    for name, v in ops_u.items():
        if name not in ops_c and isinstance(v, int):
            n += 1
            canon = evm_ops.ALIASES.get(name, name)
            spec = evm_ops.BY_NAME.get(canon)
            rep.check("R19.5", spec is not None and spec[0] == v, mu, evm_cls, f"EVM.{name} = {v:#x}", "utils.EVM constant disagrees with the EVM table")
    seen = {}
    for k, val in zip(so.keys, so.values):
        n += 1
        kv = fold_in(repo, "utils", k)
        name = fold_in(repo, "utils", val)
        if kv is UNKNOWN or name is UNKNOWN:
            rep.bad("R19.5", mu, k, f"{src(k)}: {src(val)}", "str_opcode entry is not a constant")
            continue
        canon = evm_ops.ALIASES.get(name, name)
        spec = evm_ops.OPS.get(kv)
        ok = spec is not None and spec[0] == canon and seen.get(kv, name) == name
        seen[kv] = name
        rep.check("R19.5", ok, mu, k, f"{src(k)}: {src(val)}", f"str_opcode maps {kv:#x} to {name!r}; EVM table says {spec[0] if spec else None}")
    rep.table("opcode constants (contract.OP_*, utils.EVM, str_opcode)", n)
    if len(ops_c) < 140:
        raise AnalysisError(f"R19.5: only {len(ops_c)} OP_* constants found")
    # CALL/CREATE/TERMINATING groups
    groups = {"CALL_OPCODES": {0xF1, 0xF2, 0xF4, 0xFA}, "CREATE_OPCODES": {0xF0, 0xF5}, "TERMINATING_OPCODES": {0x00, 0xF3, 0xFD, 0xFE}}
    for g, exp in groups.items():
        v = repo.const("contract", g)
        rep.check("R19.5", v is not UNKNOWN and set(v) == exp, mc, mc.tree, f"{g} = {sorted(v) if v is not UNKNOWN else v}", f"{g} must be {sorted(exp)}")


def _union_classes(ann) -> list[str] | None:
    if isinstance(ann, ast.BinOp) and isinstance(ann.op, ast.BitOr):
        l, r = _union_classes(ann.left), _union_classes(ann.right)
        if l is None or r is None:
            return None
        return l + r
    if isinstance(ann, ast.Name):
        return [ann.id]
    return None


def r19_6_duck_typed_siblings(repo: Repo, rep: Report):
    rep.rule("R19.6", "a method called on a receiver annotated as a union of repo classes has the same parameter meaning in every member")
    from hsa.fold import resolve_name

    m = repo.mod("sevm")
    n = 0
    for q, fn in repo.functions("sevm"):
        for st in body_walk(fn):
            if not (isinstance(st, ast.AnnAssign) and isinstance(st.target, ast.Name)):
                continue
            classes = _union_classes(st.annotation)
            if not classes or len(classes) < 2:
                continue
            resolved = []
            for cname in classes:
                mod2, name2 = resolve_name(repo, "sevm", cname)
                c = repo.modules[mod2].defs.get(name2) if mod2 else None
                if isinstance(c, ast.ClassDef):
                    resolved.append((cname, class_methods(c)))
            if len(resolved) < 2:
                continue
            var = st.target.id
            for c in body_walk(fn):
                if isinstance(c, ast.Call) and isinstance(c.func, ast.Attribute) and isinstance(c.func.value, ast.Name) and c.func.value.id == var:
                    meth = c.func.attr
                    sigs = {cn: param_names(ms[meth]) for cn, ms in resolved if meth in ms}
                    if len(sigs) < 2:
                        continue
                    n += 1
                    distinct = {tuple(v) for v in sigs.values()}
                    # keyword calls are immune; positional calls need identical parameter lists
                    positional = len(c.args)
                    heads = {tuple(v[:positional]) for v in sigs.values()}
                    ok = len(heads) == 1
                    rep.check("R19.6", ok, m, c, f"{src(c)}  with {var}: {src(st.annotation)}", f"positional call but the union members disagree on parameters: {sigs}")
    # direct receivers: code objects sliced with (offset, size)
    _, run = repo.fn("sevm.SEVM.run")
    for c in method_calls(run, "slice"):
        recv = src(c.func.value)
        if recv in ("ex.pgm",):
            n += 1
            _, cslice = repo.fn("contract.Contract.slice")
            ps = param_names(cslice)
            rep.check("R19.6", ps[:2] == ["start", "size"] and len(c.args) == 2, m, c, src(c), "Contract.slice is (start, size)")
    rep.units["R19.6_union_receiver_calls"] = n


_PRED_ACCEPTS = {
    # which byte representations the predicate treats as concrete
    "int_of": frozenset({"int", "bytes", "BV-concrete", "BitVecVal"}),
    "unbox_int": frozenset({"int", "bytes", "BV-concrete", "BitVecVal"}),
    "is_concrete": frozenset({"int", "bytes", "BV-concrete", "BitVecVal"}),
    "type-is-int": frozenset({"int"}),
    "isinstance-int": frozenset({"int"}),
}


def _concreteness_predicates(fn) -> set[str]:
    out = set()
    for n in body_walk(fn):
        if isinstance(n, ast.Call):
            nm = call_name(n)
            if nm in ("int_of", "unbox_int", "is_concrete"):
                out.add(nm)
            if nm == "isinstance" and len(n.args) == 2 and src(n.args[1]) == "int":
                out.add("isinstance-int")
        if isinstance(n, ast.Compare) and isinstance(n.left, ast.Call) and call_name(n.left) == "type" and src(n.comparators[0]) == "int":
            out.add("type-is-int")
    return out


def r19_7_concreteness_predicate(repo: Repo, rep: Report):
    rep.rule("R19.7", "jumpdest scanner and instruction decoder accept the same byte representations as concrete")
    m, scan = repo.fn("contract.Contract.__get_jumpdests")
    _, dec = repo.fn("contract.Contract._decode_instruction")
    ps, pd = _concreteness_predicates(scan), _concreteness_predicates(dec)
    if not ps or not pd:
        raise AnalysisError(f"R19.7: concreteness predicates not recognised (scanner={ps}, decoder={pd})")
    acc_s = frozenset.intersection(*[_PRED_ACCEPTS[p] for p in ps])
    acc_d = frozenset.intersection(*[_PRED_ACCEPTS[p] for p in pd])
    rep.check(
        "R19.7", acc_s == acc_d, m, scan,
        f"scanner uses {sorted(ps)}; decoder uses {sorted(pd)}",
        f"scanner accepts {sorted(acc_s)} but decoder accepts {sorted(acc_d)}: a JUMPDEST that decodes may be missing from valid_jumpdests()",
    )


def r19_8_code_slice_zero_pad(repo: Repo, rep: Report):
    rep.rule("R19.8", "code slices go through ByteVec.slice (zero padding past the end); the fast path only serves in-range reads")
    m, fn = repo.fn("contract.Contract.slice")
    from hsa.origin import origin_text

    for q in ("contract.Contract.slice", "contract.Contract.unwrapped_slice"):
        mm, f = repo.fn(q)
        # every Python slice of the raw concrete prefix (directly or through a local alias): Python truncates at the
        # end where the EVM pads with zeros, so the read must be guarded to lie inside the prefix
        raw = [
            n for n in body_walk(f)
            if isinstance(n, ast.Subscript) and isinstance(n.slice, ast.Slice) and origin_text(mm, f, n.value).replace("$", "") == "self._fastcode"
        ]
        for n in raw:
            gs = {guard_text(ast.parse(origin_text(mm, f, t).replace("$", ""), mode="eval").body, pol).replace(" ", "") for t, pol in guards_at(mm, n)}
            upper = origin_text(mm, f, n.slice.upper).replace("$", "").replace(" ", "") if n.slice.upper is not None else None
            ok = upper is not None and any(g in (f"{upper}<len(self._fastcode)", f"{upper}<=len(self._fastcode)") for g in gs)
            rep.check("R19.8", ok, mm, n, f"{q}: {src(n)} under {sorted(gs)}", "a raw slice of the concrete prefix must be limited to reads that end inside it (Python truncates, the EVM zero-pads)")
        # the fast path may live in a helper method of Contract (`self._helper(start, stop)`): its raw slice is then
        # checked by the all-methods clause below
        via = []
        if not raw:
            cls = next(c for c in mm.tree.body if isinstance(c, ast.ClassDef) and c.name == "Contract")
            meths = {x.name: x for x in cls.body if isinstance(x, (ast.FunctionDef, ast.AsyncFunctionDef))}
            for c in ast.walk(f):
                if isinstance(c, ast.Call) and isinstance(c.func, ast.Attribute) and src(c.func.value) == "self" and c.func.attr in meths and c.func.attr not in ("slice", "unwrapped_slice"):
                    h = meths[c.func.attr]
                    if any(isinstance(n, ast.Subscript) and isinstance(n.slice, ast.Slice) and origin_text(mm, h, n.value).replace("$", "") == "self._fastcode" for n in ast.walk(h)) and [src(a) for a in c.args] == ["start", "stop"] and [a.arg for a in h.args.args[1:]] == ["start", "stop"]:
                        via.append(c.func.attr)
        rep.check("R19.8", len(raw) == 1 or len(via) == 1, mm, f, f"{q}: {len(raw)} raw slice(s) of the concrete prefix" + (f" (through self.{via[0]}(start, stop))" if via else ""), "fast path vanished or duplicated")
        slow = [r for r in body_walk(f) if isinstance(r, ast.Return) and "self._code.slice(start, stop)" in src(r.value)]
        rep.check("R19.8", bool(slow), mm, f, f"{q}: falls back to self._code.slice(start, stop)", "no zero-padding fallback")
    # round 7: the same holds in every other method of Contract (e.g. a 'native' operand read in the decoder)
    reviewed = {"slice", "unwrapped_slice"}
    for c in m.tree.body:
        if isinstance(c, ast.ClassDef) and c.name == "Contract":
            for f in c.body:
                if not isinstance(f, (ast.FunctionDef, ast.AsyncFunctionDef)) or f.name in reviewed:
                    continue
                for n in ast.walk(f):
                    if not (isinstance(n, ast.Subscript) and isinstance(n.slice, ast.Slice)):
                        continue
                    try:
                        o = origin_text(m, f, n.value).replace("$", "")
                    except Exception:
                        o = src(n.value)
                    if o not in ("self._fastcode",):
                        continue
                    gs = {guard_text(t, pol).replace(" ", "") for t, pol in guards_at(m, n)}
                    upper = src(n.slice.upper).replace(" ", "") if n.slice.upper is not None else None
                    ok = upper is not None and any(g in (f"{upper}<len(self._fastcode)", f"{upper}<=len(self._fastcode)", f"{upper}<len({src(n.value)})", f"{upper}<=len({src(n.value)})") for g in gs)
                    rep.check("R19.8", ok, m, n, f"contract.Contract.{f.name}: {src(n)} under {sorted(gs)}", "a raw slice of the concrete prefix must be limited to reads that end inside it (Python truncates, the EVM zero-pads: a PUSH cut off by the end of the code reads zeros)")
    stops = [s for s in body_walk(fn) if isinstance(s, ast.Assign) and src(s.targets[0]) == "stop"]
    rep.check("R19.8", bool(stops) and src(stops[0].value) in ("start + size", "size + start"), m, stops[0] if stops else fn, src(stops[0]) if stops else "stop = ?", "Contract.slice(start, size) must read start .. start+size")


def r19_9_fast_prefix(repo: Repo, rep: Report):
    rep.rule("R19.9", "the concrete fast prefix is exactly the bytes of the first concrete chunk (never the chunk's backing buffer)")
    m, init = repo.fn("contract.Contract.__init__")
    stores = [s for s in body_walk(init) if isinstance(s, ast.Assign) and src(s.targets[0]) == "self._fastcode"]
    vals = sorted(src(s.value) for s in stores)
    ok = vals == ["None", "first_chunk.unwrap()"]
    rep.check("R19.9", ok, m, stores[-1] if stores else init, f"Contract.__init__: self._fastcode in {vals}", "the fast prefix must be None or first_chunk.unwrap(): `.data` is the backing buffer, which may extend past the chunk (a prefix view of a larger buffer), so reads past the end of the code would see buffer bytes instead of zeros and JUMPDESTs beyond the end become valid")
    for s in stores:
        if src(s.value) == "None":
            continue
        gs = guard_set(m, s)
        ok = "isinstance(first_chunk, ConcreteChunk)" in gs and "code.chunks" in gs
        rep.check("R19.9", ok, m, s, f"{src(s)} under {sorted(gs)}", "only a concrete first chunk may serve as the fast prefix")
    fc = [src(v) for s in body_walk(init) if isinstance(s, ast.Assign) and src(s.targets[0]) == "first_chunk" for v in [s.value]]
    rep.check("R19.9", fc == ["code.chunks[0]"], m, init, f"first_chunk = {fc}", "the prefix must start at offset 0 of the code")
    # the jump-destination set of a contract is computed from that contract's own code
    _, vj = repo.fn("contract.Contract.valid_jumpdests")
    from hsa.paths import summarise

    ps = summarise(vj) or []
    ok = bool(ps)
    shapes = []
    for p_ in ps:
        stores = [e[1] for e in p_.trace if e[0] == "e" and e[1].startswith("self._jumpdests = ")]
        val = re.sub(r"@stale\d*\((.*)\)$", r"\1", p_.value)
        shapes.append((p_.conds, stores, val))
        if "self._jumpdests is None" in p_.conds:
            ok = ok and stores == ["self._jumpdests = self.__get_jumpdests()"] and val in ("self._jumpdests", "self.__get_jumpdests()")
        else:
            ok = ok and not stores and val == "self._jumpdests"
        ok = ok and p_.kind == "return" and not any("_by_" in c or "cache" in c.lower() for c in p_.conds)
    rep.check("R19.9", ok and len(ps) == 2, m, vj, f"valid_jumpdests paths: {[(list(c), s_, v) for c, s_, v in shapes]}"[:300], "the set must come from scanning this contract (memoised on the object only): a result shared through a key that is not the whole code (e.g. the concrete prefix) gives another contract's jump destinations")
    from hsa.rules.c20 import r20_9_module_containers_and_config

    r20_9_module_containers_and_config(repo, rep)
    # the program counter written by a taken jump (shared with C01: R01.3 checks the operands of advance(pc=...))
    from hsa.rules.c01 import r01_2_3_arm_semantics

    r01_2_3_arm_semantics(repo, rep)


def r19_10_shared(repo: Repo, rep: Report):
    """a symbolic JUMP explores every JUMPDEST that is not proved unreachable (shared with C02 R02.1)"""
    from hsa.rules.verdicts import check_verdict_sites

    rep.rule("R02.1", "jump-target candidates are kept unless the solver says unsat (shared with C02)")
    check_verdict_sites(repo, rep, "R02.1", modules=("sevm",), only_functions={"sevm.SEVM.run", "sevm.SEVM.jumpi"})


RULES = [
    r19_9_fast_prefix,
    r19_1_insn_len,
    r19_2_scanner_decoder,
    r19_3_jump_targets,
    r19_4_stop_beyond_end,
    r19_5_opcode_tables,
    r19_6_duck_typed_siblings,
    r19_7_concreteness_predicate,
    r19_8_code_slice_zero_pad,
    r19_10_shared,
]
