"""C11 — the solver query equals the path's constraints; refinement is exact."""

from __future__ import annotations

import ast
import re

from hsa.core import AnalysisError, Repo, Report, body_walk, call_name, dotted, kwarg, last_attr, src
from hsa.flow import Flow, _loop_level, function_exits, normal_exit_states
from hsa.fold import fold_in
from hsa.rules.c04 import r04_2_refine_exact
from hsa.rules.common import guard_set, method_calls

EXPLANATION = (
    "Decides that serialisation is unfiltered and complete: Path.to_smt2 adds every element of "
    "self.conditions (both with and without --cache-solver) to a fresh solver, computes the assertion ids "
    "from the same collection in the same order, and removes only the literal (check-sat); the constraint "
    "set is written only inside Path, where the solver and the condition dict are updated together, and "
    "extend_path copies all parent conditions and adds all of them or exactly the sliced indices; dump() "
    "writes logic header, query, (check-sat), (get-model) on both branches and one named assertion per id, "
    "and parse_unsat_core's regex (evaluated on checker-made samples) reads back exactly the ids the writer "
    "produces; refine() is exact (R04.2). Faithfulness of z3's printer is not decided."
    ' Also decided: the core reader accepts only a complete `unsat (...)` reply (evaluated on checker-made samples including truncated replies); solve_low_level rewrites the query file unconditionally before every solver run.'
    ' Round 5: pending conditions are activated before a path can end (C13 R13.6).'
)
ASSUMPTIONS = ["z3 Solver.to_smt2 / translate are faithful", "solvers treat `(assert (! |id| :named <id>))` + `(assert (=> |id| c))` as the tracked assertion c"]


def r11_1_serialisation(repo: Repo, rep: Report):
    rep.rule("R11.1", "Path.to_smt2: every condition is asserted, ids from the same collection, fresh solver, only (check-sat) removed")
    m, fn = repo.fn("sevm.Path.to_smt2")
    ids = [s for s in body_walk(fn) if isinstance(s, ast.Assign) and src(s.targets[0]) == "ids"]
    ok = len(ids) == 1 and isinstance(ids[0].value, ast.ListComp) and len(ids[0].value.generators) == 1 and src(ids[0].value.generators[0].iter) == "self.conditions" and not ids[0].value.generators[0].ifs and src(ids[0].value.elt) == "str(cond.get_id())"
    rep.check("R11.1", ok, m, ids[0] if ids else fn, src(ids[0]) if ids else "ids = ?", "assertion ids must be str(cond.get_id()) for every condition, unfiltered")
    loops = [l for l in body_walk(fn) if isinstance(l, ast.For) and src(l.iter) == "self.conditions"]
    if len(loops) != 1:
        rep.bad("R11.1", m, fn, "for cond in self.conditions", "serialisation loop over self.conditions not found")
        return
    lp = loops[0]
    bc = [b for b in _loop_level(lp.body) if isinstance(b, (ast.Break, ast.Continue, ast.Return))]
    rep.check("R11.1", not bc, m, lp, "serialisation loop has no break/continue/return", "a condition can be skipped during serialisation")

    def tr(node, state):
        out = []
        if isinstance(node, (ast.FunctionDef, ast.ClassDef)):
            return out
        for c in ast.walk(node):
            if isinstance(c, ast.Call) and dotted(c.func) in ("tmp_solver.add", "tmp_solver.assert_and_track") and c.args and src(c.args[0]) == "cond_copied":
                out.append("asserted")
                if last_attr(c) == "assert_and_track":
                    out.append("tracked:" + src(c.args[1]))
        return out

    o = Flow(tr, guard_facts=True, calls_raise=False).run(lp.body)
    states = o.get("fall", set())
    ok = bool(states) and all("asserted" in s for s in states)
    rep.check("R11.1", ok, m, lp, f"all {len(states)} path(s) through the loop body assert cond_copied", "some path through the serialisation loop does not assert the condition")
    tracked_ok = all(("tracked:str(cond.get_id())" in s) == (("G", "args.cache_solver") in s) for s in states)
    rep.check("R11.1", tracked_ok, m, lp, "assert_and_track(cond_copied, str(cond.get_id())) iff args.cache_solver", "tracking id must be the condition's own id, used exactly with --cache-solver")
    cc = [s for s in lp.body if isinstance(s, ast.Assign) and src(s.targets[0]) == "cond_copied"]
    ok = len(cc) == 1 and src(cc[0].value) == "cond.translate(tmp_solver.ctx)"
    rep.check("R11.1", ok, m, cc[0] if cc else lp, src(cc[0]) if cc else "cond_copied = ?", "the asserted term must be the condition itself (translated)")
    ts = [s for s in body_walk(fn) if isinstance(s, ast.Assign) and src(s.targets[0]) == "tmp_solver"]
    ok = len(ts) == 1 and src(ts[0].value).startswith("create_solver(") and "Context()" in src(ts[0].value)
    rep.check("R11.1", ok, m, ts[0] if ts else fn, src(ts[0]) if ts else "tmp_solver = ?", "serialisation must use a fresh solver (self.solver may hold only the sliced constraints)")
    qs = [s for s in body_walk(fn) if isinstance(s, ast.Assign) and src(s.targets[0]) == "query"]
    texts = [src(s.value) for s in qs]
    ok = texts == ["tmp_solver.to_smt2()", "query.replace('(check-sat)', '')"]
    rep.check("R11.1", ok, m, qs[0] if qs else fn, f"query = {texts}", "query must be tmp_solver.to_smt2() with only (check-sat) removed")
    rets = [r for r in body_walk(fn) if isinstance(r, ast.Return)]
    ok = len(rets) == 1 and src(rets[0].value) == "SMTQuery(query, ids)"
    rep.check("R11.1", ok, m, rets[0] if rets else fn, src(rets[0]) if rets else "return ?", "to_smt2 must return SMTQuery(query, ids)")
    # the reset of the temporary solver happens after serialisation
    rs = [c for c in method_calls(fn, "reset") if dotted(c.func) == "tmp_solver.reset"]
    if rs and qs:
        rep.check("R11.1", rs[0].lineno > qs[0].lineno, m, rs[0], "tmp_solver.reset() after to_smt2()", "solver reset before serialisation empties the query")


def r11_2_constraint_ownership(repo: Repo, rep: Report):
    rep.rule("R11.2", "Path.conditions is written only inside Path; solver and dict are updated together; extend_path copies all")
    n = 0
    for modname, mm in repo.modules.items():
        for node in ast.walk(mm.tree):
            tgt = None
            if isinstance(node, (ast.Assign, ast.AugAssign, ast.AnnAssign, ast.Delete)):
                tgts = node.targets if isinstance(node, (ast.Assign, ast.Delete)) else [node.target]
                for t in tgts:
                    base = t
                    while isinstance(base, ast.Subscript):
                        base = base.value
                    if isinstance(base, ast.Attribute) and base.attr == "conditions":
                        tgt = t
            elif isinstance(node, ast.Call) and isinstance(node.func, ast.Attribute) and node.func.attr in ("pop", "clear", "update", "setdefault", "popitem", "__setitem__", "__delitem__"):
                if isinstance(node.func.value, ast.Attribute) and node.func.value.attr == "conditions":
                    tgt = node
            if tgt is not None:
                n += 1
                q = mm.qual(node)
                rep.check("R11.2", q.startswith("sevm.Path."), mm, node, f"{q}: {src(node)[:90]}", "path conditions are modified outside class Path")
    if n < 3:
        raise AnalysisError(f"R11.2: only {n} writes to .conditions found")
    m, ap = repo.fn("sevm.Path.append")

    def tr(node, state):
        out = []
        if isinstance(node, (ast.FunctionDef, ast.ClassDef)):
            return out
        for c in ast.walk(node):
            if isinstance(c, ast.Call) and dotted(c.func) == "self.solver.add" and src(c.args[0]) == "cond":
                out.append("solver")
        if isinstance(node, ast.Assign) and src(node.targets[0]) == "self.conditions[cond]":
            out.append("dict")
        return out

    states = normal_exit_states(function_exits(ap, tr, calls_raise=False))
    ok = bool(states) and all(("solver" in s) == ("dict" in s) for s in states) and any("dict" in s for s in states)
    rep.check("R11.2", ok, m, ap, "Path.append: self.solver.add(cond) and self.conditions[cond] = branching on the same paths", "solver and recorded conditions can diverge")
    for r in body_walk(ap):
        if isinstance(r, ast.Return):
            gs = guard_set(m, r)
            ok = "is_true(cond)" in gs or "cond in self.conditions" in gs
            rep.check("R11.2", ok, m, r, f"early return under {sorted(gs)}", "a constraint is skipped for a reason other than being `true` or already present")
    sc = [s for s in body_walk(ap) if isinstance(s, ast.Assign) and src(s.targets[0]) == "cond"]
    ok = len(sc) == 1 and src(sc[0].value) == "simplify(cond)" and sc[0] is ap.body[0]
    rep.check("R11.2", ok, m, sc[0] if sc else ap, "cond = simplify(cond) first", "append must record the simplified condition it checks")
    m, ep = repo.fn("sevm.Path.extend_path")
    t = src(ep)
    ok = "self.conditions = path.conditions.copy()" in t
    rep.check("R11.2", ok, m, ep, "extend_path: self.conditions = path.conditions.copy()", "a path that extends a state must inherit all of its conditions")
    loops = [l for l in body_walk(ep) if isinstance(l, ast.For)]
    ok = len(loops) == 2
    if ok:
        a, b = loops
        ok = src(a.iter) == "self.conditions" and "path.sliced is None" in guard_set(m, a) and [src(s) for s in a.body] == ["self.solver.add(cond)"]
        ok = ok and src(b.iter) == "enumerate(self.conditions)" and len(b.body) == 1 and isinstance(b.body[0], ast.If) and src(b.body[0].test) == "idx in path.sliced" and [src(s) for s in b.body[0].body] == ["self.solver.add(cond)"]
    rep.check("R11.2", ok, m, ep, "extend_path: unsliced -> add all; sliced -> add exactly idx in path.sliced", "solver of an extending path must hold all conditions or exactly the sliced ones")
    m, br = repo.fn("sevm.Path.branch")
    t = src(br)
    ok = "path.conditions = self.conditions.copy()" in t and "path.pending.append(cond)" in t
    rep.check("R11.2", ok, m, br, "branch: conditions copied, branching condition pending", "a branch must inherit all conditions and carry its own condition")
    m, ac = repo.fn("sevm.Path.activate")
    ok = "self.extend(self.pending, branching=True)" in src(ac)
    rep.check("R11.2", ok, m, ac, "activate: extend(self.pending, branching=True)", "the pending branch condition must be appended on activation")


def r11_3_dump_writer_reader(repo: Repo, rep: Report):
    rep.rule("R11.3", "dump(): header/query/check-sat/get-model on both branches, one named assertion per id; parse_unsat_core reads the writer's names")
    m, fn = repo.fn("solve.dump")
    writes = [c for c in method_calls(fn, "write_text")]
    if len(writes) != 2:
        rep.bad("R11.3", m, fn, f"{len(writes)} write_text calls", "dump must write the query in both the cached and the plain branch")
        return
    gsets = sorted(sorted(guard_set(m, w) - {"args.verbose >= 1"}) for w in writes)
    rep.check("R11.3", gsets == [["args.cache_solver"], ["not (args.cache_solver)"]], m, writes[0], f"dump branches on exactly args.cache_solver: {gsets}", "the named-assertion encoding must be written exactly when Path.to_smt2 tracked the assertions (args.cache_solver): otherwise the query contains `(=> |id| c)` implications whose literals are never asserted and every constraint becomes vacuous")
    for w in writes:
        gs = guard_set(m, w)
        cached = "args.cache_solver" in gs
        arg = w.args[0]
        lits = "".join(str(v.value) for v in ast.walk(arg) if isinstance(v, ast.Constant) and isinstance(v.value, str))
        fvals = [src(v.value) for v in ast.walk(arg) if isinstance(v, ast.FormattedValue)]
        need = ["(set-logic QF_AUFBV)", "(check-sat)", "(get-model)"]
        ok = all(x in lits for x in need) and "query.smtlib" in fvals
        order_ok = lits.find("(set-logic") < lits.find("(check-sat)") < lits.find("(get-model)")
        if cached:
            ok = ok and "(set-option :produce-unsat-cores true)" in lits and "(get-unsat-core)" in lits and "named_assertions" in fvals
            ok = ok and fvals.index("query.smtlib") < fvals.index("named_assertions")
        rep.check("R11.3", ok and order_ok, m, w, f"write_text[{'cached' if cached else 'plain'}]: literals={lits[:80]!r} values={fvals}", "the dumped query lost a command or the constraints")
    na = [s for s in body_walk(fn) if isinstance(s, ast.Assign) and src(s.targets[0]) == "named_assertions"]
    ok = False
    if len(na) == 1:
        comps = [c for c in ast.walk(na[0].value) if isinstance(c, (ast.ListComp, ast.GeneratorExp))]
        if len(comps) == 1:
            g = comps[0].generators[0]
            tmpl = "".join(str(v.value) if isinstance(v, ast.Constant) else "{" + src(v.value) + "}" for v in comps[0].elt.values) if isinstance(comps[0].elt, ast.JoinedStr) else ""
            ok = src(g.iter) == "query.assertions" and not g.ifs and tmpl == "(assert (! |{assert_id}| :named <{assert_id}>))\n" and src(g.target) == "assert_id"
    rep.check("R11.3", ok, m, na[0] if na else fn, src(na[0])[:150] if na else "named_assertions = ?", "one `(assert (! |id| :named <id>))` per assertion id, unfiltered")
    # reader: evaluate the repo's regex literal on checker-made solver outputs
    mp, pf = repo.fn("solve.parse_unsat_core")
    reader = None
    pats = [s for s in body_walk(pf) if isinstance(s, ast.Assign) and src(s.targets[0]) == "pattern"]
    pat = fold_in(repo, "solve", pats[0].value) if pats else None
    searches = [c for c in body_walk(pf) if isinstance(c, ast.Call) and src(c.func) in ("re.search", "re.match", "re.fullmatch")]
    findalls = [c for c in body_walk(pf) if isinstance(c, ast.Call) and src(c.func) == "re.findall"]
    t = src(pf)
    if isinstance(pat, str) and searches and not findalls:
        try:
            rx = re.compile(pat)
        except re.error as e:
            raise AnalysisError(f"parse_unsat_core pattern does not compile: {e}")
        inner = None
        for c in body_walk(pf):
            if isinstance(c, ast.Call) and src(c.func) == "re.sub" and len(c.args) == 3:
                inner = (fold_in(repo, "solve", c.args[0]), fold_in(repo, "solve", c.args[1]))
        grp = [int(x) for x in re.findall(r"match\.group\((\d)\)\.split\(\)", t)]
        how = {"re.search": rx.search, "re.match": rx.match, "re.fullmatch": rx.fullmatch}[src(searches[0].func)]
        if inner and all(isinstance(x, str) for x in inner) and grp and "return None" in t:

            def reader(text):
                mm = how(text)
                return [re.sub(inner[0], inner[1], name) for name in mm.group(grp[0]).split()] if mm else None

    elif findalls and not searches:
        # the labels are collected wherever they occur in the output
        fpat = fold_in(repo, "solve", findalls[0].args[0]) if findalls[0].args else None
        if isinstance(fpat, str) and len(findalls) == 1:
            frx = re.compile(fpat)

            def reader(text):
                got = frx.findall(text)
                return got if got else None

    if reader is None:
        raise AnalysisError("parse_unsat_core: reader shape not recognised (neither an anchored search with group().split() nor a findall)")
    samples = [
        ("unsat\n(<41702> <37030> <36248> <47880>)\n", ["41702", "37030", "36248", "47880"]),
        ('unsat\n(error "the context is unsatisfiable")\n(<7>)\n', ["7"]),
        ("unsat\n()\n", []),
        # a reply that was cut off inside the core list is not a core: a prefix of a core need not be unsatisfiable
        ("unsat\n(<1549> <1", None),
        ("unsat\n", None),
        ("sat\n(model (define-fun <5> () Bool true))\n", None),
    ]
    for text, want in samples:
        try:
            got = reader(text)
        except Exception as e:  # noqa: BLE001
            got = f"<{type(e).__name__}>"
        rep.check("R11.3", got == want, mp, pf, f"parse_unsat_core on {text!r} -> {got}", f"reader must yield {want}: it has to recover exactly the writer's ids from a complete `unsat (...)` reply and nothing from anything else")
    # solve_low_level writes the file before running the solver on that very file
    ms, sl = repo.fn("solve.solve_low_level")
    t = src(sl)
    ok = "dump(path_ctx)" in t and "solver_command = args.resolved_solver_command + [smt2_filename]" in t and "smt2_filename) = (path_ctx.args, str(path_ctx.dump_file))" in t.replace("args, smt2_filename = path_ctx.args, str(path_ctx.dump_file)", "smt2_filename) = (path_ctx.args, str(path_ctx.dump_file))")
    rep.check("R11.3", "dump(path_ctx)" in t and "[smt2_filename]" in t, ms, sl, "solve_low_level: dump(path_ctx) then solver on smt2_filename", "the solver must be run on the dumped query")
    # every run of the solver is preceded by writing this path's query: an existing file may belong to another path
    dumps = [c for c in body_walk(sl) if isinstance(c, ast.Call) and call_name(c) == "dump"]
    for c in dumps:
        gs = guard_set(ms, c)
        rep.check("R11.3", not gs, ms, c, f"solve_low_level: {src(c)} under {sorted(gs)}", "the query file must be (re)written unconditionally before the solver reads it: a file left by another path, depth or run would be solved instead")

    def tr(node, state):
        out = []
        for n in ast.walk(node) if not isinstance(node, (ast.FunctionDef, ast.AsyncFunctionDef)) else []:
            if isinstance(n, ast.Call) and call_name(n) == "dump":
                out.append("dumped")
            if isinstance(n, ast.Call) and call_name(n) in ("PopenFuture", "submit") and "dumped" not in state and "dumped" not in out:
                out.append("solver-before-dump")
        return out

    exits = function_exits(sl, tr, calls_raise=False)
    bad = [s for sts in exits.values() for s in sts if "solver-before-dump" in s]
    rep.check("R11.3", not bad, ms, sl, "solve_low_level: on every path dump(path_ctx) precedes the creation/submission of the solver process", "a path starts the solver without having written the query")


def r11_4_refine(repo: Repo, rep: Report):
    rep.rule("R04.2", "refine(): exact definitions (shared with C04)")
    r04_2_refine_exact(repo, rep)


def r11_5_shared(repo: Repo, rep: Report):
    """conditions held in Path.pending reach the query only after activation: a path must be activated before it can
    end (shared with C13 R13.6)"""
    from hsa.rules.c13 import r13_6_propagation

    r13_6_propagation(repo, rep)


RULES = [r11_1_serialisation, r11_2_constraint_ownership, r11_3_dump_writer_reader, r11_4_refine, r11_5_shared]
