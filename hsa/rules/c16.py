"""C16 — the unsat-core cache never changes a verdict."""

from __future__ import annotations

import ast

from hsa.core import AnalysisError, Repo, Report, body_walk, call_name, dotted, find_assign, kwarg, last_attr, src
from hsa.rules.c11 import r11_1_serialisation
from hsa.rules.common import guard_set, method_calls

EXPLANATION = (
    "Decides the mechanism that makes a cache hit sound: cores are recorded only by the completion callback, "
    "only for an `unsat` answer with a non-empty parsed core; a hit requires ALL ids of a core to be among the "
    "query's assertion ids (all(...), and the empty core is excluded by the non-empty test); ids are exactly the "
    "ids of the asserted conditions (R11.1); ids stay valid because every submitted path's Exec is bound into "
    "the stored future's callback (the terms named in a core cannot be freed and have their ids recycled while "
    "the owning context lives); the core store is created per FunctionContext and there is no module- or "
    "contract-level store. It does not run query sequences or the garbage collector."
    ' Also evaluated here: refinement exactness (C04 R04.2): refined queries keep their assertion ids and named assertions.'
    " Round 4: the solving context's core store is its own default list (never handed in from a longer-lived object)."
    ' Round 5: the core store is append-only and recorded cores are never modified in place (R16.8); which reply counts as unsat (C05 R05.3) and tracked serialisation (C11 R11.1) are evaluated here too.'
)
ASSUMPTIONS = [
    "z3 AST ids are unique among live terms of one context",
    "an unsat core returned by the solver is itself unsatisfiable",
]


def r16_1_core_recording(repo: Repo, rep: Report):
    rep.rule("R16.1", "unsat cores are appended only by the callback, under result == unsat and a non-empty core")
    n = 0
    for modname in ("__main__", "solve", "sevm"):
        m = repo.mod(modname)
        for c in ast.walk(m.tree):
            if isinstance(c, ast.Call) and last_attr(c) == "append_unsat_core":
                n += 1
                q = m.qual(c)
                gs = guard_set(m, c)
                ok = q == "__main__.CounterexampleHandler._solve_end_to_end_callback" and "result == unsat" in gs and "solver_output.unsat_core" in gs and src(c.args[0]) == "solver_output.unsat_core"
                rep.check("R16.1", ok, m, c, f"{src(c)} under {sorted(gs)}", "a core may be cached only for an unsat answer with a non-empty parsed core")
            # direct writes to the store
            if isinstance(c, ast.Call) and last_attr(c) in ("append", "extend", "insert") and dotted(c.func).endswith("unsat_cores." + last_attr(c)):
                ok = m.qual(c) == "solve.FunctionContext.append_unsat_core"
                rep.check("R16.1", ok, m, c, f"{m.qual(c)}: {src(c)}", "the core store is written outside FunctionContext.append_unsat_core")
            if isinstance(c, (ast.Assign, ast.AugAssign)):
                for t in (c.targets if isinstance(c, ast.Assign) else [c.target]):
                    if isinstance(t, (ast.Attribute, ast.Subscript)) and "unsat_cores" in src(t):
                        rep.bad("R16.1", m, c, src(c)[:100], "the core store is reassigned")
    if n < 1:
        rep.bad("R16.1", repo.mod("__main__"), None, "append_unsat_core(...)", "no site records unsat cores (cache never filled is fine, but the anchor is gone)")
    m, fr = repo.fn("solve.SolverOutput.from_result")
    t = src(fr)
    ok = "unsat_core = parse_unsat_core(stdout) if args.cache_solver else None" in t
    rep.check("R16.1", ok, m, fr, "from_result: unsat_core = parse_unsat_core(stdout) if args.cache_solver else None", "the core must be parsed from the solver's own output of this query")
    # result `unsat` in the callback is the solver output's own result
    mm, cb = repo.fn("__main__.CounterexampleHandler._solve_end_to_end_callback")
    vals = [src(v) for v in find_assign(cb, "result")]
    rep.check("R16.1", vals == ["solver_output.result"], mm, cb, f"result = {vals}", "`result` must be solver_output.result")


def r16_2_subset_test(repo: Repo, rep: Report):
    rep.rule("R16.2", "check_unsat_cores: a hit needs ALL ids of a core in the query; default is no hit")
    m, fn = repo.fn("solve.check_unsat_cores")
    rets = [r for r in body_walk(fn) if isinstance(r, ast.Return)]
    trues = [r for r in rets if src(r.value) == "True"]
    falses = [r for r in rets if src(r.value) == "False"]
    others = [r for r in rets if r not in trues and r not in falses]
    rep.check("R16.2", not others, m, fn, f"returns: {[src(r.value) for r in rets]}", "check_unsat_cores must return plain booleans")
    for r in trues:
        gs = guard_set(m, r)
        ok = any(g.replace(" ", "") in ("all((coreinquery.assertionsforcoreinunsat_core))", "all([coreinquery.assertionsforcoreinunsat_core])", "set(unsat_core)<=set(query.assertions)", "set(unsat_core).issubset(query.assertions)") for g in gs)
        loop = next((a for a in m.ancestors(r) if isinstance(a, ast.For)), None)
        ok = ok and loop is not None and src(loop.iter) == "unsat_cores" and src(loop.target) == "unsat_core"
        rep.check("R16.2", ok, m, r, f"return True under {sorted(gs)}", "a cache hit must require every id of the core to be asserted in the query (all, not any)")
    ok = len(falses) == 1 and falses[0] is fn.body[-1]
    rep.check("R16.2", ok, m, falses[0] if falses else fn, "return False at the end", "default answer must be `no hit`")
    if not trues:
        rep.bad("R16.2", m, fn, "return True", "no cache-hit return found")
    # the hit is the only solver-free unsat of the solving pipeline, and it is guarded by the check
    ms, se = repo.fn("solve.solve_end_to_end")
    hits = [i for i in body_walk(se) if isinstance(i, ast.If) and src(i.test) == "check_unsat_cores(query, ctx.solving_ctx.unsat_cores)"]
    ok = len(hits) == 1 and any(isinstance(r, ast.Return) and "SolverOutput(unsat" in src(r.value) for r in hits[0].body)
    rep.check("R16.2", ok, ms, hits[0] if hits else se, "if check_unsat_cores(query, ctx.solving_ctx.unsat_cores): return SolverOutput(unsat, ...)", "cache consultation must use this query and this context's cores")
    vals = [src(v) for v in find_assign(se, "query")]
    rep.check("R16.2", vals == ["ctx.query"], ms, se, f"query = {vals}", "the query checked against the cache must be the one to be solved")


def r16_3_ids_equal_asserted(repo: Repo, rep: Report):
    rep.rule("R11.1", "assertion ids == asserted set (shared with C11)")
    r11_1_serialisation(repo, rep)


def r16_4_id_stability(repo: Repo, rep: Report):
    rep.rule("R16.4", "ids stay live: the Exec of every submitted path is bound into the stored future's callback")
    m, hv = repo.fn("__main__.CounterexampleHandler.handle_assertion_violation")
    cbs = [c for c in method_calls(hv, "add_done_callback")]
    ok = False
    for c in cbs:
        p = c.args[0] if c.args else None
        if isinstance(p, ast.Call) and call_name(p) == "partial":
            ex = kwarg(p, "ex")
            ok = ex is not None and src(ex) == "ex" and "_solve_end_to_end_callback" in src(p.args[0])
    rep.check("R16.4", ok, m, cbs[0] if cbs else hv, src(cbs[0])[:140] if cbs else "add_done_callback(partial(..., ex=ex, ...))", "the path's Exec must be retained by the future's callback (otherwise its term ids can be recycled while cores naming them are cached)")
    apps = [c for c in method_calls(hv, "append") if "submitted_futures" in dotted(c.func)]
    ok = len(apps) == 1 and src(apps[0].args[0]) == "solve_future" and not guard_set(m, apps[0], silent=True)
    rep.check("R16.4", ok, m, apps[0] if apps else hv, src(apps[0]) if apps else "self.submitted_futures.append(solve_future)", "submitted futures must be retained for the life of the test")
    sf = [s for s in body_walk(hv) if isinstance(s, ast.Assign) and src(s.targets[0]) == "solve_future"]
    ok = len(sf) == 1 and src(sf[0].value) == "ctx.thread_pool.submit(solve_end_to_end, path_ctx)"
    rep.check("R16.4", ok, m, sf[0] if sf else hv, src(sf[0]) if sf else "solve_future = ?", "the stored future must be the one running this query")
    # run_test keeps the list alive until the verdict
    mm, rt = repo.fn("__main__.run_test")
    t = src(rt)
    ok = "submitted_futures = []" in t and "submitted_futures=submitted_futures" in t
    rep.check("R16.4", ok, mm, rt, "run_test owns submitted_futures and passes it to the handler", "futures list must live in run_test's frame")


def r16_5_scope(repo: Repo, rep: Report):
    rep.rule("R16.5", "the core store is per FunctionContext; no module- or contract-level store")
    n = 0
    for modname, m in repo.modules.items():
        for c in ast.walk(m.tree):
            if isinstance(c, ast.Call) and call_name(c) == "SolvingContext":
                n += 1
                rep.check("R16.5", m.qual(c) == "solve.FunctionContext.__post_init__", m, c, f"{m.qual(c)}: {src(c)}", "SolvingContext constructed outside FunctionContext.__post_init__ (cores could be shared across tests)")
                fresh = kwarg(c, "unsat_cores") is None and len(c.args) <= 1 and not any(k.arg is None for k in c.keywords)
                rep.check("R16.5", fresh, m, c, f"{m.qual(c)}: core store of the new context is its own default list", "the core store is handed in from a longer-lived object: cores (bare z3 term ids) outlive the test that learned them, and a later test whose terms reuse those ids is answered unsat from the cache")
    if n != 1:
        rep.bad("R16.5", repo.mod("solve"), None, f"{n} SolvingContext constructions", "exactly one construction site is expected")
    m, c = repo.cls("solve.SolvingContext")
    fields = {src(s.target): s for s in c.body if isinstance(s, ast.AnnAssign)}
    uc = fields.get("unsat_cores")
    ok = uc is not None and uc.value is not None and src(uc.value) == "field(default_factory=list)"
    rep.check("R16.5", ok, m, uc or c, src(uc) if uc else "unsat_cores: ?", "unsat_cores must default to a fresh list per context")
    # FunctionContext is built fresh for every test (and setUp)
    mm = repo.mod("__main__")
    sites = [cc for cc in ast.walk(mm.tree) if isinstance(cc, ast.Call) and call_name(cc) == "FunctionContext"]
    quals = sorted({mm.qual(cc) for cc in sites})
    ok = "__main__.run_tests" in quals and all(q in ("__main__.run_tests", "__main__.run_contract", "__main__._compute_frontier") for q in quals)
    rep.check("R16.5", ok, mm, sites[0] if sites else mm.tree, f"FunctionContext constructed in {quals}", "contexts must be created per test / per setUp / per frontier computation")
    rt = [cc for cc in sites if mm.qual(cc) == "__main__.run_tests"]
    in_loop = bool(rt) and any(isinstance(a, ast.For) and src(a.iter) == "funsigs" for a in mm.ancestors(rt[0]))
    rep.check("R16.5", in_loop, mm, rt[0] if rt else mm.tree, "run_tests: FunctionContext(...) inside `for funsig in funsigs`", "one context (and core store) per test function")
    # no module-level mutable core store
    for modname in ("solve", "__main__"):
        m2 = repo.mod(modname)
        for st in m2.tree.body:
            if isinstance(st, (ast.Assign, ast.AnnAssign)):
                t = src(st.targets[0] if isinstance(st, ast.Assign) else st.target)
                if "core" in t.lower():
                    rep.bad("R16.5", m2, st, src(st)[:80], "module-level unsat-core store")


def r16_8_store_append_only(repo: Repo, rep: Report):
    rep.rule("R16.8", "the core store is append-only: a recorded core is never modified, and no core is removed (solver threads read the store while the callback thread writes it)")
    MUT = {"clear", "extend", "remove", "pop", "insert", "sort", "reverse", "__setitem__", "__delitem__", "discard", "update"}
    n = 0
    for modname in ("solve", "__main__"):
        m = repo.mod(modname)
        for q, fn in repo.functions(modname):
            if "unsat_cores" not in src(fn):
                continue
            # names that denote the store or one of its elements
            store_names, elem_names = set(), set()
            for x in body_walk(fn):
                if isinstance(x, ast.Assign) and isinstance(x.targets[0], ast.Name) and src(x.value).endswith("unsat_cores"):
                    store_names.add(x.targets[0].id)
            for x in body_walk(fn):
                if isinstance(x, (ast.For, ast.comprehension)) and isinstance(x.target, ast.Name) and (src(x.iter).endswith("unsat_cores") or src(x.iter) in store_names):
                    elem_names.add(x.target.id)
            for c in body_walk(fn):
                if isinstance(c, ast.Call) and isinstance(c.func, ast.Attribute):
                    recv = src(c.func.value)
                    is_store = recv.endswith("unsat_cores") or recv in store_names
                    is_elem = recv in elem_names
                    if is_store and c.func.attr != "append" and c.func.attr in MUT:
                        n += 1
                        rep.bad("R16.8", m, c, f"{modname}.{q}: {src(c)[:80]}", "the core store is modified other than by appending")
                    elif is_elem and c.func.attr in MUT | {"append"}:
                        n += 1
                        rep.bad("R16.8", m, c, f"{modname}.{q}: {src(c)[:80]}", "a recorded core is modified in place: between two steps of the modification a concurrent check_unsat_cores sees a shorter (even empty) core, `all(..)` over it is true and a satisfiable query is answered unsat")
                elif isinstance(c, (ast.Subscript,)) and isinstance(c.ctx, (ast.Store, ast.Del)) and (src(c.value).endswith("unsat_cores") or src(c.value) in store_names | elem_names):
                    n += 1
                    rep.bad("R16.8", m, c, f"{modname}.{q}: {src(m.parents.get(c, c))[:80]}", "an entry of the core store is replaced or deleted")
    ms, ap = repo.fn("solve.FunctionContext.append_unsat_core")
    calls = [c for c in body_walk(ap) if isinstance(c, ast.Call) and last_attr(c) == "append" and src(c.func.value).endswith("unsat_cores")]
    rep.check("R16.8", len(calls) == 1 and [src(a) for a in calls[0].args] == ["unsat_core"], ms, ap, f"append_unsat_core: {[src(c) for c in calls]}", "a learned core must be appended as it is")
    rep.ok("R16.8", ms, ap, f"in-place modifications of the store or of recorded cores: {n}")


def r16_9_shared(repo: Repo, rep: Report):
    """which reply counts as `unsat` (shared with C05 R05.3): with the cache on every query ends in (get-unsat-core), so
    a failed (check-sat) produces an error line that mentions `unsat core` - only the complete first line may decide"""
    from hsa.rules.c05 import r05_3_failure_mapping

    r05_3_failure_mapping(repo, rep)
    # assertions are tracked in the query exactly when the dump appends their names (both keyed on args.cache_solver):
    # a query built untracked but dumped with named assertions is an error reply, which keeps infeasible paths (C11 R11.1)
    from hsa.rules.c11 import r11_1_serialisation

    r11_1_serialisation(repo, rep)


def r16_6_encoding(repo: Repo, rep: Report):
    from hsa.rules.c11 import r11_3_dump_writer_reader

    rep.rule("R11.3", "named-assertion encoding written exactly when assertions were tracked; reader recovers the writer's ids (shared with C11)")
    r11_3_dump_writer_reader(repo, rep)


def r16_7_refined_queries(repo: Repo, rep: Report):
    """a refined query is dumped with the same named assertions as the original: refine() must carry the assertion ids
    over (shared with C04/C11)"""
    from hsa.rules.c04 import r04_2_refine_exact

    r04_2_refine_exact(repo, rep)


RULES = [r16_7_refined_queries, r16_6_encoding, r16_1_core_recording, r16_2_subset_test, r16_3_ids_equal_asserted, r16_4_id_stability, r16_5_scope, r16_8_store_append_only, r16_9_shared]
