"""Re-nesting of closures that were moved out of their function.

A common refactoring turns an inner function (a closure of F) into a module-level function or a method, passing what it
captured as extra parameters (`def run(): ... self.x` inside `start`  ->  `def _run(self): ...`, referenced as
`self._run`).  The rules are anchored in the closure (`PopenFuture.start.run`), and the path summaries of F differ
(`target=run` vs `target=self._run`), although nothing changed.

For every function F that lost a nested function D of the reference, this module looks for a helper N that is new with
respect to the reference, is referenced only from F, and whose body -- with its extra parameters replaced by the
expressions every call site passes for them -- is equivalent (hsa.equiv) to D's body.  If one is found, F is viewed with
D in place again: D is inserted where the reference has it, calls `N(extras..., rest)` become `D(rest)`, plain references
to N become references to D, and N is dropped from the view.  Anything that does not fit exactly is left untouched.
"""

from __future__ import annotations

import ast
import copy

FuncT = (ast.FunctionDef, ast.AsyncFunctionDef)


def _direct_nested(fn) -> dict[str, ast.AST]:
    return {s.name: s for s in fn.body if isinstance(s, FuncT)}


def _params(fn) -> list[str]:
    a = fn.args
    return [x.arg for x in [*a.posonlyargs, *a.args]]


class _Sub(ast.NodeTransformer):
    def __init__(self, m):
        self.m = m

    def visit_Name(self, node):
        if isinstance(node.ctx, ast.Load) and node.id in self.m:
            return copy.deepcopy(self.m[node.id])
        return node


def _refs(tree, name: str, is_method: bool):
    """nodes referring to the helper: Name(name) loads, or Attribute(.name)"""
    out = []
    for n in ast.walk(tree):
        if not is_method and isinstance(n, ast.Name) and n.id == name and isinstance(n.ctx, ast.Load):
            out.append(n)
        elif is_method and isinstance(n, ast.Attribute) and n.attr == name:
            out.append(n)
    return out


def unmove(tree: ast.Module, ref_defs: dict[str, ast.AST]) -> list[str]:
    from hsa.equiv import Equiv, _canon_params

    done: list[str] = []
    # new helpers: module-level functions and methods that the reference does not have
    new_funcs: dict[str, tuple] = {}
    for node in tree.body:
        if isinstance(node, FuncT) and node.name not in ref_defs and not node.decorator_list:
            new_funcs[node.name] = (node, None, tree.body)
        elif isinstance(node, ast.ClassDef):
            for sub in node.body:
                if isinstance(sub, FuncT) and f"{node.name}.{sub.name}" not in ref_defs and not sub.decorator_list:
                    new_funcs[sub.name] = (sub, node, node.body)
    if not new_funcs:
        return done

    def functions():
        for node in tree.body:
            if isinstance(node, FuncT):
                yield node.name, node, None
            elif isinstance(node, ast.ClassDef):
                for sub in node.body:
                    if isinstance(sub, FuncT):
                        yield f"{node.name}.{sub.name}", sub, node

    for q, F, cls in list(functions()):
        Fr = ref_defs.get(q)
        if Fr is None:
            continue
        lost = {k: v for k, v in _direct_nested(Fr).items() if k not in _direct_nested(F)}
        if not lost:
            continue
        for nname, (N, ncls, container) in list(new_funcs.items()):
            if N is F or (ncls is not None and ncls is not cls):
                continue
            is_method = ncls is not None
            all_refs = _refs(tree, nname, is_method)
            inside_F = {id(n) for n in _refs(F, nname, is_method)}
            inside_N = {id(n) for n in _refs(N, nname, is_method)}
            if not inside_F or any(id(n) not in inside_F and id(n) not in inside_N for n in all_refs):
                continue  # not referenced from F, or also referenced elsewhere
            nparams = _params(N)
            if N.args.vararg or N.args.kwarg or N.args.kwonlyargs:
                continue
            for dname, D in lost.items():
                dparams = _params(D)
                if len(nparams) < len(dparams) or D.args.vararg or D.args.kwarg or D.args.kwonlyargs:
                    continue
                n_extra = len(nparams) - len(dparams)
                if len(N.args.defaults) != len(D.args.defaults) or [ast.dump(x) for x in N.args.defaults] != [ast.dump(x) for x in D.args.defaults]:
                    continue
                # which parameters are the extra (captured) ones?  try: the first n_extra, the last n_extra, or by name
                candidates = []
                by_name = [p for p in nparams if p not in dparams]
                if len(by_name) == n_extra:
                    candidates.append(by_name)
                candidates.append(nparams[:n_extra])
                if n_extra:
                    candidates.append(nparams[len(nparams) - n_extra:])
                seen = set()
                for extra in candidates:
                    key = tuple(extra)
                    if key in seen:
                        continue
                    seen.add(key)
                    res = _try(F, N, D, nname, dname, is_method, extra, nparams, Equiv, _canon_params)
                    if res:
                        # insert D where the reference has it
                        idx = next(i for i, s in enumerate(Fr.body) if s is D)
                        Dc = copy.deepcopy(D)
                        anchor = F.body[min(idx, len(F.body) - 1)]
                        ast.increment_lineno(Dc, getattr(anchor, "lineno", D.lineno) - D.lineno)
                        F.body.insert(min(idx, len(F.body)), Dc)
                        if N in container:
                            container.remove(N)
                        new_funcs.pop(nname, None)
                        done.append(f"{q}: {nname} viewed as the nested function {dname} again")
                        break
                else:
                    continue
                break
    return done


def _try(F, N, D, nname, dname, is_method, extra, nparams, Equiv, _canon_params) -> bool:
    """check the call sites and the body; on success rewrite the references inside F (and inside the future D: none)"""
    rest = [p for p in nparams if p not in extra]
    if len(rest) != len(_params(D)):
        return False
    # collect references in F
    parents = {}
    for p in ast.walk(F):
        for c in ast.iter_child_nodes(p):
            parents[c] = p
    refs = _refs(F, nname, is_method)
    binds: dict[str, str] = {}
    values: dict[str, ast.AST] = {}
    rewrites = []
    for r in refs:
        par = parents.get(r)
        if is_method and not (isinstance(r.value, ast.Name) and r.value.id in ("self", "cls")):
            return False
        if isinstance(par, ast.Call) and par.func is r:
            if any(isinstance(a, ast.Starred) for a in par.args) or any(k.arg is None for k in par.keywords):
                return False
            params = nparams[1:] if is_method else nparams
            given: dict[str, ast.AST] = {}
            if len(par.args) > len(params):
                return False
            for p, a in zip(params, par.args):
                given[p] = a
            for k in par.keywords:
                if k.arg not in params or k.arg in given:
                    return False
                given[k.arg] = k.value
            if is_method:
                given[nparams[0]] = r.value
            for e in extra:
                if e not in given:
                    return False
                t = ast.dump(given[e])
                if binds.setdefault(e, t) != t:
                    return False  # different call sites pass different things for a captured variable
                values[e] = given[e]
            new_args = [given[p] for p in rest if p in given]
            if len(new_args) != len([p for p in rest if p in given]):
                return False
            # parameters of D not given must be trailing (defaults)
            seen_missing = False
            for p in rest:
                if p not in given:
                    seen_missing = True
                elif seen_missing:
                    return False
            rewrites.append(("call", par, new_args))
        else:
            # a plain reference (passed as a value): only possible if every extra is the implicit receiver
            if not (is_method and extra == [nparams[0]]):
                return False
            values[nparams[0]] = r.value
            t = ast.dump(r.value)
            if binds.setdefault(nparams[0], t) != t:
                return False
            rewrites.append(("ref", r, par))
    if set(extra) - set(values):
        return False
    # the captured expressions must be plain names (they are read where the closure runs, like the closure did)
    if not all(isinstance(v, ast.Name) for v in values.values()):
        return False
    # candidate nested function: N without the extra parameters, extras replaced by what was passed
    cand = copy.deepcopy(N)
    cand.name = dname
    cand.args.args = [a for a in cand.args.args if a.arg not in extra]
    cand.args.posonlyargs = [a for a in cand.args.posonlyargs if a.arg not in extra]
    sub = {e: v for e, v in values.items() if not (isinstance(v, ast.Name) and v.id == e)}
    # recursion inside N: calls to itself pass the extras on unchanged
    for n in ast.walk(cand):
        if isinstance(n, ast.Call):
            f = n.func
            selfcall = (not is_method and isinstance(f, ast.Name) and f.id == nname) or (is_method and isinstance(f, ast.Attribute) and f.attr == nname)
            if selfcall:
                params = nparams[1:] if is_method else nparams
                if len(n.args) != len(params) or n.keywords:
                    return False
                for p, a in zip(params, n.args):
                    if p in extra and not (isinstance(a, ast.Name) and a.id == p):
                        return False
                n.args = [a for p, a in zip(params, n.args) if p not in extra]
                n.func = ast.Name(id=dname, ctx=ast.Load())
    if sub:
        cand = _Sub(sub).visit(cand)
    ast.fix_missing_locations(cand)
    try:
        if not Equiv(_canon_params(cand), _canon_params(D)).function():
            return False
    except RecursionError:
        return False
    # success: rewrite the references in F
    for kind, a, b in rewrites:
        if kind == "call":
            a.func = ast.copy_location(ast.Name(id=dname, ctx=ast.Load()), a.func)
            a.args = b
            a.keywords = []
        else:
            new = ast.copy_location(ast.Name(id=dname, ctx=ast.Load()), a)
            for fld, val in ast.iter_fields(b):
                if val is a:
                    setattr(b, fld, new)
                elif isinstance(val, list):
                    for i, x in enumerate(val):
                        if x is a:
                            val[i] = new
    return True
