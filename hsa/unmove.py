"""Re-nesting of closures that were moved out of their function.

A common refactoring turns an inner function (a closure of F) into a module-level function or a method, passing what it
captured as extra parameters (`def run(): ... self.x` inside `start`  ->  `def _run(self): ...`, referenced as
`self._run`).  The rules are anchored in the closure (`PopenFuture.start.run`), and the path summaries of F differ
(`target=run` vs `target=self._run`), although nothing changed.

For every function F that lost a nested function D of the reference, this module looks for a helper N that is new with
respect to the reference, is referenced only from F, and whose body -- with its extra parameters replaced by the
expressions every call site passes for them -- is equivalent (hsa.equiv) to D's body.  If one is found, F is viewed with
D in place again: D is inserted where the reference has it, calls `N(extras..., rest)` become `D(rest)`, plain references
to N become references to D, and N is dropped from the view.  Anything that does not fit exactly is left untouched.
"""

from __future__ import annotations

import ast
import copy

FuncT = (ast.FunctionDef, ast.AsyncFunctionDef)


def _direct_nested(fn) -> dict[str, ast.AST]:
    return {s.name: s for s in fn.body if isinstance(s, FuncT)}


def _params(fn) -> list[str]:
    a = fn.args
    return [x.arg for x in [*a.posonlyargs, *a.args]]


class _Sub(ast.NodeTransformer):
    def __init__(self, m):
        self.m = m

    def visit_Name(self, node):
        if isinstance(node.ctx, ast.Load) and node.id in self.m:
            return copy.deepcopy(self.m[node.id])
        return node


def _refs(tree, name: str, is_method: bool):
    """nodes referring to the helper: Name(name) loads, or Attribute(.name)"""
    out = []
    for n in ast.walk(tree):
        if not is_method and isinstance(n, ast.Name) and n.id == name and isinstance(n.ctx, ast.Load):
            out.append(n)
        elif is_method and isinstance(n, ast.Attribute) and n.attr == name:
            out.append(n)
    return out


def unmove(tree: ast.Module, ref_defs: dict[str, ast.AST]) -> list[str]:
    from hsa.equiv import Equiv, _canon_params

    done: list[str] = []
    # new helpers: module-level functions and methods that the reference does not have
    new_funcs: dict[str, tuple] = {}
    for node in tree.body:
        if isinstance(node, FuncT) and node.name not in ref_defs and not node.decorator_list:
            new_funcs[node.name] = (node, None, tree.body)
        elif isinstance(node, ast.ClassDef):
            for sub in node.body:
                if isinstance(sub, FuncT) and f"{node.name}.{sub.name}" not in ref_defs and not sub.decorator_list:
                    new_funcs[sub.name] = (sub, node, node.body)
    if not new_funcs:
        return done

    def functions():
        for node in tree.body:
            if isinstance(node, FuncT):
                yield node.name, node, None
            elif isinstance(node, ast.ClassDef):
                for sub in node.body:
                    if isinstance(sub, FuncT):
                        yield f"{node.name}.{sub.name}", sub, node

    for q, F, cls in list(functions()):
        Fr = ref_defs.get(q)
        if Fr is None:
            continue
        lost = {k: v for k, v in _direct_nested(Fr).items() if k not in _direct_nested(F)}
        if not lost:
            continue
        for nname, (N, ncls, container) in list(new_funcs.items()):
            if N is F or (ncls is not None and ncls is not cls):
                continue
            is_method = ncls is not None
            all_refs = _refs(tree, nname, is_method)
            inside_F = {id(n) for n in _refs(F, nname, is_method)}
            inside_N = {id(n) for n in _refs(N, nname, is_method)}
            if not inside_F or any(id(n) not in inside_F and id(n) not in inside_N for n in all_refs):
                continue  # not referenced from F, or also referenced elsewhere
            nparams = _params(N)
            if N.args.vararg or N.args.kwarg or N.args.kwonlyargs:
                continue
            for dname, D in lost.items():
                dparams = _params(D)
                if len(nparams) < len(dparams) or D.args.vararg or D.args.kwarg or D.args.kwonlyargs:
                    continue
                n_extra = len(nparams) - len(dparams)
                if len(N.args.defaults) != len(D.args.defaults) or [ast.dump(x) for x in N.args.defaults] != [ast.dump(x) for x in D.args.defaults]:
                    continue
                # which parameters are the extra (captured) ones?  try: the first n_extra, the last n_extra, or by name
                candidates = []
                by_name = [p for p in nparams if p not in dparams]
                if len(by_name) == n_extra:
                    candidates.append(by_name)
                candidates.append(nparams[:n_extra])
                if n_extra:
                    candidates.append(nparams[len(nparams) - n_extra:])
                seen = set()
                for extra in candidates:
                    key = tuple(extra)
                    if key in seen:
                        continue
                    seen.add(key)
                    res = _try(F, N, D, nname, dname, is_method, extra, nparams, Equiv, _canon_params)
                    if res:
                        # insert D where the reference has it
                        idx = next(i for i, s in enumerate(Fr.body) if s is D)
                        Dc = copy.deepcopy(D)
                        anchor = F.body[min(idx, len(F.body) - 1)]
                        ast.increment_lineno(Dc, getattr(anchor, "lineno", D.lineno) - D.lineno)
                        F.body.insert(min(idx, len(F.body)), Dc)
                        if N in container:
                            container.remove(N)
                        new_funcs.pop(nname, None)
                        done.append(f"{q}: {nname} viewed as the nested function {dname} again")
                        break
                else:
                    continue
                break
    return done


def _try(F, N, D, nname, dname, is_method, extra, nparams, Equiv, _canon_params) -> bool:
    """check the call sites and the body; on success rewrite the references inside F (and inside the future D: none)"""
    rest = [p for p in nparams if p not in extra]
    if len(rest) != len(_params(D)):
        return False
    # collect references in F
    parents = {}
    for p in ast.walk(F):
        for c in ast.iter_child_nodes(p):
            parents[c] = p
    refs = _refs(F, nname, is_method)
    binds: dict[str, str] = {}
    values: dict[str, ast.AST] = {}
    rewrites = []
    for r in refs:
        par = parents.get(r)
        if is_method and not (isinstance(r.value, ast.Name) and r.value.id in ("self", "cls")):
            return False
        if isinstance(par, ast.Call) and par.func is r:
            if any(isinstance(a, ast.Starred) for a in par.args) or any(k.arg is None for k in par.keywords):
                return False
            params = nparams[1:] if is_method else nparams
            given: dict[str, ast.AST] = {}
            if len(par.args) > len(params):
                return False
            for p, a in zip(params, par.args):
                given[p] = a
            for k in par.keywords:
                if k.arg not in params or k.arg in given:
                    return False
                given[k.arg] = k.value
            if is_method:
                given[nparams[0]] = r.value
            for e in extra:
                if e not in given:
                    return False
                t = ast.dump(given[e])
                if binds.setdefault(e, t) != t:
                    return False  # different call sites pass different things for a captured variable
                values[e] = given[e]
            new_args = [given[p] for p in rest if p in given]
            if len(new_args) != len([p for p in rest if p in given]):
                return False
            # parameters of D not given must be trailing (defaults)
            seen_missing = False
            for p in rest:
                if p not in given:
                    seen_missing = True
                elif seen_missing:
                    return False
            rewrites.append(("call", par, new_args))
        else:
            # a plain reference (passed as a value): only possible if every extra is the implicit receiver
            if not (is_method and extra == [nparams[0]]):
                return False
            values[nparams[0]] = r.value
            t = ast.dump(r.value)
            if binds.setdefault(nparams[0], t) != t:
                return False
            rewrites.append(("ref", r, par))
    if set(extra) - set(values):
        return False
    # the captured expressions must be plain names (they are read where the closure runs, like the closure did)
    if not all(isinstance(v, ast.Name) for v in values.values()):
        return False
    # candidate nested function: N without the extra parameters, extras replaced by what was passed
    cand = copy.deepcopy(N)
    cand.name = dname
    cand.args.args = [a for a in cand.args.args if a.arg not in extra]
    cand.args.posonlyargs = [a for a in cand.args.posonlyargs if a.arg not in extra]
    sub = {e: v for e, v in values.items() if not (isinstance(v, ast.Name) and v.id == e)}
    # recursion inside N: calls to itself pass the extras on unchanged
    for n in ast.walk(cand):
        if isinstance(n, ast.Call):
            f = n.func
            selfcall = (not is_method and isinstance(f, ast.Name) and f.id == nname) or (is_method and isinstance(f, ast.Attribute) and f.attr == nname)
            if selfcall:
                params = nparams[1:] if is_method else nparams
                if len(n.args) != len(params) or n.keywords:
                    return False
                for p, a in zip(params, n.args):
                    if p in extra and not (isinstance(a, ast.Name) and a.id == p):
                        return False
                n.args = [a for p, a in zip(params, n.args) if p not in extra]
                n.func = ast.Name(id=dname, ctx=ast.Load())
    if sub:
        cand = _Sub(sub).visit(cand)
    ast.fix_missing_locations(cand)
    try:
        from .align import reorder_keywords

        reorder_keywords(cand, D)  # keyword order only affects the evaluation order of the argument expressions
        if not Equiv(_canon_params(cand), _canon_params(D)).function():
            return False
    except RecursionError:
        return False
    # success: rewrite the references in F
    for kind, a, b in rewrites:
        if kind == "call":
            a.func = ast.copy_location(ast.Name(id=dname, ctx=ast.Load()), a.func)
            a.args = b
            a.keywords = []
        else:
            new = ast.copy_location(ast.Name(id=dname, ctx=ast.Load()), a)
            for fld, val in ast.iter_fields(b):
                if val is a:
                    setattr(b, fld, new)
                elif isinstance(val, list):
                    for i, x in enumerate(val):
                        if x is a:
                            val[i] = new
    return True


# ----------------------------------------------------------------------------------------------------------------------
# partial(<new helper>, captured...)  viewed as the closure it replaced


def _is_partial(call) -> bool:
    f = call.func
    return (isinstance(f, ast.Name) and f.id == "partial") or (isinstance(f, ast.Attribute) and f.attr == "partial" and isinstance(f.value, ast.Name) and f.value.id == "functools")


def _own_stores(fn) -> dict[str, list[ast.AST]]:
    """names bound in fn's own scope (not in nested scopes), with their binding nodes; parameters count as one binding"""
    out: dict[str, list[ast.AST]] = {}
    a = fn.args
    for x in [*a.posonlyargs, *a.args, *a.kwonlyargs, *([a.vararg] if a.vararg else []), *([a.kwarg] if a.kwarg else [])]:
        out.setdefault(x.arg, []).append(x)

    def walk(n, in_loop):
        for c in ast.iter_child_nodes(n):
            if isinstance(c, (*FuncT, ast.Lambda, ast.ClassDef)):
                if not isinstance(c, ast.Lambda):
                    out.setdefault(c.name, []).append(c)
                continue
            if isinstance(c, ast.Name) and isinstance(c.ctx, (ast.Store, ast.Del)):
                out.setdefault(c.id, []).append(("loop", c) if in_loop else c)
            walk(c, in_loop or isinstance(c, (ast.For, ast.While, ast.AsyncFor)))

    walk(fn, False)
    return out


def _bound_once(F, name: str, stores, site=None) -> bool:
    """every binding of the name in F is outside any loop and textually before `site` (where the partial / closure is
    made): a closure reading it late sees what a partial froze early"""
    s = stores.get(name, [])
    if not s or any(isinstance(x, tuple) for x in s):
        return False
    if len(s) == 1:
        return True
    if site is None:
        return False
    at = (site.lineno, site.col_offset)
    return all(isinstance(x, ast.arg) or (getattr(x, "lineno", 10**9), getattr(x, "col_offset", 0)) < at for x in s)


def _enclosing_functions(tree):
    for node in tree.body:
        if isinstance(node, FuncT):
            yield node.name, node, None
        elif isinstance(node, ast.ClassDef):
            for sub in node.body:
                if isinstance(sub, FuncT):
                    yield f"{node.name}.{sub.name}", sub, node


def departial(tree: ast.Module, ref_defs: dict[str, ast.AST]) -> list[str]:
    """`partial(N, a, b, k=v)` of a helper N that the reference does not have, referenced nowhere else, is the closure
    `def g(rest): <body of N with its bound parameters replaced by a, b, v>` when a, b, v are names bound once in the
    enclosing function (a closure reads them when it runs, a partial when it is made: the same for such names)."""
    done: list[str] = []
    new_funcs: dict[str, tuple] = {}
    for node in tree.body:
        if isinstance(node, FuncT) and node.name not in ref_defs and not node.decorator_list:
            new_funcs[node.name] = (node, None, tree.body, False)
        elif isinstance(node, ast.ClassDef):
            for sub in node.body:
                if isinstance(sub, FuncT) and f"{node.name}.{sub.name}" not in ref_defs:
                    decos = [ast.unparse(d) for d in sub.decorator_list]
                    if decos in ([], ["staticmethod"]):
                        new_funcs[sub.name] = (sub, node, node.body, decos == ["staticmethod"])
    if not new_funcs:
        return done
    for nname, (N, ncls, container, static) in list(new_funcs.items()):
        is_method = ncls is not None
        all_refs = _refs(tree, nname, is_method)
        if not all_refs or _refs(N, nname, is_method):
            continue
        host = None
        for q, F, cls in _enclosing_functions(tree):
            if F is N:
                continue
            inside = {id(n) for n in _refs(F, nname, is_method)}
            if inside and all(id(n) in inside for n in all_refs) and (not is_method or cls is ncls):
                host = (q, F)
        if host is None:
            continue
        q, F = host
        Fr = ref_defs.get(q)
        parents = {}
        for p in ast.walk(F):
            for c in ast.iter_child_nodes(p):
                parents[c] = p
        a = N.args
        if a.vararg or a.kwarg or a.posonlyargs or any(d is not None for d in a.kw_defaults):
            continue
        if not all(isinstance(d, ast.Constant) for d in a.defaults):
            continue
        pos = [x.arg for x in a.args]
        kwonly = [x.arg for x in a.kwonlyargs]
        stores = _own_stores(F)
        nstores = _own_stores(N)
        sites = []
        ok = True
        for r in all_refs:
            call = parents.get(r)
            if not (isinstance(call, ast.Call) and _is_partial(call) and call.args and call.args[0] is r):
                ok = False
                break
            if any(isinstance(x, ast.Starred) for x in call.args) or any(k.arg is None for k in call.keywords):
                ok = False
                break
            given: dict[str, ast.AST] = {}
            params = list(pos)
            if is_method and not static:
                if not (isinstance(r.value, ast.Name) and r.value.id in ("self", "cls")):
                    ok = False
                    break
                given[params[0]] = r.value
                params = params[1:]
            elif is_method and not (isinstance(r.value, ast.Name) and r.value.id in ("self", "cls", ncls.name)):
                ok = False
                break
            bound_pos = call.args[1:]
            if len(bound_pos) > len(params):
                ok = False
                break
            for p, v in zip(params, bound_pos):
                given[p] = v
            for k in call.keywords:
                if k.arg in given or k.arg not in [*params, *kwonly]:
                    ok = False
                    break
                given[k.arg] = k.value
            if not ok:
                break
            rest_pos = [p for p in params if p not in given]
            # parameters bound by keyword must come after every parameter left open
            if rest_pos and any(params.index(p) < params.index(rest_pos[-1]) for p in given if p in params and params.index(p) >= len(bound_pos)):
                ok = False
                break
            for p, v in given.items():
                if not isinstance(v, ast.Name) or not _bound_once(F, v.id, stores, call):
                    ok = False
                    break
                if len(nstores.get(p, [])) != 1:  # the helper rebinds the parameter: a closure would need nonlocal
                    ok = False
                    break
                if v.id != p and v.id in nstores:  # capture
                    ok = False
                    break
            if not ok:
                break
            sites.append((call, given, rest_pos))
        if not ok or not sites:
            continue
        # names for closures that are not bound by a plain assignment: the nested functions the reference has and F lost
        have = {n.name for n in ast.walk(F) if isinstance(n, FuncT) and n is not F}
        refnested = [n.name for n in ast.walk(Fr) if isinstance(n, FuncT) and n is not Fr] if Fr is not None else []
        lost = [x for x in refnested if x not in have]
        if len(set(refnested)) == 1:
            lost = refnested * len(sites)
        for i, (call, given, rest_pos) in enumerate(sorted(sites, key=lambda s: (s[0].lineno, s[0].col_offset))):
            # the statement holding the call, and the block holding that statement
            st = call
            while not isinstance(st, ast.stmt):
                st = parents[st]
            holder = parents[st]
            block = next(v for _, v in ast.iter_fields(holder) if isinstance(v, list) and any(x is st for x in v))
            k = next(j for j, x in enumerate(block) if x is st)
            direct = isinstance(st, ast.Assign) and st.value is call and len(st.targets) == 1 and isinstance(st.targets[0], ast.Name)
            name = st.targets[0].id if direct else (lost[i] if i < len(lost) else f"_closure{i}")
            body = copy.deepcopy(N.body)
            sub = {p: v for p, v in given.items() if v.id != p}
            holder_fn = ast.FunctionDef(
                name=name,
                args=ast.arguments(
                    posonlyargs=[],
                    args=[copy.deepcopy(x) for x in a.args if x.arg in rest_pos],
                    vararg=None,
                    kwonlyargs=[copy.deepcopy(x) for x in a.kwonlyargs if x.arg not in given],
                    kw_defaults=[None for x in a.kwonlyargs if x.arg not in given],
                    kwarg=None,
                    defaults=[copy.deepcopy(d) for x, d in zip(a.args[len(a.args) - len(a.defaults):], a.defaults) if x.arg in rest_pos],
                ),
                body=body,
                decorator_list=[],
                returns=None,
                type_params=[],
            )
            if sub:
                holder_fn = _Sub(sub).visit(holder_fn)
            ast.copy_location(holder_fn, st)
            ast.fix_missing_locations(holder_fn)
            ast.increment_lineno(holder_fn, 0)
            if direct:
                block[k] = holder_fn
            else:
                new = ast.copy_location(ast.Name(id=name, ctx=ast.Load()), call)
                par = parents[call]
                for fld, val in ast.iter_fields(par):
                    if val is call:
                        setattr(par, fld, new)
                    elif isinstance(val, list):
                        for j, x in enumerate(val):
                            if x is call:
                                val[j] = new
                block.insert(k, holder_fn)
            done.append(f"{q}: partial({nname}, ...) viewed as the closure {name}")
        if N in container:
            container.remove(N)
    return done


DISCARDING_CONSUMERS = {"add_done_callback"}  # callers that ignore what the callback returns


def closures_to_partial(F, Fr) -> list[str]:
    """`def g(p...): [return] T(p..., k=v, ...)` used once as a value is `partial(T, k=v, ...)` when the reference has that
    partial: a forwarding closure over names bound once."""
    want = {ast.unparse(c.args[0]) for c in ast.walk(Fr) if isinstance(c, ast.Call) and _is_partial(c) and c.args}
    if not want:
        return []
    done = []
    parents = {}
    for p in ast.walk(F):
        for c in ast.iter_child_nodes(p):
            parents[c] = p
    stores = _own_stores(F)
    for g in [n for n in ast.walk(F) if isinstance(n, ast.FunctionDef) and n is not F]:
        if g.decorator_list or len(g.body) != 1 or not isinstance(g.body[0], (ast.Return, ast.Expr)):
            continue
        call = g.body[0].value
        if not isinstance(call, ast.Call) or ast.unparse(call.func) not in want:
            continue
        a = g.args
        if a.vararg or a.kwarg or a.kwonlyargs or a.defaults or a.posonlyargs:
            continue
        params = [x.arg for x in a.args]
        if [ast.unparse(x) for x in call.args] != params or any(k.arg is None for k in call.keywords):
            continue
        if not all(isinstance(k.value, ast.Name) and k.value.id not in params and _bound_once(F, k.value.id, stores, g) for k in call.keywords):
            continue
        root = call.func
        while isinstance(root, ast.Attribute):
            root = root.value
        if not (isinstance(root, ast.Name) and _bound_once(F, root.id, stores, g)):
            continue
        uses = [n for n in ast.walk(F) if isinstance(n, ast.Name) and n.id == g.name and isinstance(n.ctx, ast.Load)]
        if len(uses) != 1 or len(stores.get(g.name, [])) != 1:
            continue
        use = uses[0]
        par = parents.get(use)
        if isinstance(g.body[0], ast.Expr):
            # the closure returns None, the partial what T returns: the same only for a consumer that ignores it
            if not (isinstance(par, ast.Call) and use in par.args and isinstance(par.func, ast.Attribute) and par.func.attr in DISCARDING_CONSUMERS):
                continue
        new = ast.copy_location(ast.Call(func=ast.Name(id="partial", ctx=ast.Load()), args=[copy.deepcopy(call.func)], keywords=[copy.deepcopy(k) for k in call.keywords]), use)
        ast.fix_missing_locations(new)
        for fld, val in ast.iter_fields(par):
            if val is use:
                setattr(par, fld, new)
            elif isinstance(val, list):
                for j, x in enumerate(val):
                    if x is use:
                        val[j] = new
        holder = parents[g]
        for _, val in ast.iter_fields(holder):
            if isinstance(val, list) and any(x is g for x in val):
                val.remove(g)
        done.append(f"forwarding closure {g.name} viewed as partial({ast.unparse(call.func)}, ...)")
    return done
