"""Normal-form equivalence of a function with its reviewed reference version.

The expectations of the rules were reviewed against hsa/reference.  If the analysed function has the same *path
summary* (hsa/paths.py) as the reference function -- the same decisions, effects, returned and raised expressions on
every syntactic path, after substituting locals -- it is the reference function written differently (other local
names, if/else instead of a conditional expression, an inverted early return, a hoisted temporary, an extracted
wrapper, an added assert or debug line), and the rules are evaluated on the reference form.  If the summaries differ in
anything, the rules see the function exactly as it is written.

Large functions are compared hierarchically: statement lists are aligned, identical statements are skipped, compound
statements with identical headers are compared block by block, and only the differing segments are summarised (with the
values of the locals that are live after the segment as part of the summary).

Sound direction: summaries keep every expression, call, store, yield, raise, loop, try/with structure and their order
on each path; what they drop is local names, branching shape, diagnostics, and *added* asserts (an assert of the
reference must still be present).  Equal summaries therefore mean equal behaviour up to those, and a behavioural edit
(an operator, operand, constant, call, guard, order of effects) changes the summary.
"""

from __future__ import annotations

import ast
import difflib
import os
import sys
from collections import Counter

from hsa.paths import canon_trace, summarise_block

FuncT = (ast.FunctionDef, ast.AsyncFunctionDef)


def _dump(n) -> str:
    return ast.dump(n)


def _loads(nodes) -> Counter:
    c: Counter = Counter()
    for n in nodes:
        for x in ast.walk(n):
            if isinstance(x, ast.Name) and isinstance(x.ctx, ast.Load):
                c[x.id] += 1
    return c


def _fingerprint(stmts, live, whole=False, captured=None):
    nested: set = set()
    ps = summarise_block(stmts, live=live, nested_asserts=nested, captured=captured)
    if ps is None:
        return None
    # falling off the end of a function is `return None`
    body = frozenset(
        (canon_trace(p.trace, p.value), "return" if whole and p.kind == "fall" else p.kind, "None" if whole and p.kind == "fall" else p.value, p.env)
        for p in ps
    )
    asserts = frozenset(a for p in ps for a in p.asserts) | frozenset(nested)
    return body, asserts


def _size(stmts) -> int:
    return sum(1 for s in stmts for n in ast.walk(s) if isinstance(n, ast.stmt))


def _same(fa, fb) -> bool:
    """fa: current, fb: reference"""
    if fa is None or fb is None:
        return False
    return fa[0] == fb[0] and fb[1] <= fa[1]


class Equiv:
    def __init__(self, cur_fn, ref_fn):
        self.cur_fn, self.ref_fn = cur_fn, ref_fn
        self.loads_cur = _loads([cur_fn])
        self.loads_ref = _loads([ref_fn])
        # names read by nested functions/lambdas of either version: their bindings are events (see hsa/paths.py)
        self.captured = {
            n.id
            for fn in (cur_fn, ref_fn)
            for d in ast.walk(fn)
            if d is not fn and isinstance(d, (*FuncT, ast.Lambda))
            for n in ast.walk(d)
            if isinstance(n, ast.Name) and isinstance(n.ctx, ast.Load)
        }

    def live_outside(self, seg_cur, seg_ref) -> set[str]:
        a = self.loads_cur - _loads(seg_cur)
        b = self.loads_ref - _loads(seg_ref)
        return {k for k, v in a.items() if v > 0} | {k for k, v in b.items() if v > 0}

    def function(self) -> bool:
        c, r = self.cur_fn, self.ref_fn
        if type(c) is not type(r) or c.name != r.name:
            return False
        if _dump(c.args) != _dump(r.args):
            # annotations may differ; names, order and defaults may not
            if not _same_args(c.args, r.args):
                return False
        if [_dump(d) for d in c.decorator_list] != [_dump(d) for d in r.decorator_list]:
            return False
        return self.stmts(c.body, r.body, whole=True)

    def stmts(self, A, B, whole=False) -> bool:
        """A: current, B: reference; whole: the lists are in tail position of the function (falling off = return)"""
        if [_dump(s) for s in A] == [_dump(s) for s in B]:
            return True
        if _size(A) + _size(B) <= 120:
            live = set() if whole else self.live_outside(A, B)
            fb = _fingerprint(B, live, whole, self.captured)
            fa = _fingerprint(A, live, whole, self.captured) if fb is not None else None
            if fa is not None and fb is not None:
                # different as a whole: a piecewise comparison cannot succeed either
                return _same(fa, fb)
        # too large to enumerate as a whole: compare piecewise
        da, db = [_dump(s) for s in A], [_dump(s) for s in B]
        sm = difflib.SequenceMatcher(a=db, b=da, autojunk=False)
        for tag, i1, i2, j1, j2 in sm.get_opcodes():
            if tag == "equal":
                continue
            segB, segA = B[i1:i2], A[j1:j2]
            tail = whole and i2 == len(B) and j2 == len(A)
            if not self.segment(segA, segB, tail):
                if os.environ.get("HSA_EQUIV_DEBUG"):
                    print("EQUIV-DEBUG segment differs:", [ast.unparse(x).split("\n")[0][:90] for x in segA][:3], "<->", [ast.unparse(x).split("\n")[0][:90] for x in segB][:3], file=sys.stderr)
                return False
        return True

    def segment(self, segA, segB, tail=False) -> bool:
        if len(segA) == 1 and len(segB) == 1 and type(segA[0]) is type(segB[0]):
            a, b = segA[0], segB[0]
            if isinstance(a, ast.If) and _dump(a.test) == _dump(b.test):
                return self.stmts(a.body, b.body, tail) and self.stmts(a.orelse, b.orelse, tail)
            if isinstance(a, (ast.For, ast.AsyncFor)) and _dump(a.target) == _dump(b.target) and _dump(a.iter) == _dump(b.iter):
                return self.stmts(a.body, b.body) and self.stmts(a.orelse, b.orelse)
            if isinstance(a, ast.While) and _dump(a.test) == _dump(b.test):
                return self.stmts(a.body, b.body) and self.stmts(a.orelse, b.orelse)
            if isinstance(a, (ast.With, ast.AsyncWith)) and [_dump(i) for i in a.items] == [_dump(i) for i in b.items]:
                return self.stmts(a.body, b.body)
            if isinstance(a, ast.Try) and len(a.handlers) == len(b.handlers) and all(
                _dump(x.type) == _dump(y.type) if x.type and y.type else x.type is y.type for x, y in zip(a.handlers, b.handlers)
            ) and all(x.name == y.name for x, y in zip(a.handlers, b.handlers)):
                # the protected region must stay the same list of statements up to equivalence
                return (
                    self.stmts(a.body, b.body)
                    and self.stmts(a.orelse, b.orelse)
                    and self.stmts(a.finalbody, b.finalbody)
                    and all(self.stmts(x.body, y.body) for x, y in zip(a.handlers, b.handlers))
                )
            if isinstance(a, FuncT):
                # parameters of nested functions are local names of the enclosing function
                return Equiv(_canon_params(a), _canon_params(b)).function()
        live = self.live_outside(segA, segB)
        fa, fb = _fingerprint(segA, live, tail, self.captured), _fingerprint(segB, live, tail, self.captured)
        if os.environ.get("HSA_EQUIV_DEBUG") and not _same(fa, fb):
            if fa is None or fb is None:
                print("EQUIV-DEBUG leaf: no fingerprint", fa is None, fb is None, file=sys.stderr)
            else:
                for x in sorted(map(str, fa[0] - fb[0]))[:2]:
                    print("EQUIV-DEBUG leaf cur:", x[:1500], file=sys.stderr)
                for x in sorted(map(str, fb[0] - fa[0]))[:2]:
                    print("EQUIV-DEBUG leaf ref:", x[:1500], file=sys.stderr)
                if not fb[1] <= fa[1]:
                    print("EQUIV-DEBUG leaf: reference asserts missing", fb[1] - fa[1], file=sys.stderr)
        return _same(fa, fb)


    # -- partial normalisation: replace the equivalent segments of a function that is not equivalent as a whole
    def repair(self, A, B, whole=False) -> int:
        """mutates the statement list A (current) towards B (reference): every differing segment that is equivalent to
        its reference counterpart is replaced by it; returns the number of segments replaced"""
        import copy

        da, db = [_dump(s) for s in A], [_dump(s) for s in B]
        if da == db:
            return 0
        n = 0
        sm = difflib.SequenceMatcher(a=db, b=da, autojunk=False)
        for tag, i1, i2, j1, j2 in reversed(sm.get_opcodes()):
            if tag == "equal":
                continue
            segB, segA = B[i1:i2], A[j1:j2]
            tail = whole and i2 == len(B) and j2 == len(A)
            if len(segA) == 1 and len(segB) == 1 and type(segA[0]) is type(segB[0]):
                a, b = segA[0], segB[0]
                if isinstance(a, ast.If) and _dump(a.test) == _dump(b.test):
                    n += self.repair(a.body, b.body, tail) + self.repair(a.orelse, b.orelse, tail)
                    continue
                if isinstance(a, (ast.For, ast.AsyncFor)) and _dump(a.target) == _dump(b.target) and _dump(a.iter) == _dump(b.iter):
                    n += self.repair(a.body, b.body) + self.repair(a.orelse, b.orelse)
                    continue
                if isinstance(a, ast.While) and _dump(a.test) == _dump(b.test):
                    n += self.repair(a.body, b.body) + self.repair(a.orelse, b.orelse)
                    continue
                if isinstance(a, (ast.With, ast.AsyncWith)) and [_dump(i) for i in a.items] == [_dump(i) for i in b.items]:
                    n += self.repair(a.body, b.body)
                    continue
            try:
                ok = self.segment(segA, segB, tail)
            except RecursionError:
                ok = False
            if ok:
                delta = (segA[0].lineno - segB[0].lineno) if segA and segB else 0
                new = []
                for st in segB:
                    c = copy.deepcopy(st)
                    if delta:
                        ast.increment_lineno(c, delta)
                    new.append(c)
                A[j1:j2] = new
                n += 1
        if not A:
            A.append(ast.Pass(lineno=1, col_offset=0))
        return n


def _canon_params(fn):
    import copy

    f = copy.deepcopy(fn)
    a = f.args
    plist = [*a.posonlyargs, *a.args, *a.kwonlyargs] + ([a.vararg] if a.vararg else []) + ([a.kwarg] if a.kwarg else [])
    ren = {p.arg: f"_p{i}" for i, p in enumerate(plist)}
    for n in ast.walk(f):
        if isinstance(n, ast.Name) and n.id in ren:
            n.id = ren[n.id]
        elif isinstance(n, ast.arg) and n.arg in ren:
            n.arg = ren[n.arg]
    return f


def partial_normalise(cur_fn, ref_fn) -> int:
    try:
        e = Equiv(cur_fn, ref_fn)
        if _dump(cur_fn.args) != _dump(ref_fn.args) and not _same_args(cur_fn.args, ref_fn.args):
            return 0
        return e.repair(cur_fn.body, ref_fn.body, whole=True)
    except RecursionError:
        return 0


def _same_args(a: ast.arguments, b: ast.arguments) -> bool:
    def names(x):
        return (
            [p.arg for p in x.posonlyargs],
            [p.arg for p in x.args],
            [p.arg for p in x.kwonlyargs],
            x.vararg.arg if x.vararg else None,
            x.kwarg.arg if x.kwarg else None,
            [_dump(d) for d in x.defaults],
            [_dump(d) if d is not None else None for d in x.kw_defaults],
        )

    return names(a) == names(b)


def equivalent(cur_fn, ref_fn) -> bool:
    try:
        if Equiv(cur_fn, ref_fn).function():
            return True
        # closures that are only called directly are a matter of code organisation: compare with them inlined
        import copy

        from hsa.inline import inline_local_closures

        c, r = copy.deepcopy(cur_fn), copy.deepcopy(ref_fn)
        nc, nr = inline_local_closures(c), inline_local_closures(r)
        if nc or nr:
            return Equiv(c, r).function()
        return False
    except RecursionError:
        return False
