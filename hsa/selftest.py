"""Thorough tier: in-memory self-test of the rules (mutants from selftest_corpus + the seeded patches are exercised
separately by tools/import_seeds.py).  For each mutant of the property: the mutated module must compile, the
property's rules must report at least one NEW violation with the expected rule id.  Nothing is executed."""

from __future__ import annotations

import os
import time
from concurrent.futures import ProcessPoolExecutor

from hsa.core import PKG_DIR, Repo
from hsa.selftest_corpus import M


def _one(args):
    prop, idx, root = args
    mt = M[idx]
    path = os.path.join(root, PKG_DIR, mt["module"] + ".py")
    try:
        src = open(path, encoding="utf-8").read()
    except OSError:
        return idx, "skipped", "module missing"
    if src.count(mt["old"]) != 1:
        return idx, "skipped", f"anchor text occurs {src.count(mt['old'])} times"
    new = src.replace(mt["old"], mt["new"])
    try:
        compile(new, path, "exec")
    except SyntaxError as e:
        return idx, "broken-mutant", f"does not compile: {e}"
    from hsa.cli import run_property
    from hsa import core

    repo = Repo(root, overrides={mt["module"]: new})
    rep = run_property(prop, repo, "quick")
    findings = core.load_known_findings()
    new_v = [i for i in rep.violations if core.match_known(i, findings, prop) is None]
    rules = sorted({i.rule for i in new_v})
    if mt["rule"] in rules:
        return idx, "detected", ",".join(rules)
    if new_v:
        return idx, "detected-other-rule", ",".join(rules)
    if rep.errors:
        return idx, "analysis-error", rep.errors[0][:120]
    return idx, "MISSED", ""


def run_for(prop: str, repo: Repo) -> dict:
    t0 = time.time()
    idxs = [i for i, mt in enumerate(M) if mt["prop"] == prop]
    results = []
    workers = min(16, max(1, len(idxs)))
    if idxs:
        with ProcessPoolExecutor(max_workers=workers) as ex:
            results = list(ex.map(_one, [(prop, i, repo.root) for i in idxs]))
    summary = {"mutants": len(idxs), "detected": 0, "detected_by_other_rule": 0, "skipped": 0, "failed": [], "samples": [], "wall_s": 0.0}
    for idx, status, info in results:
        mt = M[idx]
        desc = f"{mt['module']}: {mt['note']} (expects {mt['rule']})"
        if status == "detected":
            summary["detected"] += 1
        elif status == "detected-other-rule":
            summary["detected_by_other_rule"] += 1
        elif status == "skipped":
            summary["skipped"] += 1
        else:
            summary["failed"].append(f"{status}: {desc} {info}")
        if len(summary["samples"]) < 6:
            summary["samples"].append({"mutant": desc, "status": status, "rules_fired": info})
    if idxs and summary["skipped"] > len(idxs) // 2:
        summary["failed"].append(f"{summary['skipped']} of {len(idxs)} self-test anchors vanished: the corpus no longer matches the tree")
    summary["wall_s"] = round(time.time() - t0, 2)
    return summary
