"""Thorough tier: in-memory self-test of the rules (mutants from selftest_corpus + the seeded patches are exercised
separately by tools/import_seeds.py).  For each mutant of the property: the mutated module must compile, the
property's rules must report at least one NEW violation with the expected rule id.  Nothing is executed."""

from __future__ import annotations

import os
import time
from concurrent.futures import ProcessPoolExecutor

from hsa.core import PKG_DIR, Repo
from hsa.selftest_corpus import M


def _one(args):
    prop, idx, root = args
    mt = M[idx]
    path = os.path.join(root, PKG_DIR, mt["module"] + ".py")
    try:
        src = open(path, encoding="utf-8").read()
    except OSError:
        return idx, "skipped", "module missing"
    if src.count(mt["old"]) != 1:
        return idx, "skipped", f"anchor text occurs {src.count(mt['old'])} times"
    new = src.replace(mt["old"], mt["new"])
    try:
        compile(new, path, "exec")
    except SyntaxError as e:
        return idx, "broken-mutant", f"does not compile: {e}"
    from hsa.cli import run_property
    from hsa import core

    repo = Repo(root, overrides={mt["module"]: new})
    rep = run_property(prop, repo, "quick")
    findings = core.load_known_findings()
    new_v = [i for i in rep.violations if core.match_known(i, findings, prop) is None]
    rules = sorted({i.rule for i in new_v})
    if mt["rule"] in rules:
        return idx, "detected", ",".join(rules)
    if new_v:
        return idx, "detected-other-rule", ",".join(rules)
    if rep.errors:
        return idx, "analysis-error", rep.errors[0][:120]
    return idx, "MISSED", ""


# --------------------------------------------------------------------------- corpora of patches (in memory)


def apply_unified_diff(diff_text: str, read_file) -> dict[str, str] | None:
    """{module name: new source} for the halmos modules a unified diff touches; None if a hunk does not apply"""
    import re

    out: dict[str, str] = {}
    files = re.split(r"^diff --git .*$", diff_text, flags=re.M)
    for block in files:
        mm = re.search(r"^\+\+\+ b/(\S+)", block, flags=re.M)
        if not mm:
            continue
        path = mm.group(1)
        if not (path.startswith(PKG_DIR + "/") and path.endswith(".py")):
            continue
        name = os.path.basename(path)[:-3]
        src = read_file(path)
        if src is None:
            return None
        lines = src.split("\n")
        result: list[str] = []
        pos = 0
        for h in re.finditer(r"^@@ -(\d+)(?:,(\d+))? \+(\d+)(?:,(\d+))? @@.*\n((?:[ +\-\\].*\n?|\n)*)", block, flags=re.M):
            start = int(h.group(1)) - 1
            body = h.group(5).split("\n")
            if body and body[-1] == "":
                body.pop()
            result.extend(lines[pos:start])
            pos = start
            for ln in body:
                if ln.startswith("\\"):
                    continue
                tag, text = (ln[:1], ln[1:]) if ln else (" ", "")
                if tag == " ":
                    if pos >= len(lines) or lines[pos] != text:
                        return None
                    result.append(lines[pos])
                    pos += 1
                elif tag == "-":
                    if pos >= len(lines) or lines[pos] != text:
                        return None
                    pos += 1
                elif tag == "+":
                    result.append(text)
        result.extend(lines[pos:])
        out[name] = "\n".join(result)
    return out


def _patch_one(args):
    prop, patch_path, root, expect_violation = args
    from hsa import core
    from hsa.cli import run_property

    def read_file(rel):
        try:
            return open(os.path.join(root, rel), encoding="utf-8").read()
        except OSError:
            return None

    try:
        over = apply_unified_diff(open(patch_path, encoding="utf-8").read(), read_file)
    except OSError:
        return patch_path, "skipped", "unreadable"
    if not over:
        return patch_path, "skipped", "does not apply to the current tree"
    for name, text in over.items():
        try:
            compile(text, name, "exec")
        except SyntaxError as e:
            return patch_path, "skipped", f"does not compile: {e}"
    repo = Repo(root, overrides=over)
    rep = run_property(prop, repo, "quick")
    findings = core.load_known_findings()
    new_v = [i for i in rep.violations if core.match_known(i, findings, prop) is None]
    rules = ",".join(sorted({i.rule for i in new_v}))
    if expect_violation:
        if new_v:
            return patch_path, "detected", rules
        return patch_path, "analysis-error" if rep.errors else "MISSED", (rep.errors[0][:120] if rep.errors else "")
    if new_v or rep.errors:
        return patch_path, "FALSE-ALARM", rules or rep.errors[0][:120]
    return patch_path, "quiet", ""


def run_patch_corpora(prop: str, repo: Repo) -> dict:
    """the seeded breaking changes of this property must be reported, the behaviour-preserving patches must not"""
    from hsa.core import VERIF_ROOT

    t0 = time.time()
    jobs = []
    sdir = os.path.join(VERIF_ROOT, "seeded")
    if os.path.isdir(sdir):
        for d in sorted(os.listdir(sdir)):
            if d.startswith(prop + "-") and os.path.isfile(os.path.join(sdir, d, "patch.diff")):
                jobs.append((prop, os.path.join(sdir, d, "patch.diff"), repo.root, True))
    for sub in ("benign", "neutral"):
        bdir = os.path.join(VERIF_ROOT, sub)
        if os.path.isdir(bdir):
            for f in sorted(os.listdir(bdir)):
                if f.endswith(".diff"):
                    jobs.append((prop, os.path.join(bdir, f), repo.root, False))
    res = []
    if jobs:
        with ProcessPoolExecutor(max_workers=min(16, len(jobs))) as ex:
            res = list(ex.map(_patch_one, jobs))
    out = {"seeded_changes": 0, "seeded_detected": 0, "benign_patches": 0, "benign_quiet": 0, "skipped": 0, "failed": [], "samples": []}
    for (prop_, path, _, expect), (_, status, info) in zip(jobs, res):
        name = os.path.relpath(path, VERIF_ROOT)
        if status == "skipped":
            out["skipped"] += 1
            continue
        if expect:
            out["seeded_changes"] += 1
            if status == "detected":
                out["seeded_detected"] += 1
            else:
                out["failed"].append(f"{status}: seeded change {name} is not reported {info}")
        else:
            out["benign_patches"] += 1
            if status == "quiet":
                out["benign_quiet"] += 1
            else:
                out["failed"].append(f"{status}: behaviour-preserving patch {name} raises {info}")
        if len(out["samples"]) < 6 and status in ("detected", "quiet"):
            out["samples"].append({"patch": name, "status": status, "rules_fired": info})
    if jobs and out["skipped"] > len(jobs) // 2:
        out["failed"].append(f"{out['skipped']} of {len(jobs)} corpus patches no longer apply to the tree")
    out["wall_s"] = round(time.time() - t0, 2)
    return out


def run_for(prop: str, repo: Repo) -> dict:
    t0 = time.time()
    idxs = [i for i, mt in enumerate(M) if mt["prop"] == prop]
    results = []
    workers = min(16, max(1, len(idxs)))
    if idxs:
        with ProcessPoolExecutor(max_workers=workers) as ex:
            results = list(ex.map(_one, [(prop, i, repo.root) for i in idxs]))
    summary = {"mutants": len(idxs), "detected": 0, "detected_by_other_rule": 0, "skipped": 0, "failed": [], "samples": [], "wall_s": 0.0}
    for idx, status, info in results:
        mt = M[idx]
        desc = f"{mt['module']}: {mt['note']} (expects {mt['rule']})"
        if status == "detected":
            summary["detected"] += 1
        elif status == "detected-other-rule":
            summary["detected_by_other_rule"] += 1
        elif status == "skipped":
            summary["skipped"] += 1
        else:
            summary["failed"].append(f"{status}: {desc} {info}")
        if len(summary["samples"]) < 6:
            summary["samples"].append({"mutant": desc, "status": status, "rules_fired": info})
    if idxs and summary["skipped"] > len(idxs) // 2:
        summary["failed"].append(f"{summary['skipped']} of {len(idxs)} self-test anchors vanished: the corpus no longer matches the tree")
    summary["wall_s"] = round(time.time() - t0, 2)
    return summary
