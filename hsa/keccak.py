"""Keccak-256 (the pre-NIST padding used by Ethereum), pure Python, no dependencies."""

_RC = [
    0x0000000000000001, 0x0000000000008082, 0x800000000000808A, 0x8000000080008000,
    0x000000000000808B, 0x0000000080000001, 0x8000000080008081, 0x8000000000008009,
    0x000000000000008A, 0x0000000000000088, 0x0000000080008009, 0x000000008000000A,
    0x000000008000808B, 0x800000000000008B, 0x8000000000008089, 0x8000000000008003,
    0x8000000000008002, 0x8000000000000080, 0x000000000000800A, 0x800000008000000A,
    0x8000000080008081, 0x8000000000008080, 0x0000000080000001, 0x8000000080008008,
]
_ROT = [
    [0, 36, 3, 41, 18],
    [1, 44, 10, 45, 2],
    [62, 6, 43, 15, 61],
    [28, 55, 25, 21, 56],
    [27, 20, 39, 8, 14],
]
_M = (1 << 64) - 1


def _rol(x, n):
    n %= 64
    return ((x << n) | (x >> (64 - n))) & _M if n else x


def _f(a):
    for rnd in range(24):
        c = [a[x][0] ^ a[x][1] ^ a[x][2] ^ a[x][3] ^ a[x][4] for x in range(5)]
        d = [c[(x - 1) % 5] ^ _rol(c[(x + 1) % 5], 1) for x in range(5)]
        a = [[a[x][y] ^ d[x] for y in range(5)] for x in range(5)]
        b = [[0] * 5 for _ in range(5)]
        for x in range(5):
            for y in range(5):
                b[y][(2 * x + 3 * y) % 5] = _rol(a[x][y], _ROT[x][y])
        a = [[b[x][y] ^ ((~b[(x + 1) % 5][y]) & b[(x + 2) % 5][y]) for y in range(5)] for x in range(5)]
        a[0][0] ^= _RC[rnd]
    return a


def keccak256(data: bytes) -> bytes:
    rate = 136
    p = bytearray(data)
    p.append(0x01)
    while len(p) % rate:
        p.append(0)
    p[-1] |= 0x80
    a = [[0] * 5 for _ in range(5)]
    for off in range(0, len(p), rate):
        block = p[off : off + rate]
        for i in range(rate // 8):
            a[i % 5][i // 5] ^= int.from_bytes(block[8 * i : 8 * i + 8], "little")
        a = _f(a)
    out = b""
    for i in range(4):
        out += a[i % 5][i // 5].to_bytes(8, "little")
    return out


def keccak_int(data: bytes) -> int:
    return int.from_bytes(keccak256(data), "big")


def selector(sig: str) -> int:
    return int.from_bytes(keccak256(sig.encode())[:4], "big")


def self_check() -> None:
    assert keccak256(b"").hex() == "c5d2460186f7233c927e7db2dcc703c0e500b653ca82273b7bfad8045d85a470"
    assert keccak256(b"abc").hex() == "4e03657aea45a94fc7d47ba826c8d667c0d1e6e33a64a036ec44f58fa12d6c45"
    assert selector("Panic(uint256)") == 0x4E487B71
    assert selector("transfer(address,uint256)") == 0xA9059CBB
