"""Origin expressions: a local-name-independent normal form of an expression.

`origin_text(m, fn, expr)` substitutes
  * parameters by `$name` (parameter names are part of a function's interface),
  * locals that have exactly one binding in `fn` by the origin of their defining expression,
  * loop / comprehension targets by `%each(<origin of the iterable>)`,
and strips `simplify(...)`.  Two statements that differ only in the names of locals have the
same origin text; an edited operator, operand or constant changes it.
"""

from __future__ import annotations

import ast
import copy

from hsa.core import Module, body_walk, src


def _bindings(fn: ast.AST) -> dict[str, list[tuple[str, ast.AST]]]:
    """name -> [(kind, value_node)] for every binding of a local in fn (not nested defs)"""
    out: dict[str, list] = {}

    def add(name, kind, val):
        out.setdefault(name, []).append((kind, val))

    def bind_target(t, kind, val):
        if isinstance(t, ast.Name):
            add(t.id, kind, val)
        elif isinstance(t, (ast.Tuple, ast.List)):
            if kind == "assign" and isinstance(val, (ast.Tuple, ast.List)) and len(val.elts) == len(t.elts):
                for te, ve in zip(t.elts, val.elts):
                    bind_target(te, "assign", ve)
            else:
                for i, te in enumerate(t.elts):
                    bind_target(te, kind + f"[{i}]", val)
        elif isinstance(t, ast.Starred):
            bind_target(t.value, kind + "[*]", val)

    for n in body_walk(fn):
        if isinstance(n, ast.Assign):
            for t in n.targets:
                bind_target(t, "assign", n.value)
        elif isinstance(n, ast.AnnAssign) and n.value is not None:
            bind_target(n.target, "assign", n.value)
        elif isinstance(n, ast.AugAssign):
            bind_target(n.target, "aug", n.value)
        elif isinstance(n, ast.NamedExpr):
            bind_target(n.target, "assign", n.value)
        elif isinstance(n, (ast.For, ast.AsyncFor)):
            bind_target(n.target, "each", n.iter)
        elif isinstance(n, ast.comprehension):
            bind_target(n.target, "each", n.iter)
        elif isinstance(n, (ast.With, ast.AsyncWith)):
            for it in n.items:
                if it.optional_vars is not None:
                    bind_target(it.optional_vars, "with", it.context_expr)
        elif isinstance(n, ast.ExceptHandler) and n.name:
            add(n.name, "except", n.type)
    return out


class _Subst(ast.NodeTransformer):
    def __init__(self, params: set[str], binds, depth: int):
        self.params = params
        self.binds = binds
        self.depth = depth
        self.active: set[str] = set()

    def visit_Name(self, node: ast.Name):
        if not isinstance(node.ctx, ast.Load):
            return node
        name = node.id
        if name in self.params:
            return ast.Name(id=f"${name}", ctx=ast.Load())
        b = self.binds.get(name)
        if b and len(b) == 1 and name not in self.active and len(self.active) < self.depth:
            kind, val = b[0]
            if val is None:
                return node
            self.active.add(name)
            try:
                inner = self.visit(copy.deepcopy(val))
            finally:
                self.active.discard(name)
            if kind == "assign":
                return inner
            if kind.startswith("assign["):
                return ast.Subscript(value=inner, slice=ast.Constant(value=kind[6:]), ctx=ast.Load())
            if kind.startswith("each"):
                return ast.Call(func=ast.Name(id="%each" + kind[4:], ctx=ast.Load()), args=[inner], keywords=[])
            return node
        return node

    def visit_Call(self, node: ast.Call):
        node = self.generic_visit(node)
        if isinstance(node.func, ast.Name) and node.func.id == "simplify" and len(node.args) == 1 and not node.keywords:
            return node.args[0]
        return node

    def visit_Lambda(self, node):
        return node

    def visit_JoinedStr(self, node):
        # symbol *names* are not part of a constraint's logic
        return ast.Constant(value="<fstr>")


class _DictIter(ast.NodeTransformer):
    """`d[k] for k in d`  is  `v for k, v in d.items()`:  D[%each(D)]  ->  %each[1](D.items())"""

    def visit_Subscript(self, node):
        self.generic_visit(node)
        sl = node.slice
        if isinstance(sl, ast.Call) and isinstance(sl.func, ast.Name) and sl.func.id == "%each" and len(sl.args) == 1 and ast.dump(sl.args[0]) == ast.dump(node.value):
            items = ast.Call(func=ast.Attribute(value=node.value, attr="items", ctx=ast.Load()), args=[], keywords=[])
            return ast.Call(func=ast.Name(id="%each[1]", ctx=ast.Load()), args=[items], keywords=[])
        return node


def origin(m: Module, fn: ast.AST, expr: ast.AST, depth: int = 8) -> ast.AST:
    params = set()
    cur = fn
    # parameters of the function and of the enclosing functions (closures)
    while cur is not None:
        if isinstance(cur, (ast.FunctionDef, ast.AsyncFunctionDef)):
            a = cur.args
            for p in a.posonlyargs + a.args + a.kwonlyargs:
                params.add(p.arg)
            if a.vararg:
                params.add(a.vararg.arg)
            if a.kwarg:
                params.add(a.kwarg.arg)
        cur = m.enclosing_func(cur)
    binds = _bindings(fn)
    # closures: bindings of enclosing functions are visible too (inner bindings win)
    enc = m.enclosing_func(fn)
    while enc is not None:
        for k, v in _bindings(enc).items():
            binds.setdefault(k, v)
        enc = m.enclosing_func(enc)
    tree = _Subst(params, binds, depth).visit(copy.deepcopy(expr))
    tree = _DictIter().visit(tree)
    return ast.fix_missing_locations(tree)


def origin_text(m: Module, fn: ast.AST, expr: ast.AST, depth: int = 8) -> str:
    return src(origin(m, fn, expr, depth))
