"""Per-opcode abstract semantics of the dispatcher arms, computed by the stack interpreter (shared by C01/C06)."""

from __future__ import annotations

import ast

from hsa.core import AnalysisError, Repo, body_walk, src
from hsa.fold import UNKNOWN, Folder
from hsa.rules.common import if_chain, longest_if_chain
from hsa.stackinterp import Interp

NOISE = ("warn(", "debug(", "debug_once(", "print(", "profiler.", "coverage.")


def dispatch(repo: Repo):
    m, run = repo.fn("sevm.SEVM.run")
    chain = longest_if_chain(run, "opcode")
    arms = if_chain(chain)
    return m, run, chain, arms


def arm_index(repo: Repo, arms, v: int):
    for i, (t, b) in enumerate(arms):
        if t is None:
            return i
        r = Folder(repo, "sevm", {"opcode": v}).fold(t)
        if r is UNKNOWN:
            raise AnalysisError(f"dispatch test cannot be folded for opcode {v:#x}: {src(t)}")
        if r:
            return i
    return None


def _helper_summaries(repo: Repo, v: int):
    """how consuming helpers affect the stack of the running state, derived from their own bodies"""
    out = {}
    _, call = repo.fn("sevm.SEVM.call")
    prefix = []
    for s in call.body:
        if isinstance(s, (ast.FunctionDef, ast.AsyncFunctionDef)):
            break
        if "resolve_prank" in src(s):
            break
        prefix.append(s)
    out["call"] = ("prefix+flag", prefix, {"op": v})
    _, create = repo.fn("sevm.SEVM.create")
    prefix = []
    for s in create.body:
        if "resolve_prank" in src(s):
            break
        prefix.append(s)
    out["create"] = ("prefix+flag", prefix, {"op": v})
    _, cl = repo.fn("sevm.SEVM.calldataload")
    out["calldataload"] = ("inline", list(cl.body), {})
    _, jf = repo.fn("sevm.SEVM.jumpi")
    touches = [c for c in body_walk(jf) if isinstance(c, ast.Call) and isinstance(c.func, ast.Attribute) and src(c.func.value).endswith(".st") and c.func.attr in ("pop", "popi", "push", "push_any", "set_top", "dup", "swap")]
    if touches:
        raise AnalysisError("SEVM.jumpi touches the stack: summary needs review")
    out["jumpi"] = ("none", [], {})
    return out


def arm_records(repo: Repo, arms, v: int):
    i = arm_index(repo, arms, v)
    t, body = arms[i]
    if t is None:
        return i, None
    it = Interp(repo, "sevm", {"opcode": v}, helper_summary=_helper_summaries(repo, v))
    recs = it.run_arm(body)
    return i, recs


def clean(text: str) -> str:
    # push vs push_any is not a semantic difference at this level
    while text.startswith("any(") and text.endswith(")"):
        text = text[4:-1]
    return text


def signature(recs):
    """set of (delta, alpha, tops, effects) over the hand-off points of an arm (raise paths excluded)"""
    sig = set()
    for r in recs:
        if r.kind in ("raise", "continue", "return"):
            continue
        eff = tuple(e for e in r.effects if not e.startswith(NOISE))
        sig.add((r.delta, r.alpha, tuple(clean(x) for x in r.tops), eff))
    return sig
