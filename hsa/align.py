"""Alpha-normalisation of the analysed tree against the reviewed reference snapshot.

Every rule in hsa/rules was written, and its expectations reviewed, against the sources snapshotted in
hsa/reference/*.ref.  A rule that names a *local variable* of the analysed function (``visited`` in
``SEVM.jumpi``) would raise a false alarm on a tree in which that local is merely renamed -- an edit that cannot
change behaviour.  This module removes that sensitivity once, for all rules:

  for every function that exists in both trees, locals of the analysed function are renamed to the reference
  names when -- and only when -- the renaming is a consistent bijection witnessed by statements of identical shape.

The procedure is purely syntactic and sound for the rules:  applying a bijective renaming of local variables
to a function yields an alpha-equivalent function, so any verdict reached on the renamed function is a verdict about
the original one.  A name is renamed only if *every* aligned occurrence votes for the same reference name and no
capture can occur (the new name is not used by the function for anything else); otherwise it is left untouched and
the rules see the tree as written.

It also inlines *hoisted pure locals* that the reference does not have (``limit = self.options.loop`` followed by
uses of ``limit``): a single-assignment local whose value is an attribute/constant-subscript chain over names that
the function never rebinds and whose chain is never stored to in the function is replaced by its value.
"""

from __future__ import annotations

import ast
import copy
import difflib
import os

REF_DIR = os.path.join(os.path.dirname(os.path.abspath(__file__)), "reference")

_ref_cache: dict[str, dict[str, ast.AST]] = {}

FuncT = (ast.FunctionDef, ast.AsyncFunctionDef)


def _defs(tree: ast.AST) -> dict[str, ast.AST]:
    out: dict[str, ast.AST] = {}

    def visit(node, prefix):
        for child in ast.iter_child_nodes(node):
            if isinstance(child, (*FuncT, ast.ClassDef)):
                q = f"{prefix}.{child.name}" if prefix else child.name
                key, n = q, 2
                while key in out:
                    key = f"{q}#{n}"
                    n += 1
                out[key] = child
                if isinstance(child, ast.ClassDef):
                    visit(child, key)
                # nested functions are handled together with their outermost function
            else:
                visit(child, prefix)

    visit(tree, "")
    return {k: v for k, v in out.items() if isinstance(v, FuncT)}


_dump_cache: dict[tuple[str, str], str] = {}


def _ref_dump(modname, q, r) -> str:
    k = (modname, q)
    if k not in _dump_cache:
        _dump_cache[k] = ast.dump(r)
    return _dump_cache[k]


_ref_names_cache: dict[str, set[str]] = {}


def reference_module_names(modname: str) -> set[str]:
    """names bound at module level in the reference module"""
    if modname not in _ref_names_cache:
        p = os.path.join(REF_DIR, modname + ".ref")
        names: set[str] = set()
        if os.path.exists(p):
            with open(p, encoding="utf-8") as f:
                t = ast.parse(f.read())
            for st in t.body:
                for n in ast.walk(st) if not isinstance(st, (*FuncT, ast.ClassDef)) else [st]:
                    if isinstance(n, ast.Name) and isinstance(n.ctx, ast.Store):
                        names.add(n.id)
                    elif isinstance(n, (*FuncT, ast.ClassDef)):
                        names.add(n.name)
                    elif isinstance(n, ast.alias):
                        names.add((n.asname or n.name).split(".")[0])
        _ref_names_cache[modname] = names
    return _ref_names_cache[modname]


def reference_defs(modname: str) -> dict[str, ast.AST]:
    if modname not in _ref_cache:
        p = os.path.join(REF_DIR, modname + ".ref")
        if os.path.exists(p):
            with open(p, encoding="utf-8") as f:
                t = ast.parse(f.read())
            strip_annotations(t)
            _ref_cache[modname] = _defs(t)
        else:
            _ref_cache[modname] = {}
    return _ref_cache[modname]


# --------------------------------------------------------------------------- scope-aware names

CompT = (ast.ListComp, ast.SetComp, ast.GeneratorExp, ast.DictComp)


def comp_bound(node) -> list[str]:
    out = []
    if isinstance(node, CompT):
        for g in node.generators:
            for n in ast.walk(g.target):
                if isinstance(n, ast.Name) and n.id not in out:
                    out.append(n.id)
    elif isinstance(node, ast.Lambda):
        a = node.args
        out = [x.arg for x in [*a.posonlyargs, *a.args, *a.kwonlyargs]]
        if a.vararg:
            out.append(a.vararg.arg)
        if a.kwarg:
            out.append(a.kwarg.arg)
    return out


def walk_names(node, bound: frozenset = frozenset()):
    """(Name node, is bound by an enclosing comprehension/lambda) in a deterministic order"""
    if isinstance(node, ast.Name):
        yield node, node.id in bound
        return
    if isinstance(node, CompT):
        inner = bound | frozenset(comp_bound(node))
        for i, g in enumerate(node.generators):
            yield from walk_names(g.iter, bound if i == 0 else inner)
            yield from walk_names(g.target, inner)
            for c in g.ifs:
                yield from walk_names(c, inner)
        if isinstance(node, ast.DictComp):
            yield from walk_names(node.key, inner)
            yield from walk_names(node.value, inner)
        else:
            yield from walk_names(node.elt, inner)
        return
    if isinstance(node, ast.Lambda):
        inner = bound | frozenset(comp_bound(node))
        for d in [*node.args.defaults, *[d for d in node.args.kw_defaults if d is not None]]:
            yield from walk_names(d, bound)
        yield from walk_names(node.body, inner)
        return
    for child in ast.iter_child_nodes(node):
        yield from walk_names(child, bound)


# --------------------------------------------------------------------------- locals


def _params(fn) -> set[str]:
    out = set()
    for sub in ast.walk(fn):
        if isinstance(sub, FuncT) or isinstance(sub, ast.Lambda):
            a = sub.args
            for x in [*a.posonlyargs, *a.args, *a.kwonlyargs]:
                out.add(x.arg)
            if a.vararg:
                out.add(a.vararg.arg)
            if a.kwarg:
                out.add(a.kwarg.arg)
    return out


def local_names(fn) -> set[str]:
    """names bound by assignment-like constructs anywhere in fn (nested scopes included), minus parameters,
    global/nonlocal declarations, and nested def/class names"""
    bound, declared = set(), set()
    for nm, in_comp in walk_names(fn):
        if not in_comp and isinstance(nm.ctx, (ast.Store, ast.Del)):
            bound.add(nm.id)
    for sub in ast.walk(fn):
        if isinstance(sub, ast.ExceptHandler) and sub.name:
            bound.add(sub.name)
        elif isinstance(sub, (ast.Global, ast.Nonlocal)):
            declared.update(sub.names)
        elif isinstance(sub, (ast.MatchAs, ast.MatchStar)) and sub.name:
            bound.add(sub.name)
    return bound - declared - _params(fn)


def _all_names(fn) -> set[str]:
    """names used at function level (occurrences bound by a comprehension/lambda do not count)"""
    out = {n.id for n, in_comp in walk_names(fn) if not in_comp}
    out |= _params(fn)
    for sub in ast.walk(fn):
        if isinstance(sub, (*FuncT, ast.ClassDef)):
            out.add(sub.name)
        elif isinstance(sub, ast.ExceptHandler) and sub.name:
            out.add(sub.name)
    return out


# --------------------------------------------------------------------------- flattening and skeletons


def _header(stmt: ast.stmt) -> list[ast.AST]:
    """the expression parts that belong to the statement itself (not to nested statements)"""
    if isinstance(stmt, (ast.If, ast.While)):
        return [stmt.test]
    if isinstance(stmt, (ast.For, ast.AsyncFor)):
        return [stmt.target, stmt.iter]
    if isinstance(stmt, (ast.With, ast.AsyncWith)):
        return list(stmt.items)
    if isinstance(stmt, ast.Try):
        return []
    if isinstance(stmt, (*FuncT, ast.ClassDef)):
        return []
    if isinstance(stmt, ast.Match):
        return [stmt.subject]
    return [stmt]


def _flatten(body: list[ast.stmt], out: list) -> None:
    for s in body:
        out.append(s)
        for fld in ("body", "orelse", "finalbody"):
            sub = getattr(s, fld, None)
            if isinstance(sub, list) and sub and isinstance(sub[0], ast.stmt):
                _flatten(sub, out)
        if isinstance(s, ast.Try):
            for h in s.handlers:
                out.append(h)
                _flatten(h.body, out)
        if isinstance(s, ast.Match):
            for c in s.cases:
                _flatten(c.body, out)


def _skeleton(node, locs: set[str]) -> str:
    parts = []
    if isinstance(node, ast.ExceptHandler):
        return "except:" + (ast.dump(node.type) if node.type else "")
    for h in _header(node):
        h2 = copy.deepcopy(h)
        for n, in_comp in list(walk_names(h2)):
            if in_comp:
                n.id = "_c"
            elif n.id in locs:
                n.id = "_"
        parts.append(ast.dump(h2))
    return type(node).__name__ + ":" + "|".join(parts)


def _pairs(a, b, locs_a: set[str], locs_b: set[str], out: list) -> None:
    """parallel walk of two same-shaped headers collecting (cur local, ref local) pairs"""
    if isinstance(a, ast.ExceptHandler):
        if a.name and b.name:
            out.append((a.name, b.name))
        return
    for ha, hb in zip(_header(a), _header(b)):
        na = list(walk_names(ha))
        nb = list(walk_names(hb))
        if len(na) != len(nb):
            continue
        for (x, xc), (y, yc) in zip(na, nb):
            if xc or yc:
                continue
            if x.id in locs_a and y.id in locs_b:
                out.append((x.id, y.id))
            elif x.id in locs_a or y.id in locs_b:
                out.append((x.id, None))  # local vs non-local: a conflicting vote


def _rename_comprehensions(a, b) -> int:
    """a: current statement, b: aligned reference statement of the same shape: give the comprehensions/lambdas of `a`
    the bound-variable names of `b` (alpha-renaming inside the comprehension only)"""
    cnt = 0
    for ha, hb in zip(_header(a) if not isinstance(a, ast.ExceptHandler) else [], _header(b) if not isinstance(b, ast.ExceptHandler) else []):
        ca = [n for n in ast.walk(ha) if isinstance(n, (*CompT, ast.Lambda))]
        cb = [n for n in ast.walk(hb) if isinstance(n, (*CompT, ast.Lambda))]
        if len(ca) != len(cb):
            continue
        for x, y in zip(ca, cb):
            bx, by = comp_bound(x), comp_bound(y)
            if type(x) is not type(y) or len(bx) != len(by) or bx == by:
                continue
            m = dict(zip(bx, by))
            used = {n.id for n in ast.walk(x) if isinstance(n, ast.Name)} | set(bx)
            if any(r in used and r not in m for r in m.values()) or len(set(m.values())) != len(m):
                continue
            for n in ast.walk(x):
                if isinstance(n, ast.Name) and n.id in m:
                    n.id = m[n.id]
                elif isinstance(n, ast.arg) and n.arg in m:
                    n.arg = m[n.arg]
            cnt += 1
    return cnt


def rename_map(cur, ref) -> dict[str, str]:
    locs_c, locs_r = local_names(cur), local_names(ref)
    if not locs_c or locs_c == locs_r and False:
        return {}
    fc: list = []
    fr: list = []
    _flatten(cur.body, fc)
    _flatten(ref.body, fr)
    kc = [_skeleton(s, locs_c) for s in fc]
    kr = [_skeleton(s, locs_r) for s in fr]
    sm = difflib.SequenceMatcher(a=kr, b=kc, autojunk=False)
    votes: dict[str, dict] = {}
    for blk in sm.get_matching_blocks():
        for i in range(blk.size):
            pr: list = []
            _rename_comprehensions(fc[blk.b + i], fr[blk.a + i])
            _pairs(fc[blk.b + i], fr[blk.a + i], locs_c, locs_r, pr)
            for c, r in pr:
                votes.setdefault(c, {}).setdefault(r, 0)
                votes[c][r] += 1
    mapping = {}
    for c, v in votes.items():
        if len(v) == 1:
            (r,) = v
            if r is not None:
                mapping[c] = r
    # bijection: no two current names onto the same reference name
    seen: dict[str, list[str]] = {}
    for c, r in mapping.items():
        seen.setdefault(r, []).append(c)
    for r, cs in seen.items():
        if len(cs) > 1:
            for c in cs:
                mapping.pop(c, None)
    # no capture: the new name must not already be used in the function by a name that stays
    changed = True
    while changed:
        changed = False
        staying = {n for n in _all_names(cur) if n not in mapping or mapping[n] == n}
        for c, r in list(mapping.items()):
            if c != r and (r in staying or _captured(cur, c, r)):
                del mapping[c]
                changed = True
    return {c: r for c, r in mapping.items() if c != r}


def _captured(fn, c: str, r: str) -> bool:
    """would a function-level occurrence of c, renamed to r, fall under a comprehension/lambda that binds r?"""
    for node in ast.walk(fn):
        if isinstance(node, (*CompT, ast.Lambda)) and r in comp_bound(node):
            for n, in_comp in walk_names(node):
                if n.id == c and not in_comp:
                    return True
            # nested: c free in this comprehension although bound by an outer one is not function-level
    return False


def _apply(fn, mapping: dict[str, str]) -> None:
    for n, in_comp in list(walk_names(fn)):
        if not in_comp and n.id in mapping:
            n.id = mapping[n.id]
    for n in ast.walk(fn):
        if isinstance(n, ast.ExceptHandler) and n.name in mapping:
            n.name = mapping[n.name]
        elif isinstance(n, (ast.MatchAs, ast.MatchStar)) and n.name in mapping:
            n.name = mapping[n.name]


# --------------------------------------------------------------------------- hoisted pure locals


def _pure_chain(e, mutable_attrs: set[str]) -> str | None:
    """attribute chain over a Name whose attributes are never stored to outside constructors anywhere in the
    package (so evaluating the chain later yields the same object): returns the root name"""
    cur = e
    depth = 0
    while isinstance(cur, ast.Attribute):
        if cur.attr in mutable_attrs:
            return None
        cur = cur.value
        depth += 1
    if isinstance(cur, ast.Name) and depth >= 1:
        return cur.id
    return None


def mutable_attributes(trees) -> set[str]:
    """attribute names assigned (or deleted, or augmented) anywhere outside __init__/__post_init__"""
    out: set[str] = set()

    def visit(node, in_ctor):
        for child in ast.iter_child_nodes(node):
            if isinstance(child, FuncT):
                visit(child, child.name in ("__init__", "__post_init__", "__new__"))
                continue
            if isinstance(child, ast.Attribute) and isinstance(child.ctx, (ast.Store, ast.Del)) and not in_ctor:
                out.add(child.attr)
            visit(child, in_ctor)

    for t in trees:
        visit(t, False)
    return out


def _stores(fn) -> list[ast.AST]:
    out = []
    for n in ast.walk(fn):
        if isinstance(n, (ast.Attribute, ast.Subscript, ast.Name)) and isinstance(
            getattr(n, "ctx", None), (ast.Store, ast.Del)
        ):
            out.append(n)
    return out


def inline_hoisted(cur, ref_locals: set[str], mutable_attrs: set[str]) -> list[str]:
    """inline single-assignment locals (absent from the reference) bound to a pure chain"""
    done = []
    params = {a.arg for n in ast.walk(cur) if isinstance(n, (ast.FunctionDef, ast.AsyncFunctionDef, ast.Lambda)) for a in ast.walk(n.args) if isinstance(a, ast.arg)}
    while True:
        cand = None
        assigns: dict[str, list] = {}
        for n in ast.walk(cur):
            if isinstance(n, ast.Name) and isinstance(n.ctx, (ast.Store, ast.Del)):
                assigns.setdefault(n.id, []).append(n)
        stores = _stores(cur)
        store_texts = {ast.unparse(s) for s in stores if not isinstance(s, ast.Name)}
        rebinding = {s.id for s in stores if isinstance(s, ast.Name)} | set()
        for st in ast.walk(cur):
            if not (
                isinstance(st, ast.Assign)
                and len(st.targets) == 1
                and isinstance(st.targets[0], ast.Name)
            ):
                continue
            name = st.targets[0].id
            if name in ref_locals or len(assigns.get(name, [])) != 1:
                continue
            # a parameter is bound at entry as well; and the one assignment must come before every use, in the same
            # block (an assignment under a condition does not reach the uses behind it on every path)
            if name in params or not _dominates_uses(cur, st, name):
                continue
            root = _pure_chain(st.value, mutable_attrs)
            if root is None:
                continue
            # the root must never be rebound after entry (parameters / self / single-bound names), and no prefix of
            # the chain may be stored to anywhere in the function
            if root in rebinding and len(assigns.get(root, [])) != 0:
                continue
            txt = ast.unparse(st.value)
            if any(txt == s or txt.startswith(s + ".") or txt.startswith(s + "[") or s.startswith(txt) for s in store_texts):
                continue
            cand = (st, name)
            break
        if cand is None:
            return done
        st, name = cand
        # remove the assignment and substitute
        _remove_stmt(cur, st)
        _Subst(name, st.value).visit(cur)
        done.append(name)


def _dominates_uses(fn, st, name) -> bool:
    """every read of `name` in fn lies in a statement that follows `st` in st's own block"""
    for n in ast.walk(fn):
        for fld in ("body", "orelse", "finalbody"):
            lst = getattr(n, fld, None)
            if isinstance(lst, list) and any(x is st for x in lst):
                k = next(i for i, x in enumerate(lst) if x is st)
                later = {id(y) for x in lst[k + 1:] for y in ast.walk(x)}
                return all(id(u) in later for u in ast.walk(fn) if isinstance(u, ast.Name) and u.id == name and isinstance(u.ctx, ast.Load))
    return False


class _Subst(ast.NodeTransformer):
    def __init__(self, name, value):
        self.name, self.value = name, value

    def visit_Name(self, node):
        if node.id == self.name and isinstance(node.ctx, ast.Load):
            return ast.copy_location(copy.deepcopy(self.value), node)
        return node


def _remove_stmt(fn, st) -> None:
    for n in ast.walk(fn):
        for fld in ("body", "orelse", "finalbody"):
            lst = getattr(n, fld, None)
            if isinstance(lst, list) and st in lst:
                lst.remove(st)
                if not lst and fld == "body":
                    lst.append(ast.copy_location(ast.Pass(), st))
                return


# --------------------------------------------------------------------------- keyword order


def reorder_keywords(cur, ref) -> int:
    """keyword arguments of a call are put in the order the reference uses for the same callee and keyword set
    (keyword order affects only the evaluation order of the argument expressions)"""
    ref_orders: dict[tuple[str, frozenset], list[str]] = {}
    for n in ast.walk(ref):
        if isinstance(n, ast.Call) and len(n.keywords) >= 2 and all(k.arg for k in n.keywords):
            key = (ast.unparse(n.func), frozenset(k.arg for k in n.keywords))
            ref_orders.setdefault(key, [k.arg for k in n.keywords])
    cnt = 0
    for n in ast.walk(cur):
        if isinstance(n, ast.Call) and len(n.keywords) >= 2 and all(k.arg for k in n.keywords):
            key = (ast.unparse(n.func), frozenset(k.arg for k in n.keywords))
            order = ref_orders.get(key)
            if order and [k.arg for k in n.keywords] != order:
                n.keywords.sort(key=lambda k: order.index(k.arg))
                cnt += 1
    return cnt


# --------------------------------------------------------------------------- module-level constants

_RE_METHODS = {"search", "match", "fullmatch", "findall", "finditer", "sub", "subn", "split"}


def _constant_like(v) -> bool:
    if isinstance(v, ast.Constant):
        return True
    if isinstance(v, (ast.Tuple, ast.List, ast.Set)):
        return all(_constant_like(e) for e in v.elts)
    if isinstance(v, ast.Dict):
        return all(k is not None and _constant_like(k) and _constant_like(x) for k, x in zip(v.keys, v.values))
    if isinstance(v, ast.Call) and isinstance(v.func, ast.Name) and v.func.id in ("frozenset", "set", "tuple", "list") and len(v.args) <= 1 and not v.keywords:
        return all(_constant_like(a) for a in v.args)
    if isinstance(v, ast.JoinedStr):
        return all(isinstance(x, ast.Constant) for x in v.values)
    if isinstance(v, ast.BinOp):
        return _constant_like(v.left) and _constant_like(v.right)
    return False


def _immutable_value(v) -> bool:
    if isinstance(v, (ast.Constant, ast.JoinedStr)):
        return True
    if isinstance(v, ast.Tuple):
        return all(_immutable_value(e) for e in v.elts)
    if isinstance(v, ast.BinOp):
        return _immutable_value(v.left) and _immutable_value(v.right)
    if isinstance(v, ast.Call) and isinstance(v.func, ast.Name) and v.func.id in ("frozenset", "tuple"):
        return True
    return False


def _only_read_as_collection(tree, name: str) -> bool:
    """every use of the (mutable) module-level container is a membership test or an iteration"""
    parents = {}
    for p in ast.walk(tree):
        for c in ast.iter_child_nodes(p):
            parents[c] = p
    for n in ast.walk(tree):
        if isinstance(n, ast.Name) and n.id == name and isinstance(n.ctx, ast.Load):
            p = parents.get(n)
            if isinstance(p, ast.Compare) and len(p.ops) == 1 and isinstance(p.ops[0], (ast.In, ast.NotIn)) and p.comparators[0] is n:
                continue
            if isinstance(p, (ast.For, ast.comprehension)) and p.iter is n:
                continue
            return False
    return True


def _is_re_compile(v) -> bool:
    return isinstance(v, ast.Call) and ast.unparse(v.func) == "re.compile" and v.args and _constant_like(v.args[0]) and all(_constant_like(a) for a in v.args[1:]) and not v.keywords


def _inline_bound_regex_methods(fn) -> None:
    """`sub = re.compile(P).sub` ... `sub(r, s)`  ->  `re.sub(P, r, s)` when the local is bound once and only called"""
    for st in list(ast.walk(fn)):
        if not (isinstance(st, ast.Assign) and len(st.targets) == 1 and isinstance(st.targets[0], ast.Name)):
            continue
        v = st.value
        if not (isinstance(v, ast.Attribute) and v.attr in _RE_METHODS and _is_re_compile(v.value)):
            continue
        name = st.targets[0].id
        stores = [n for n in ast.walk(fn) if isinstance(n, ast.Name) and n.id == name and isinstance(n.ctx, (ast.Store, ast.Del))]
        loads = [n for n in ast.walk(fn) if isinstance(n, ast.Name) and n.id == name and isinstance(n.ctx, ast.Load)]
        calls = [c for c in ast.walk(fn) if isinstance(c, ast.Call) and isinstance(c.func, ast.Name) and c.func.id == name]
        if len(stores) != 1 or len(loads) != len(calls):
            continue
        comp = v.value
        for c in calls:
            c.func = ast.Attribute(value=ast.Name(id="re", ctx=ast.Load()), attr=v.attr, ctx=ast.Load())
            c.args = [copy.deepcopy(comp.args[0]), *c.args]
            if len(comp.args) > 1:
                c.keywords = [*c.keywords, ast.keyword(arg="flags", value=copy.deepcopy(comp.args[1]))]
        _remove_stmt(fn, st)


def inline_module_constants(tree: ast.Module, ref_module_names: set[str]) -> list[str]:
    """module-level constants that the reference does not have (`_KINDS = frozenset({..})`, `_PAT = re.compile(r'..')`)
    are viewed at their uses: `x in _KINDS` as `x in {..}`, `_PAT.search(s)` as `re.search(r'..', s)`"""
    done = []
    stores: dict[str, int] = {}
    for n in ast.walk(tree):
        if isinstance(n, ast.Name) and isinstance(n.ctx, (ast.Store, ast.Del)):
            stores[n.id] = stores.get(n.id, 0) + 1
        elif isinstance(n, ast.Global):
            for g in n.names:
                stores[g] = stores.get(g, 0) + 2
    cands = {}
    for st in list(tree.body):
        if isinstance(st, ast.Assign) and len(st.targets) == 1 and isinstance(st.targets[0], ast.Name):
            name = st.targets[0].id
            if name in ref_module_names or stores.get(name, 0) != 1:
                continue
            if _is_re_compile(st.value) or (_constant_like(st.value) and (_immutable_value(st.value) or _only_read_as_collection(tree, name))):
                cands[name] = st
    if not cands:
        return done

    class Sub(ast.NodeTransformer):
        def __init__(self):
            self.left: dict[str, int] = {}

        def visit_Call(self, node):
            f = node.func
            if isinstance(f, ast.Attribute) and isinstance(f.value, ast.Name) and f.value.id in cands and _is_re_compile(cands[f.value.id].value) and f.attr in _RE_METHODS:
                comp = cands[f.value.id].value
                pat = copy.deepcopy(comp.args[0])
                flags = [copy.deepcopy(a) for a in comp.args[1:]]
                args = [self.visit(a) for a in node.args]
                kws = [ast.keyword(arg=k.arg, value=self.visit(k.value)) for k in node.keywords]
                if flags:
                    kws.append(ast.keyword(arg="flags", value=flags[0]))
                new = ast.Call(func=ast.Attribute(value=ast.Name(id="re", ctx=ast.Load()), attr=f.attr, ctx=ast.Load()), args=[pat, *args], keywords=kws)
                return ast.copy_location(new, node)
            return self.generic_visit(node)

        def visit_Name(self, node):
            if isinstance(node.ctx, ast.Load) and node.id in cands:
                return ast.copy_location(copy.deepcopy(cands[node.id].value), node)
            return node

    for fn in ast.walk(tree):
        if not isinstance(fn, FuncT):
            continue
        bound = _params(fn) | local_names(fn)
        if not any(isinstance(n, ast.Name) and n.id in cands and n.id not in bound for n in ast.walk(fn)):
            continue
        shadowed = {c for c in cands if c in bound}
        saved = {c: cands.pop(c) for c in shadowed}
        try:
            new_body = [Sub().visit(s) for s in fn.body]
            fn.body = new_body
            _inline_bound_regex_methods(fn)
            ast.fix_missing_locations(fn)
        finally:
            cands.update(saved)
    # drop the assignments whose name is no longer read anywhere
    for name, st in cands.items():
        still = any(isinstance(n, ast.Name) and n.id == name and isinstance(n.ctx, ast.Load) for n in ast.walk(tree))
        if not still and st in tree.body:
            tree.body.remove(st)
            done.append(name)
    return done


# --------------------------------------------------------------------------- renamed functions


def _all_identifier_uses(trees, name: str) -> int:
    n = 0
    for t in trees:
        for x in ast.walk(t):
            if isinstance(x, ast.Name) and x.id == name:
                n += 1
            elif isinstance(x, ast.Attribute) and x.attr == name:
                n += 1
            elif isinstance(x, (*FuncT, ast.ClassDef)) and x.name == name:
                n += 1
            elif isinstance(x, ast.alias) and (x.name == name or x.asname == name):
                n += 1
            elif isinstance(x, ast.arg) and x.arg == name:
                n += 1
            elif isinstance(x, ast.keyword) and x.arg == name:
                n += 1
    return n


def _rename_everywhere(trees, old: str, new: str) -> None:
    for t in trees:
        for x in ast.walk(t):
            if isinstance(x, ast.Name) and x.id == old:
                x.id = new
            elif isinstance(x, ast.Attribute) and x.attr == old:
                x.attr = new
            elif isinstance(x, FuncT) and x.name == old:
                x.name = new
            elif isinstance(x, ast.alias):
                if x.name == old:
                    x.name = new
                if x.asname == old:
                    x.asname = new


def _mangled(cls_name: str | None, name: str) -> list[str]:
    out = [name]
    if cls_name and name.startswith("__") and not name.endswith("__"):
        out.append(f"_{cls_name.lstrip('_')}{name}")
    return out


def _binding_conflict(trees: dict, name: str, scope: str, modname: str) -> bool:
    """is `name` already bound to something in the namespace the reference name lives in (its class, or any module's
    top level for a module-level function)?"""
    for mn, t in trees.items():
        if scope:
            if mn != modname:
                continue
            for c in ast.walk(t):
                if isinstance(c, ast.ClassDef) and c.name == scope:
                    for st in c.body:
                        if isinstance(st, (*FuncT, ast.ClassDef)) and st.name == name:
                            return True
                        if isinstance(st, (ast.Assign, ast.AnnAssign)) and any(isinstance(x, ast.Name) and x.id == name for x in ast.walk(st)):
                            return True
            continue
        for st in t.body:
            if isinstance(st, (*FuncT, ast.ClassDef)) and st.name == name:
                return True
            if isinstance(st, (ast.Assign, ast.AnnAssign)):
                tg = st.targets if isinstance(st, ast.Assign) else [st.target]
                if any(isinstance(x, ast.Name) and x.id == name for x in tg):
                    return True
            if isinstance(st, (ast.Import, ast.ImportFrom)) and any((a.asname or a.name).split(".")[0] == name for a in st.names):
                return True
    return False


def _shape(fn) -> str:
    """structure of a function with every identifier blanked (to propose rename / move candidates)"""
    c = copy.deepcopy(fn)
    own = c.name

    class _Self(ast.NodeTransformer):
        def visit_Attribute(self, node):
            self.generic_visit(node)
            if node.attr == own and isinstance(node.value, ast.Name):
                return ast.copy_location(ast.Name(id=own, ctx=node.ctx), node)  # Cls.f(..) inside f is f(..)
            return node

    c = _Self().visit(c)
    c.name = "_"
    c.decorator_list = []
    c.returns = None
    for n in ast.walk(c):
        if isinstance(n, ast.Name):
            n.id = "_"
        elif isinstance(n, ast.Attribute):
            n.attr = "_"
        elif isinstance(n, ast.arg):
            n.arg = "_"
            n.annotation = None
        elif isinstance(n, ast.keyword) and n.arg:
            n.arg = "_"
        elif isinstance(n, ast.Constant) and isinstance(n.value, str) and len(n.value) > 40:
            n.value = "_"
    if c.body and isinstance(c.body[0], ast.Expr) and isinstance(c.body[0].value, ast.Constant):
        c.body = c.body[1:] or [ast.Pass()]
    return ast.dump(c)


class _RenameIdents(ast.NodeTransformer):
    def __init__(self, m):
        self.m = m

    def visit_Name(self, node):
        node.id = self.m.get(node.id, node.id)
        return node

    def visit_Attribute(self, node):
        self.generic_visit(node)
        node.attr = self.m.get(node.attr, node.attr)
        return node


def restore_function_names(trees: dict[str, ast.AST]) -> dict[str, str]:
    """functions of the reference that are missing, next to new functions whose bodies are equivalent to them once all
    proposed renamings are applied together, are those functions under new names (or in a new place): the view gets the
    reference names and places back -- definitions and every reference in the package.  A proposal is only accepted if
    hsa.equiv confirms it and the reference name is not in use for anything else."""
    import difflib

    from .equiv import Equiv, _canon_params

    log: dict[str, str] = {}
    all_trees = list(trees.values())
    missing: list[tuple] = []  # (modname, qual, node)
    new: list[tuple] = []
    class_of: dict = {}
    for modname, tree in trees.items():
        ref = reference_defs(modname)
        if not ref:
            continue
        cur = _defs(tree)
        for c in ast.walk(tree):
            if isinstance(c, ast.ClassDef):
                for sub in c.body:
                    class_of[sub] = c
        missing += [(modname, q, ref[q]) for q in ref if q not in cur]
        new += [(modname, g, cur[g]) for g in cur if g not in ref]
    if not missing or not new:
        proposals = []
    else:
        shapes_new = [(_shape(n[2]), n) for n in new]
        proposals = []
        used = set()
        for mm, q, F in missing:
            sf = _shape(F)
            scope = q.rpartition(".")[0]
            best, best_score = None, 0.0
            for k, (sg, (mg, g, G)) in enumerate(shapes_new):
                if k in used:
                    continue
                same_scope = mg == mm and g.rpartition(".")[0] == scope
                if sg == sf:
                    score = 2.0 if same_scope else 1.5
                elif same_scope and abs(len(sg) - len(sf)) < 0.3 * len(sf):
                    score = difflib.SequenceMatcher(a=sf, b=sg, autojunk=False).quick_ratio()
                    score = score if score >= 0.9 else 0.0
                else:
                    score = 0.0
                if score > best_score:
                    best, best_score = k, score
            if best is not None:
                used.add(best)
                proposals.append(((mm, q, F), shapes_new[best][1]))
    # verify all proposals under the joint renaming
    tentative = {G.name: F.name for (_, _, F), (_, _, G) in proposals if G.name != F.name}
    # functions proposed to have moved from a class (as staticmethod) back to module level: `Cls.f(..)` is `f(..)`
    static_names = {F.name for (_, q, F), (_, _, G) in proposals if any(ast.unparse(d) == "staticmethod" for d in G.decorator_list) and "." not in q}

    class _Unqualify(ast.NodeTransformer):
        def visit_Attribute(self, node):
            self.generic_visit(node)
            if node.attr in static_names and isinstance(node.value, ast.Name):
                return ast.copy_location(ast.Name(id=node.attr, ctx=node.ctx), node)
            return node

    accepted = []
    for (mm, q, F), (mg, g, G) in proposals:
        Gc = _RenameIdents(tentative).visit(copy.deepcopy(G))
        Gc.name = F.name
        if static_names:
            Gc = _Unqualify().visit(Gc)
        # a function that moved between a class (static) and module level keeps its body; decorators are compared after
        static_to_module = any(ast.unparse(d) == "staticmethod" for d in G.decorator_list) and "." not in q
        if static_to_module:
            Gc.decorator_list = [d for d in Gc.decorator_list if ast.unparse(d) != "staticmethod"]
        try:
            ok = Equiv(Gc, F).function()
        except RecursionError:
            ok = False
        if ok:
            accepted.append(((mm, q, F), (mg, g, G), static_to_module))
    for (mm, q, F), (mg, g, G), static_to_module in accepted:
        old_name, new_name = G.name, F.name
        if old_name != new_name:
            if _binding_conflict(trees, new_name, q.rpartition(".")[0], mm):
                continue
            _rename_everywhere(all_trees, old_name, new_name)
            cls_old = g.rpartition(".")[0] or None
            cls_new = q.rpartition(".")[0] or None
            for a, b in zip(_mangled(cls_old, old_name)[1:], _mangled(cls_new, new_name)[1:]):
                _rename_everywhere(all_trees, a, b)
        moved = (mg, g.rpartition(".")[0]) != (mm, q.rpartition(".")[0])
        if moved:
            # take the definition back to where the reference has it
            src_tree, dst_tree = trees[mg], trees[mm]
            holder = class_of.get(G)
            (holder.body if holder is not None else src_tree.body).remove(G)
            if holder is not None and not holder.body:
                holder.body.append(ast.Pass())
            dscope = q.rpartition(".")[0]
            if dscope:
                dst = next((c for c in ast.walk(dst_tree) if isinstance(c, ast.ClassDef) and c.name == dscope), None)
                if dst is None:
                    continue
                dst.body.append(G)
            else:
                dst_tree.body.append(G)
                # the reference module does not import its own function
                for st in list(dst_tree.body):
                    if isinstance(st, ast.ImportFrom):
                        st.names = [a for a in st.names if (a.asname or a.name) != new_name]
                        if not st.names:
                            dst_tree.body.remove(st)
            if static_to_module:
                G.decorator_list = [d for d in G.decorator_list if ast.unparse(d) != "staticmethod"]
                cname = holder.name if holder is not None else None
                for t in all_trees:
                    for n in ast.walk(t):
                        for fld, val in ast.iter_fields(n):
                            vals = val if isinstance(val, list) else [val]
                            for idx, v in enumerate(vals):
                                if isinstance(v, ast.Attribute) and v.attr == new_name and isinstance(v.value, ast.Name) and v.value.id in ("self", "cls", cname):
                                    repl = ast.copy_location(ast.Name(id=new_name, ctx=ast.Load()), v)
                                    if isinstance(val, list):
                                        val[idx] = repl
                                    else:
                                        setattr(n, fld, repl)
        log[f"{mg}.{g}"] = f"viewed as {mm}.{q}" + (" (moved back)" if moved else "")
    # nested functions renamed inside their (unchanged) parent
    for modname, tree in trees.items():
        ref = reference_defs(modname)
        for q, fn in _defs(tree).items():
            r = ref.get(q)
            if r is None:
                continue
            _restore_nested(fn, r, f"{modname}.{q}", log)
    return log


def _renamed_copy(fn, name: str):
    c = copy.deepcopy(fn)
    old = c.name
    c.name = name
    for n in ast.walk(c):
        if isinstance(n, ast.Name) and n.id == old:
            n.id = name
        elif isinstance(n, ast.Attribute) and n.attr == old:
            n.attr = name
    return c


def _restore_nested(fn, r, where: str, log: dict) -> None:
    from .equiv import Equiv

    cur_nested = {s.name: s for s in fn.body if isinstance(s, FuncT)}
    ref_nested = {s.name: s for s in r.body if isinstance(s, FuncT)}
    missing = [n for n in ref_nested if n not in cur_nested]
    new = [n for n in cur_nested if n not in ref_nested]
    for old in missing:
        for g in list(new):
            try:
                eq = Equiv(_renamed_copy(cur_nested[g], old), ref_nested[old]).function()
            except RecursionError:
                eq = False
            if eq and not any(isinstance(n, ast.Name) and n.id == old for n in ast.walk(fn)):
                for n in ast.walk(fn):
                    if isinstance(n, ast.Name) and n.id == g:
                        n.id = old
                    elif isinstance(n, FuncT) and n.name == g:
                        n.name = old
                log[f"{where}.{g}"] = f"nested function viewed under its reference name {old}"
                new.remove(g)
                break
    for name, sub in cur_nested.items():
        if name in ref_nested:
            _restore_nested(sub, ref_nested[name], f"{where}.{name}", log)


# --------------------------------------------------------------------------- signatures


def _sig(fn) -> tuple:
    a = fn.args
    pos = [x.arg for x in [*a.posonlyargs, *a.args]]
    kwo = [x.arg for x in a.kwonlyargs]
    defaults = {}
    for name, d in zip(pos[len(pos) - len(a.defaults):], a.defaults):
        defaults[name] = ast.dump(d)
    for x, d in zip(a.kwonlyargs, a.kw_defaults):
        if d is not None:
            defaults[x.arg] = ast.dump(d)
    return pos, kwo, defaults, bool(a.vararg), bool(a.kwarg), bool(a.posonlyargs)


_ref_sig_cache: dict | None = None


def reference_signatures() -> dict[str, tuple]:
    """simple function / method name -> (positional params, keyword-only params) for names that have one signature in
    the whole reference package (methods without their self/cls)"""
    global _ref_sig_cache
    if _ref_sig_cache is None:
        table: dict[str, set] = {}
        for f in os.listdir(REF_DIR):
            if not f.endswith(".ref"):
                continue
            for q, fn in reference_defs(f[:-4]).items():
                pos, kwo, defaults, va, kw, po = _sig(fn)
                is_method = "." in q and not any(ast.unparse(d) == "staticmethod" for d in fn.decorator_list)
                if is_method and pos:
                    pos = pos[1:]
                if va or kw or po:
                    table.setdefault(fn.name, set()).add(None)
                else:
                    table.setdefault(fn.name, set()).add((tuple(pos), tuple(kwo)))
        _ref_sig_cache = {k: next(iter(v)) for k, v in table.items() if len(v) == 1 and None not in v}
    return _ref_sig_cache


def restore_signatures(trees: dict[str, ast.AST]) -> dict[str, str]:
    """a function whose parameters were only reordered or made keyword-only gets the reference signature back in the
    view; every call of it in the package is re-bound by name (a call site that cannot be re-bound vetoes the change)"""
    log: dict[str, str] = {}
    all_trees = list(trees.values())
    for modname, tree in trees.items():
        ref = reference_defs(modname)
        for q, fn in _defs(tree).items():
            r = ref.get(q)
            if r is None:
                continue
            cp, ck, cd, cva, ckw, cpo = _sig(fn)
            rp, rk, rd, rva, rkw, rpo = _sig(r)
            if (cp, ck) == (rp, rk) or cva or ckw or cpo or rva or rkw or rpo:
                continue
            if set(cp) | set(ck) != set(rp) | set(rk) or cd != rd:
                continue
            name = fn.name
            is_method = "." in q and not any(ast.unparse(d) == "staticmethod" for d in fn.decorator_list)
            in_class = "." in q
            # the name must denote this function only among functions reached the same way: plain calls `f(..)` reach
            # module-level functions, attribute calls `x.f(..)` reach methods
            same_kind = 0
            for mn2, t in trees.items():
                for q2, f2 in _defs(t).items():
                    if f2.name == name and ("." in q2) == in_class:
                        same_kind += 1
            if same_kind != 1:
                continue
            cur_pos = cp[1:] if is_method else cp
            ref_pos = rp[1:] if is_method else rp
            calls = []
            ok = True
            uses = 0
            for t in all_trees:
                for n in ast.walk(t):
                    if isinstance(n, ast.Call):
                        f = n.func
                        hit = (isinstance(f, ast.Attribute) and f.attr == name) if in_class else (isinstance(f, ast.Name) and f.id == name)
                        if hit:
                            if any(isinstance(a, ast.Starred) for a in n.args) or any(k.arg is None for k in n.keywords) or len(n.args) > len(cur_pos):
                                ok = False
                            calls.append(n)
                    if in_class:
                        if isinstance(n, ast.Attribute) and n.attr == name:
                            uses += 1
                    elif isinstance(n, ast.Name) and n.id == name and isinstance(n.ctx, ast.Load):
                        uses += 1
            # the function used as a value (callback, partial) keeps positional meaning we cannot re-bind
            if not ok or uses != len(calls):
                continue
            for c in calls:
                given = {}
                for pname, a in zip(cur_pos, c.args):
                    given[pname] = a
                for k in c.keywords:
                    given[k.arg] = k.value
                new_args, new_kws = [], []
                positional_ok = True
                for pname in ref_pos:
                    if pname in given and positional_ok:
                        new_args.append(given[pname])
                    else:
                        positional_ok = False
                        if pname in given:
                            new_kws.append(ast.keyword(arg=pname, value=given[pname]))
                for pname in rk:
                    if pname in given:
                        new_kws.append(ast.keyword(arg=pname, value=given[pname]))
                c.args, c.keywords = new_args, new_kws
            fn.args = copy.deepcopy(r.args)
            log[f"{modname}.{q}"] = f"signature ({', '.join(cp)}{' *, ' + ', '.join(ck) if ck else ''}) viewed in the reference order"
    return log


# --------------------------------------------------------------------------- annotations


def strip_annotations(tree) -> None:
    """`x: T = v` outside class bodies is `x = v` (an annotation of a module-level or local variable has no effect at
    run time; in class bodies it may declare a dataclass field and is kept)"""

    def visit(node, in_class):
        for fld in ("body", "orelse", "finalbody"):
            lst = getattr(node, fld, None)
            if isinstance(lst, list):
                for i, st in enumerate(lst):
                    if isinstance(st, ast.AnnAssign) and st.value is not None and isinstance(st.target, ast.Name) and not in_class:
                        lst[i] = ast.copy_location(ast.Assign(targets=[st.target], value=st.value), st)
                    elif isinstance(st, ast.ClassDef):
                        visit(st, True)
                    elif isinstance(st, ast.AST):
                        visit(st, False if isinstance(st, FuncT) else in_class)
        for h in getattr(node, "handlers", []) or []:
            visit(h, in_class)

    visit(tree, False)


# --------------------------------------------------------------------------- entry point


def normalise(modname: str, tree: ast.AST, mutable_attrs: set[str] | None = None) -> dict[str, dict[str, str]]:
    """inline new helpers, rename locals, inline hoisted pure locals, reorder keywords -- in place.
    Returns {function qualname: what was done} for the evidence."""
    from .inline import inline_new_helpers

    ref = reference_defs(modname)
    if not ref:
        return {}
    from . import paths

    paths.MUTABLE_ATTRS = mutable_attrs
    log: dict[str, dict[str, str]] = {}
    strip_annotations(tree)
    consts = inline_module_constants(tree, reference_module_names(modname))
    if consts:
        log["<module constants viewed at their uses>"] = {str(i): c for i, c in enumerate(consts)}
    try:
        from .unmove import closures_to_partial, departial, unmove

        moved = departial(tree, ref)
        moved += unmove(tree, ref)
        for q, fn in _defs(tree).items():
            if ref.get(q) is not None:
                moved += [f"{q}: {s}" for s in closures_to_partial(fn, ref[q])]
    except RecursionError:
        moved = []
    if moved:
        log["<closures re-nested>"] = {str(i): s for i, s in enumerate(moved)}
    nested = {q: {n.name for n in ast.walk(r) if isinstance(n, FuncT) and n is not r} for q, r in ref.items()}
    inl_sites = inline_new_helpers(tree, set(ref), nested)
    if inl_sites:
        log["<helpers inlined>"] = {str(i): s for i, s in enumerate(inl_sites)}
    containers = {}
    for node in ast.walk(tree):
        body = getattr(node, "body", None)
        if isinstance(body, list):
            for i, ch in enumerate(body):
                if isinstance(ch, FuncT):
                    containers[ch] = (body, i)
    for q, fn in _defs(tree).items():
        r = ref.get(q)
        if r is None:
            continue
        if ast.dump(fn) == _ref_dump(modname, q, r):
            continue
        entry: dict[str, str] = {}
        try:
            m = rename_map(fn, r)
            if m:
                _apply(fn, m)
                entry.update(m)
            if mutable_attrs is not None:
                inl = inline_hoisted(fn, local_names(r), mutable_attrs)
                if inl:
                    entry["<hoisted locals inlined>"] = ",".join(inl)
                    m2 = rename_map(fn, r)
                    if m2:
                        _apply(fn, m2)
                        entry.update(m2)
            k = reorder_keywords(fn, r)
            if k:
                entry["<keyword order>"] = str(k)
            if os.environ.get("HSA_NO_EQUIV") != "1" and ast.dump(fn) != _ref_dump(modname, q, r):
                from .equiv import equivalent

                if equivalent(fn, r) and fn in containers:
                    body, i = containers[fn]
                    rc = copy.deepcopy(r)
                    ast.increment_lineno(rc, fn.lineno - r.lineno)
                    body[i] = rc
                    entry["<equivalent to reference>"] = "path summaries equal; rules evaluated on the reference form"
                else:
                    from .equiv import partial_normalise

                    k = partial_normalise(fn, r)
                    if k:
                        entry["<equivalent segments>"] = f"{k} differing segment(s) with equal summaries viewed in reference form; the rest as written"
        except RecursionError:
            continue
        if entry:
            log[q] = entry
    return log
