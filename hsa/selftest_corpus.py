"""Self-test corpus: breaking edits (text old -> new on one module of today's tree) with the rule that must
report them.  Edits are applied IN MEMORY (Repo overrides); the mutated module must still byte-compile; nothing
is executed.  An edit whose `old` text no longer occurs is skipped (reported), never counted as detected.

Every entry compiles and - by the properties' own `why_tests_cant` - passes the 306 tests.
"""

M = []


def mut(prop, rule, module, old, new, note=""):
    M.append({"prop": prop, "rule": rule, "module": module, "old": old, "new": new, "note": note})


# ---- C01 / C06: dispatcher and word semantics
mut("C01", "R01.3", "sevm", "state.set_top(w1.sub(state.topi()))", "state.set_top(state.topi().sub(w1))", "SUB operands swapped")
mut("C01", "R01.3", "sevm", "state.set_top(w1.ugt(state.topi()))  # bvugt", "state.set_top(w1.ult(state.topi()))  # bvugt", "GT routed to ult")
mut("C01", "R01.2", "sevm", '                    size: int = ex.int_of(state.pop(), "symbolic EXTCODECOPY size")\n', '                    size: int = ex.int_of(state.peek(), "symbolic EXTCODECOPY size")\n', "EXTCODECOPY leaves an operand on the stack")
mut("C01", "R01.1", "sevm", "elif OP_DUP1 <= opcode <= OP_DUP16:", "elif OP_DUP1 <= opcode <= OP_SWAP1:", "DUP arm swallows SWAP1")
mut("C01", "R01.3", "sevm", "state.push(w2.ashr(w1))  # bvashr", "state.push(w1.ashr(w2))  # bvashr", "SAR operands swapped")
mut("C01", "R01.3", "sevm", "state.push_any(ex.caller())", "state.push_any(ex.origin())", "CALLER reads origin")
mut("C01", "R01.3", "sevm", "self.sstore(ex, ex.this(), slot, value, transient=True)", "self.sstore(ex, ex.this(), slot, value)", "TSTORE writes persistent storage")
mut("C01", "R01.4", "sevm", "        # assume no hash collision\n        self.assume_sha3_distinct(sha3_expr)\n", "", "hash injectivity axiom dropped")
mut("C01", "R01.5", "sevm", "                ex.halt(data=ByteVec(), error=err)\n                yield from finalize(ex)\n                continue\n\n            except HalmosException", "                ex.halt(data=None, error=err)\n                yield from finalize(ex)\n                continue\n\n            except HalmosException", "EVM error turned into stuck path")
mut("C06", "R06.1", "bitvec", "            # mod by zero is zero\n            if modulus.value == 0:\n                return modulus\n\n            return HalmosBitVec((self.value + other.value)", "            return HalmosBitVec((self.value + other.value)", "ADDMOD zero guard removed")
mut("C06", "R06.2", "bitvec", "pow(lhs, rhs, 1 << size)", "lhs**rhs", "unbounded exponentiation")
mut("C06", "R06.3", "bitvec", "return HalmosBool(ULT(self.as_z3(), other.as_z3()))", "return HalmosBool(self.as_z3() < other.as_z3())", "ult becomes signed")
mut("C06", "R06.3", "bitvec", "HalmosBitVec(SRem(lhs, rhs), size=size)", "HalmosBitVec(URem(lhs, rhs), size=size)", "smod becomes unsigned")
mut("C06", "R06.3", "bitvec", "return HalmosBitVec(LShR(self.as_z3(), shift.as_z3()), size=size)", "return HalmosBitVec(self.as_z3() >> shift.as_z3(), size=size)", "lshr becomes arithmetic")
mut("C06", "R06.4", "bitvec", "HalmosBitVec(self.as_z3() / other.as_z3(), size=size)", "HalmosBitVec(other / self, size=size)", "operator on wrappers")
mut("C06", "R06.4", "sevm", "f_blockhash(state.popi().as_z3())", "f_blockhash(state.pop())", "wrapper passed to z3 function")
mut("C06", "R06.5", "sevm", "state.set_top(state.topi().bitwise_not())", "state.set_top(state.top().bitwise_not())", "NOT on unconverted item")
mut("C06", "R06.6", "sevm", "Extract((31 - curr) * 8 + 7, (31 - curr) * 8, w)", "Extract(curr * 8 + 7, curr * 8, w)", "BYTE little-endian")
mut("C06", "R06.3", "sevm", "ex.path.append(ULE(term.as_z3(), w2.as_z3()))", "ex.path.append(ULT(term.as_z3(), w2.as_z3()))", "x % y < y excludes y = 0")

# ---- C02
mut("C02", "R02.1", "sevm", "potential_true: bool = check_true != unsat", "potential_true: bool = check_true == sat", "unknown drops the true side")
mut("C02", "R02.1", "sevm", "if ex.check(alias_cond) != unsat:", "if ex.check(alias_cond) == sat:", "alias kept only when sat")
mut("C02", "R02.1", "sevm", "if self.check(key == key0) == unsat:  # key != key0", "if self.check(key == key0) != sat:  # key != key0", "store skipped on unknown")
mut("C02", "R02.2", "utils", "return eq(left, base) and is_bv_value(offset) and offset.as_long() < 2**64", "return is_bv_value(offset) and offset.as_long() < 2**64", "overflow pattern without eq(left, base)")
mut("C02", "R02.2", "utils", "offset.as_long() < 2**64", "offset.as_long() < 2**65", "overflow bound beyond the hash range axiom")
mut("C02", "R02.3", "sevm", "        if is_false(balance_cond):\n            raise InfeasiblePath", "        if not is_true(balance_cond):\n            raise InfeasiblePath", "path dropped unless balance provably sufficient")
mut("C02", "R02.4", "sevm", "                    new_ex.advance()\n                    stack.push(new_ex)\n                return\n        ex.st.push_any(loaded)", "                    new_ex.advance()\n                return\n        ex.st.push_any(loaded)", "calldataload candidates never scheduled")
mut("C02", "R02.4", "sevm", "                ex.advance(pc=insn.next_pc)\n                next_ex = ex\n\n            except InfeasiblePath:", "                ex.advance(pc=insn.next_pc)\n\n            except InfeasiblePath:", "state lost after every plain instruction")
mut("C02", "R02.5", "sevm", "                        for target in reachable_targets:\n                            cond = dst.as_z3() == target", "                        for target in reachable_targets[:1]:\n                            cond = dst.as_z3() == target", "only the first jump target explored")
mut("C02", "R02.6", "sevm", "        term = f_mod[x.size()](x, y)\n        ex.path.append(ULE(term, y))", "        term = f_mod[x.size()](x, y)\n        ex.path.append(ULT(term, y))", "remainder axiom excludes y = 0")
mut("C02", "R02.6", "sevm", "        self.path.append(ULE(sha3_expr, 2**256 - 2**64))", "        self.path.append(ULE(sha3_expr, 2**255))", "hash range narrowed")
mut("C02", "R02.7", "sevm", "balance_cond = simplify(UGE(caller_balance, value.as_z3()))", "balance_cond = simplify(UGT(caller_balance, value.as_z3()))", "balance == value case lost on both sides")
mut("C02", "R02.8", "sevm", "        for addr, cond in tail:\n            new_ex = self.create_branch(ex, cond, ex.pc)\n            new_ex.alias[target] = addr\n            stack.push(new_ex)\n\n        addr, cond = head\n        ex.path.append(cond, branching=True)\n        ex.alias[target] = addr\n        return addr", "        addr0, cond0 = head\n        ex.path.append(cond0, branching=True)\n        ex.alias[target] = addr0\n        for addr, cond in tail:\n            new_ex = self.create_branch(ex, cond, ex.pc)\n            new_ex.alias[target] = addr\n            stack.push(new_ex)\n        return addr0", "siblings forked after the parent was constrained")

# ---- C03 / C05
mut("C03", "R03.1", "__main__", "        if panic_found or is_global_fail_set(ex.context):\n            potential += 1", "        if panic_found:\n            potential += 1", "failure flag ignored")
mut("C03", "R03.2", "sevm", "if byte_length(error_data) != 36:", "if byte_length(error_data) < 36:", "longer revert data accepted as Panic")
mut("C03", "R03.3", "__main__", "        case n if n > 1:\n            debug(", "        case n if n > 2:\n            debug(", "two setUp paths tolerated")
mut("C03", "R03.4", "__main__", "    for depth in range(ctx.max_call_depth + 1):", "    for depth in range(ctx.max_call_depth):", "last depth never tested")
mut("C05", "R05.1", "__main__", "    elif len(stuck) > 0:\n        passfail = color_error(\"[ERROR]\")\n        exitcode = Exitcode.STUCK.value\n", "", "stuck paths no longer exclude PASS")
mut("C05", "R05.2", "__main__", "    if counter[\"sat\"] > 0:\n        passfail = color_error(\"[FAIL]\")\n        exitcode = Exitcode.COUNTEREXAMPLE.value\n    elif counter[\"err\"] > 0:\n        passfail = color_error(\"[ERROR]\")\n        exitcode = Exitcode.EXCEPTION.value\n", "    if counter[\"err\"] > 0:\n        passfail = color_error(\"[ERROR]\")\n        exitcode = Exitcode.EXCEPTION.value\n    elif counter[\"sat\"] > 0:\n        passfail = color_error(\"[FAIL]\")\n        exitcode = Exitcode.COUNTEREXAMPLE.value\n", "ERROR takes precedence over FAIL")
mut("C05", "R03.4", "__main__", "    elif counter[\"unknown\"] > 0:", "    elif counter[\"unknwon\"] > 0:", "misspelt counter key")
mut("C05", "R05.3", "solve", "            case _:\n                return SolverOutput(\n                    \"err\", returncode, path_id, query_file, error=stderr\n                )", "            case _:\n                return SolverOutput(\n                    unsat, returncode, path_id, query_file, error=stderr\n                )", "garbage output read as unsat")
mut("C05", "R05.3", "solve", "        return SolverOutput(\n            result=unknown,\n            returncode=EXIT_TIMEDOUT,", "        return SolverOutput(\n            result=unsat,\n            returncode=EXIT_TIMEDOUT,", "timeout read as unsat")
mut("C05", "R05.4", "__main__", "    ctx.thread_pool.shutdown(wait=True)\n", "    ctx.thread_pool.shutdown(wait=False)\n", "verdict before the solvers finished")
mut("C05", "R05.5", "__main__", "        num_failed = num_found - num_passed", "        num_failed = len(test_results) - num_passed", "setUp failure counts as no failure")

# ---- C04 / C11 / C16
mut("C04", "R04.1", "sevm", 'f_exp = Function("f_evm_exp_256"', 'f_exp = Function("f_exp_256"', "exp abstraction escapes the validity label")
mut("C04", "R04.2", "solve", "(bvudiv|bvurem|bvsdiv|bvsrem)", "(bvudiv|bvurem|bvsrem)", "sdiv never refined")
mut("C04", "R04.2", "solve", "(ite (= y (_ bv0 \\2)) (_ bv0 \\2) (\\1 x y))", "(ite (= y (_ bv0 \\2)) (_ bv1 \\2) (\\1 x y))", "division by zero refined to 1")
mut("C04", "R04.2", "sevm", 'f_smod = Function("f_evm_bvsrem_256"', 'f_smod = Function("f_evm_bvsmod_256"', "SMOD refined with the divisor's sign")
mut("C04", "R04.3", "solve", 'case "#x":\n            return int(value[2:], 16)', 'case "#x":\n            return int(value[2:], 10)', "hex model values parsed as decimal")
mut("C04", "R04.4", "__main__", "        if model.is_valid:\n            print(color_error(f\"Counterexample: {model}\"))", "        if model is not None:\n            print(color_error(f\"Counterexample: {model}\"))", "abstract model listed as valid")
mut("C11", "R11.1", "sevm", "        for cond in self.conditions:\n            cond_copied = cond.translate(tmp_solver.ctx)", "        for cond in self.conditions:\n            if not self.conditions[cond]:\n                continue\n            cond_copied = cond.translate(tmp_solver.ctx)", "only branching conditions serialised")
mut("C11", "R11.2", "sevm", "        self.solver.add(cond)\n        self.conditions[cond] = branching", "        if branching:\n            self.solver.add(cond)\n        self.conditions[cond] = branching", "axioms missing from the branching solver")
mut("C11", "R11.3", "solve", "                for assert_id in query.assertions\n", "                for assert_id in query.assertions[1:]\n", "first assertion never named")
mut("C16", "R16.1", "__main__", "            if solver_output.unsat_core:\n                ctx.append_unsat_core", "            if solver_output.unsat_core is not None:\n                ctx.append_unsat_core", "empty core cached")
mut("C16", "R16.2", "solve", "if all(core in query.assertions for core in unsat_core):", "if any(core in query.assertions for core in unsat_core):", "partial core counts as a hit")
mut("C16", "R16.4", "__main__", "                self._solve_end_to_end_callback,\n                ex=ex,\n", "                self._solve_end_to_end_callback,\n                ex=None,\n", "Exec no longer retained by the future")
mut("C16", "R16.5", "solve", "    unsat_cores: list[list] = field(default_factory=list)", "    unsat_cores: list[list] = field(default_factory=lambda: _ALL_CORES)", "cores shared across contexts")

# ---- C08 / C09
mut("C08", "R08.1", "hashes", "0x290DECD9548B62A8D60345A988386FC84BA6BC95484008F6362F93160EF3E563: 0,", "0x290DECD9548B62A8D60345A988386FC84BA6BC95484008F6362F93160EF3E564: 0,", "one digit of a precomputed hash changed")
mut("C08", "R08.2", "sevm", "            return cls.decode(ex, base) + (offset, Z3_ZERO)\n        # a[i] : hash(a) + i", "            return cls.decode(ex, offset) + (base, Z3_ZERO)\n        # a[i] : hash(a) + i", "mapping key and slot swapped")
mut("C08", "R08.3", "sevm", '            f"storage_{id_str(addr)}_{slot}_{num_keys}_{size_keys}_00",\n            BitVecSorts[size_keys],', '            f"storage_{id_str(addr)}_{num_keys}_{size_keys}_00",\n            BitVecSorts[size_keys],', "base array name without the slot: different mappings alias")
mut("C08", "R08.4", "sevm", "transient_storage=self.fresh_transient_storage(pre_ex),  # empty", "transient_storage=deepcopy(pre_ex.transient_storage),  # empty", "transient storage survives the transaction")
mut("C09", "R09.1", "sevm", "            orig_balance = ex.balance\n\n            # transfer msg.value\n            send_callvalue()\n", "            # transfer msg.value\n            send_callvalue()\n            orig_balance = ex.balance\n", "balance snapshot after the value transfer")
mut("C09", "R09.1", "sevm", "                    new_ex.transient_storage = deepcopy(orig_transient_storage)\n                    new_ex.balance = orig_balance\n\n                # add to worklist even if it reverted", "                    new_ex.balance = orig_balance\n\n                # add to worklist even if it reverted", "transient storage not rolled back")
mut("C09", "R09.2", "sevm", "caller=pranked_caller if op != OP_DELEGATECALL else ex.caller(),", "caller=pranked_caller,", "DELEGATECALL changes msg.sender")
mut("C09", "R09.3", "sevm", "        if ex.message().is_static:\n            raise WriteInStaticContext(ex.context_str())\n\n        if is_bool(val):", "        if is_bool(val):", "SSTORE allowed in static frames")
mut("C09", "R09.5", "sevm", "    effective_ret_size = min(ret_size, actual_ret_size)", "    effective_ret_size = ret_size", "return data copy not truncated")

# ---- C10 / C15
mut("C10", "R10.1", "sevm", "            if unroll_limit_reached_true or unroll_limit_reached_false:\n                self.logs.bounded_loops.append(jid)", "            if unroll_limit_reached_true:\n                self.logs.bounded_loops.append(jid)", "false-side cuts not logged")
mut("C10", "R10.1", "__main__", "            msg = \"incomplete execution due to the specified limit\"\n            warn(f\"{funsig}: {msg}: --width {args.width}\")\n            break", "            break", "--width cut is silent")
mut("C10", "R10.2", "__main__", "        if sevm.logs.bounded_loops:\n            warn_code(\n                LOOP_BOUND,\n                f\"{fun_info.sig}: paths", "        if False:\n            warn_code(\n                LOOP_BOUND,\n                f\"{fun_info.sig}: paths", "target-call loop bound unreported")
mut("C15", "R15.1", "__main__", "    curr_exs = frontier_states[depth - 1]", "    curr_exs = frontier_states[0]", "every depth restarts from the setUp state")
mut("C15", "R15.2", "__main__", "                if post_id in visited:\n                    continue\n", "                if post_id in visited:\n                    break\n", "first revisited state ends the contract's exploration")
mut("C15", "R15.3", "__main__", "                visited.add(post_id)\n", "                visited.add(post_id)\n                if len(next_exs) > 64:\n                    continue\n", "states marked visited but not retained")
mut("C15", "R15.5", "__main__", "post_ex.path.append(post_ex.block.timestamp >= pre_ex.block.timestamp)", "post_ex.path.append(post_ex.block.timestamp > pre_ex.block.timestamp)", "same-block transactions excluded")

# ---- C12 / C13 / C14
mut("C12", "R12.2", "calldata", "(u?int[0-9]*|address|bool|bytes[0-9]*|string|tuple)$", "(u?int[0-9]*|address|bool|bytes[0-9]*|string|tuple|u?fixed[0-9x]*)$", "fixed-point types accepted")
mut("C12", "R12.3", "calldata", 'new_symbol = f"p_{name}_{typ.typ}_{uid()}_{self.new_symbol_id():>02}"', 'new_symbol = f"p_{typ.typ}_{uid()}_{self.new_symbol_id():>02}"', "leaf names without the parameter path")
mut("C12", "R12.4", "calldata", "items = [self.encode(f\"{name}[{i}]\", typ.base) for i in range(max(sizes))]", "items = [self.encode(f\"{name}[{i}]\", typ.base) for i in range(sizes[-1])]", "layout for the last candidate only")
mut("C12", "R12.5", "calldata", "                heads.append(con(total_size))\n                tails.extend(item.data)\n                total_size += item.size", "                total_size += item.size\n                heads.append(con(total_size))\n                tails.extend(item.data)", "offset taken after adding the tail")
mut("C13", "R13.1", "assertions", '0xB12FC005: mk_assert_handler("assertLt(uint256,uint256)"),', '0xB12FC005: mk_assert_handler("assertLt(int256,int256)"),', "selector bound to the signed variant")
mut("C13", "R13.2", "assertions", '    elif bop == "SLt":\n        return v1 < v2', '    elif bop == "SLt":\n        return v1 > v2', "signed less-than inverted")
mut("C13", "R13.3", "assertions", 'sign = "U" if typ == "uint256" else "S"', 'sign = "U" if typ == "int256" else "S"', "signedness derivation inverted")
mut("C13", "R13.5", "cheatcodes", "            elif ex.check(not_cond) != unsat:", "            elif ex.check(not_cond) == sat:", "failing branch dropped on unknown")
mut("C13", "R13.6", "sevm", "                stack.completed_paths += 1\n                yield ex  # early exit; do not call finalize()", "                yield from finalize(ex)  # early exit; do not call finalize()", "cheatcode failure returns to the caller")
mut("C14", "R14.1", "sevm", "        pranked_caller, pranked_origin = ex.resolve_prank(to)\n        arg = ex.st.mslice(arg_loc, arg_size)\n", "        arg = ex.st.mslice(arg_loc, arg_size)\n        pranked_caller, pranked_origin = ex.this(), ex.origin()\n", "prank never consumed by calls")
mut("C14", "R14.2", "cheatcodes", "    roll_sig: int = 0x1F7B4F30", "    roll_sig: int = 0xE5D6BF02", "roll bound to warp's selector")
mut("C14", "R14.2", "cheatcodes", "            ex.block.number = arg.get_word(4)\n            return ret\n\n        # vm.warp", "            ex.block.timestamp = arg.get_word(4)\n            return ret\n\n        # vm.warp", "roll sets the timestamp")
mut("C14", "R14.3", "cheatcodes", 'return ByteVec(int256(create_generic(ex, bits, name, f"int{bits}")))', 'return ByteVec(uint256(create_generic(ex, bits, name, f"int{bits}")))', "intN zero-extended")
mut("C14", "R14.4", "cheatcodes", 'label = f"halmos_{var_name}_{type_name}_{uid()}_{ex.new_symbol_id():>02}"', 'label = f"halmos_{var_name}_{type_name}_{uid()}"', "labels without the per-path counter")

# ---- C17 / C18 / C19 / C20
mut("C17", "R17.1", "processes", "            finally:\n                # ensure process is properly cleaned up for any exception or timeout\n                if self.process:\n                    self.cancel()\n\n                self.set_result((self.stdout, self.stderr, self.returncode))", "            finally:\n                # ensure process is properly cleaned up for any exception or timeout\n                if self.process:\n                    self.cancel()\n\n            self.set_result((self.stdout, self.stderr, self.returncode))", "set_result outside finally")
mut("C17", "R17.3", "processes", "        with self._lock:\n            # the flag must be checked under the lock, otherwise shutdown(wait=False)\n            # can sweep self._futures between the check and the registration\n            if self._shutdown.is_set():\n                raise ShutdownError()\n\n            self._futures.append(future)", "        if self._shutdown.is_set():\n            raise ShutdownError()\n\n        with self._lock:\n            self._futures.append(future)", "flag read outside the lock")
mut("C17", "R17.2", "solve", "    except subprocess.TimeoutExpired:\n        return SolverOutput(\n            result=unknown,", "    except subprocess.TimeoutExpired:\n        return SolverOutput(\n            result=unsat,", "timeout -> unsat")
mut("C18", "R18.1", "config", "    contract_annotation = 3\n\n    # function-level annotation (e.g. @custom:halmos --some-option)\n    function_annotation = 4", "    contract_annotation = 4\n\n    # function-level annotation (e.g. @custom:halmos --some-option)\n    function_annotation = 3", "contract annotations beat function annotations")
mut("C18", "R18.2", "config", "(current_source := current._source) > best_source", "(current_source := current._source) >= best_source", "oldest layer wins among equals")
mut("C18", "R18.3", "__main__", "    source = ConfigSource.function_annotation\n    return args.with_overrides(source, **vars(overrides))", "    source = ConfigSource.contract_annotation\n    return args.with_overrides(source, **vars(overrides))", "devdoc layered as contract annotation")
mut("C18", "R18.4", "__main__", "            test_config = with_devdoc(args, funsig, ctx.contract_json)", "            args = test_config = with_devdoc(args, funsig, ctx.contract_json)", "function annotation leaks to later tests")
mut("C18", "R18.5", "config", '        return f"{float(value)!r}s"', '        return f"{int(value)}s"', "timeout truncated on unparse")
mut("C18", "R18.6", "utils", "        if arg.endswith(\"ms\"):\n            return float(arg[:-2]) / 1000\n        elif arg.endswith(\"s\"):\n            return float(arg[:-1])", "        if arg.endswith(\"s\"):\n            return float(arg[:-1])\n        elif arg.endswith(\"ms\"):\n            return float(arg[:-2]) / 1000", "`s` shadows `ms`")
mut("C19", "R19.1", "contract", "return 1 + (opcode - OP_PUSH0) * (OP_PUSH1 <= opcode <= OP_PUSH32)", "return 1 + (opcode - OP_PUSH0) * (OP_PUSH1 <= opcode < OP_PUSH32)", "PUSH32 has length 1")
mut("C19", "R19.2", "contract", "                    else:\n                        pc += insn_len(opcode)", "                    else:\n                        pc += 1", "scanner walks into PUSH data")
mut("C19", "R19.3", "sevm", "                        if target not in ex.pgm.valid_jumpdests():\n                            raise InvalidJumpDestError(target)\n\n                        # we just validated that this is indeed a JUMPDEST so we can safely skip it\n                        ex.advance(pc=target + 1)\n                        next_ex = ex\n                        continue", "                        # we just validated that this is indeed a JUMPDEST so we can safely skip it\n                        ex.advance(pc=target + 1)\n                        next_ex = ex\n                        continue", "JUMPI with concrete true condition unchecked")
mut("C19", "R19.5", "utils", '    EVM.SLT: "SLT",', '    EVM.SLT: "SGT",', "mnemonic table mislabels SLT")
mut("C19", "R19.7", "contract", '                    opcode = int_of(bytecode[pc], f"symbolic opcode at pc={pc}")', '                    opcode = bytecode[pc]\n                    if type(opcode) is not int:\n                        raise NotConcreteError(f"symbolic opcode at pc={pc}")', "scanner stricter than decoder")
mut("C20", "R20.1", "sevm", "            storage=deepcopy(ex.storage),\n            transient_storage=deepcopy(ex.transient_storage),\n            balance=ex.balance,\n            #\n            block=deepcopy(ex.block),\n            #\n            context=deepcopy(ex.context),", "            storage=ex.storage,\n            transient_storage=deepcopy(ex.transient_storage),\n            balance=ex.balance,\n            #\n            block=deepcopy(ex.block),\n            #\n            context=deepcopy(ex.context),", "siblings share storage")
mut("C20", "R20.1", "sevm", "return State(stack=self.stack.copy(), memory=self.memory.copy())", "return State(stack=self.stack.copy(), memory=self.memory)", "siblings share memory")
mut("C20", "R20.2", "sevm", "            fail_ex.st.push(ZERO)\n            fail_ex.advance()", "            fail_ex.balance_of(caller)\n            fail_ex.st.push(ZERO)\n            fail_ex.advance()", "inactive path touched before activation")
mut("C20", "R20.3", "__main__", "                path = Path(solver)\n                path.extend_path(ex.path)\n                path.process_dyn_params(dyn_params)\n", "                path = ex.path\n                path.process_dyn_params(dyn_params)\n", "tests share the setUp path object")
mut("C20", "R20.5", "sevm", 'f"balance_{uid()}_{1 + len(self.balances):>02}"', 'f"balance_{1 + len(self.balances):>02}" + ("" if uid() else "x")', "uid used outside a name")

# ---- rounds 4/5: clauses found unguarded while testing the NamedTuple erasure and by the adversarial seed round
mut("C14", "R14.1", "sevm", "        return caller, origin\n", "        return origin, caller\n", "resolve_prank returns the pair in the other order")
mut("C02", "R02.10", "sevm", "        ex.path.append(cond, branching=True)\n        ex.alias[target] = addr\n", "        ex.path.append(cond, branching=True)\n        ex.alias[target] = cond\n", "alias records the condition instead of the address")
mut("C09", "R09.7", "exceptions", "class OutOfGasError(ExceptionalHalt):", "class OutOfGasError(HalmosException):", "EVM failure class becomes a tool limit")
mut("C14", "R14.6", "sevm", "                    new_ex.balance = orig_balance\n", "                    new_ex.balance = orig_balance\n                    new_ex.block = deepcopy(ex.block)\n", "block environment rolled back with a failed sub-call")
mut("C16", "R16.8", "solve", "        self.solving_ctx.unsat_cores.append(unsat_core)\n", "        for known in self.solving_ctx.unsat_cores:\n            if set(unsat_core) <= set(known):\n                known.clear()\n                known.extend(unsat_core)\n                return\n        self.solving_ctx.unsat_cores.append(unsat_core)\n", "recorded core shrunk in place")
mut("C20", "R20.10", "solve", "    executor: PopenExecutor = field(default_factory=PopenExecutor)", "    executor: PopenExecutor = PopenExecutor()", "one executor shared by every context")
mut("C13", "R13.9", "sevm", "        if not is_eq(cond):\n            return\n        left, right = cond.arg(0), cond.arg(1)", "        if is_not(cond):\n            return self.process_cond(cond.arg(0))\n        if not is_eq(cond):\n            return\n        left, right = cond.arg(0), cond.arg(1)", "equalities learnt under a negation")
mut("C05", "R05.7", "__main__", "        solver_output: SolverOutput = self._get_solver_output(future, path_ctx)\n        ctx.solver_outputs.append(solver_output)\n", "        solver_output: SolverOutput = self._get_solver_output(future, path_ctx)\n        if solver_output.result == unsat and not solver_output.unsat_core:\n            return\n        ctx.solver_outputs.append(solver_output)\n", "output recorded only on some paths")
mut("C12", "R12.8", "__main__", "        path = Path(solver)\n        path.extend_path(ex.path)\n\n        # prepare calldata and dynamic parameters\n        calldata, dyn_params = mk_calldata(\n            abi, fun_info, args, new_symbol_id=ex.new_symbol_id\n        )\n        path.process_dyn_params(dyn_params)\n", "        path = Path(solver)\n\n        # prepare calldata and dynamic parameters\n        calldata, dyn_params = mk_calldata(\n            abi, fun_info, args, new_symbol_id=ex.new_symbol_id\n        )\n        path.process_dyn_params(dyn_params)\n        path.extend_path(ex.path)\n", "candidates registered before the path is extended")

# ---- round 7: clauses added after the seventh held-out seed round
mut("C09", "R02.7", "sevm", "        if value == ZERO:\n            return\n\n        insufficiency_cond", "        if value == ZERO:\n            return\n        if message.is_static:\n            return\n\n        insufficiency_cond", "funds split skipped by a test that is not over the value")
mut("C02", "R02.7", "sevm", "        if value == ZERO:\n            return\n\n        insufficiency_cond", "        if value == ZERO or caller == message.target:\n            return\n\n        insufficiency_cond", "funds split skipped for a transfer to oneself")
mut("C11", "R04.2", "solve", "        smtlib,\n    )\n\n    return SMTQuery(smtlib, query.assertions)", "        smtlib,\n        1,\n    )\n\n    return SMTQuery(smtlib, query.assertions)", "only the first division abstraction is defined")
mut("C13", "R13.2", "assertions", "    # now both arguments are non-empty\n", "    # now both arguments are non-empty\n    if isinstance(v1, bytes) and isinstance(v2, bytes) and bop == \"Eq\":\n        return BoolVal(v1.lstrip(b\"\\x00\") == v2.lstrip(b\"\\x00\"))\n", "concrete operands compared without their length")
mut("C19", "R19.8", "contract", "            operand = uint256(self.unwrapped_slice(pc + 1, next_pc))", "            operand = uint256(BV(self._fastcode[pc + 1 : next_pc])) if self._fastcode else uint256(self.unwrapped_slice(pc + 1, next_pc))", "truncated PUSH operand read without zero padding")
