"""Path summaries of statement blocks: a syntax-directed walk, no execution and no solver.

`summarise(fn)` / `summarise_block(stmts)` enumerate the syntactic paths of a block and describe each one as

    Path(trace, kind, value, env)

  trace    the events on the path, in evaluation order:
             ('c', text)   a branch decision, as a normalised condition text (see `cond_text`);  `a and b`, `a or b`,
                           `not a` and conditional expressions are expanded the way Python short-circuits them, so
                           `if a and b: X` and `if a: if b: X` have the same paths, and `return p if c else q` has the
                           same paths as `if c: return p` / `return q` (with or without `else`)
             ('e', text)   an effect: a call made as a statement, an attribute/subscript store, a yield, a delete
             ('a', text)   an assert
             ('loop', header, body summary)   a loop, summarised recursively (sorted path descriptions of its body)
             ('try',) ('endtry',) ('except', type) ('finally',) ('with', item) ('endwith',)   block structure
  kind     'return' | 'raise' | 'fall' | 'break' | 'continue';  value = returned / raised expression text
  env      for 'fall' paths: the final values of the locals bound on the path

Locals are substituted by their (path-specific) defining expressions, so the result does not depend on local names,
on hoisting into temporaries, or on the shape of the branching.  Diagnostics (debug/logging calls) are not events.
Blocks with more than `max_paths` paths are not summarised (None).
"""

from __future__ import annotations

import ast
import copy
from dataclasses import dataclass

from hsa.core import src
from hsa.flow import _NEG

DIAGNOSTIC_CALLS = {"debug", "logger.debug", "logging.debug", "debug_once"}


@dataclass(frozen=True)
class Path:
    trace: tuple
    kind: str
    value: str
    env: tuple = ()

    @property
    def conds(self) -> tuple:
        return tuple(e[1] for e in self.trace if e[0] == "c")

    @property
    def effects(self) -> tuple:
        return tuple(e[1] if e[0] == "e" else " ".join(str(x) for x in e) for e in self.trace if e[0] not in ("c", "a"))

    @property
    def asserts(self) -> tuple:
        return tuple(e[1] for e in self.trace if e[0] == "a")

    def has(self, *texts) -> bool:
        return all(t in self.conds for t in texts)


class TooMany(Exception):
    pass


def cond_text(test: ast.AST, pol: bool) -> str:
    if isinstance(test, ast.Compare) and len(test.ops) == 1:
        op = type(test.ops[0])
        left, right = test.left, test.comparators[0]
        if not pol and op in _NEG:
            op = _NEG[op]
            pol = True
        # canonical direction for order comparisons: a > b  ==  b < a ; a >= b  ==  b <= a
        if op is ast.Gt:
            op, left, right = ast.Lt, right, left
        elif op is ast.GtE:
            op, left, right = ast.LtE, right, left
        if op in (ast.In, ast.NotIn) and isinstance(right, (ast.List, ast.Tuple, ast.Set)):
            right = ast.Set(elts=sorted(right.elts, key=src))
        t = src(ast.Compare(left=left, ops=[op()], comparators=[right]))
        return t if pol else f"not ({t})"
    if isinstance(test, ast.Constant):
        return repr(bool(test.value) == pol)
    return src(test) if pol else f"not ({src(test)})"


# building or inspecting an (immutable) z3 term does not read program state
TERM_CONSTRUCTORS = {
    "BitVecVal", "BoolVal", "If", "simplify", "ZeroExt", "SignExt", "Extract", "Concat", "Not", "And", "Or", "con", "is_bv_value",
    "is_bv", "is_bool", "is_true", "is_false", "ULT", "ULE", "UGT", "UGE", "UDiv", "URem", "SRem", "LShR", "Select", "Store", "eq",
}
PURITY = None  # hsa.purity.Purity of the analysed tree (set by hsa.core.Repo); None: every unknown call changes state
MUTABLE_ATTRS: set | None = None  # attribute names stored to outside constructors (set by hsa.align); None: all


def position_dependent(v) -> bool:
    """does evaluating v read state that an intervening effect could have changed?"""
    stack = [v]
    while stack:
        n = stack.pop()
        if isinstance(n, ast.Call):
            f = n.func
            if isinstance(f, ast.Name) and f.id.startswith("@stale"):
                continue  # already marked: what remains around it is evaluated from values, not from state
            if not (isinstance(f, ast.Name) and (f.id in TERM_CONSTRUCTORS or f.id.startswith("@"))):
                return True  # even len(x) reads the state of x
        elif isinstance(n, ast.Subscript):
            return True
        elif isinstance(n, ast.Attribute) and (MUTABLE_ATTRS is None or n.attr in MUTABLE_ATTRS):
            return True
        stack.extend(ast.iter_child_nodes(n))
    return False


def _readonly(value) -> bool:
    if PURITY is not None:
        return PURITY.expr_is_readonly(value)
    return _effect_free(value, at="@")


def _ticks(trace) -> int:
    return sum(1 for e in trace if e[0] in ("e", "loop", "with", "def", "class"))


class _Sub(ast.NodeTransformer):
    """substitute environment values for loaded names; names bound inside comprehensions/lambdas shadow"""

    def __init__(self, env):
        self.env = env
        self.shadow: list[set] = []

    def visit_Name(self, node):
        if isinstance(node.ctx, ast.Load) and node.id in self.env and not any(node.id in s for s in self.shadow):
            v = self.env[node.id]
            if isinstance(v, ast.AST):
                v = copy.deepcopy(v)
                # a value that reads mutable state, used after something may have changed that state, is not the
                # same as evaluating the expression at the point of use
                bt = (self.env.get("__bt") or {}).get(node.id, 0)
                if self.env.get("__t", 0) > bt and position_dependent(v):
                    if not (isinstance(v, ast.Call) and isinstance(v.func, ast.Name) and v.func.id.startswith("@stale")):
                        # marked with the logical time of the binding: evaluated after that many state changes
                        v = ast.Call(func=ast.Name(id=f"@stale{max(bt, 0)}", ctx=ast.Load()), args=[v], keywords=[])
                return v
        return node

    def _comp(self, node):
        bound = set()
        for g in node.generators:
            for n in ast.walk(g.target):
                if isinstance(n, ast.Name):
                    bound.add(n.id)
        first = node.generators[0]
        first.iter = self.visit(first.iter)  # evaluated in the enclosing scope
        self.shadow.append(bound)
        try:
            for i, g in enumerate(node.generators):
                if i:
                    g.iter = self.visit(g.iter)
                g.ifs = [self.visit(x) for x in g.ifs]
            if isinstance(node, ast.DictComp):
                node.key = self.visit(node.key)
                node.value = self.visit(node.value)
            else:
                node.elt = self.visit(node.elt)
        finally:
            self.shadow.pop()
        return node

    visit_ListComp = visit_SetComp = visit_GeneratorExp = visit_DictComp = _comp

    def visit_Lambda(self, node):
        a = node.args
        bound = {x.arg for x in [*a.posonlyargs, *a.args, *a.kwonlyargs]}
        self.shadow.append(bound)
        try:
            node.body = self.visit(node.body)
        finally:
            self.shadow.pop()
        return node


def _stored_names(stmts) -> set[str]:
    out = set()
    for b in stmts:
        for n in ast.walk(b):
            if isinstance(n, ast.Name) and isinstance(n.ctx, (ast.Store, ast.Del)):
                out.add(n.id)
            elif isinstance(n, ast.ExceptHandler) and n.name:
                out.add(n.name)
    return out


PURE_CALLS = {
    "len", "int", "bool", "str", "bytes", "tuple", "list", "dict", "set", "frozenset", "min", "max", "abs", "isinstance",
    "range", "sorted", "reversed", "enumerate", "zip", "type", "id",
    # z3 / halmos term constructors: building a term has no effect on program state
    "BitVecVal", "BoolVal", "If", "simplify", "ZeroExt", "SignExt", "Extract", "Concat", "Not", "And", "Or", "con",
    "is_bv_value", "is_bv", "is_bool", "is_true", "is_false", "as_int",
}
MUTATORS = {"append", "extend", "add", "update", "insert"}
_parsed: dict[str, object] = {}


def _classify(text: str):
    """('store', target text, value node) | ('mut', receiver text, call node) | None"""
    if text in _parsed:
        return _parsed[text]
    out = None
    try:
        node = ast.parse(text.replace("@", "_AT_")).body[0]
        if isinstance(node, ast.Assign) and len(node.targets) == 1 and isinstance(node.targets[0], ast.Attribute) and isinstance(node.targets[0].value, ast.Name):
            out = ("store", ast.unparse(node.targets[0]), node.value)
        elif isinstance(node, ast.Expr) and isinstance(node.value, ast.Call) and isinstance(node.value.func, ast.Attribute) and node.value.func.attr in MUTATORS:
            recv = node.value.func.value
            # only fresh local containers (identity-tagged) are known not to alias anything else
            inner = recv.args[0] if isinstance(recv, ast.Call) and isinstance(recv.func, ast.Name) and recv.func.id.startswith("_AT_") and recv.args else recv
            if isinstance(inner, (ast.List, ast.Dict, ast.Set)):
                out = ("mut", ast.unparse(recv), node.value)
    except SyntaxError:
        out = None
    _parsed[text] = out
    return out


def _effect_free(node, at="_AT_") -> bool:
    for n in ast.walk(node):
        if isinstance(n, ast.Call):
            f = n.func
            if isinstance(f, ast.Name) and (f.id in PURE_CALLS or f.id.startswith(at)):
                continue
            return False
        if isinstance(n, (ast.Yield, ast.YieldFrom, ast.Await, ast.NamedExpr)):
            return False
    return True


def _commute(e1, e2) -> bool:
    if e1[0] != "e" or e2[0] != "e":
        return False
    a, b = _classify(e1[1]), _classify(e2[1])
    if a is None or b is None:
        return False
    (ka, ta, va), (kb, tb, vb) = a, b
    if ta == tb:
        return False
    pa = va.args if ka == "mut" else [va]
    pb = vb.args if kb == "mut" else [vb]
    fa, fb = all(_effect_free(x) for x in pa), all(_effect_free(x) for x in pb)
    if not fa and not fb:
        return False
    if ka == "mut" or kb == "mut":
        if not (fa and fb):
            return False
    else:
        # two attribute stores, one of them computed by a call with unknown effects: the call must not be able to see
        # the object being initialised (no method call on it, not passed as an argument)
        obj_a, obj_b = ta.split(".")[0], tb.split(".")[0]
        for vals, ok in ((pa, fa), (pb, fb)):
            if ok:
                continue
            for x in vals:
                for n in ast.walk(x):
                    if isinstance(n, ast.Call):
                        if isinstance(n.func, ast.Attribute) and isinstance(n.func.value, ast.Name) and n.func.value.id in (obj_a, obj_b):
                            return False
                        if any(isinstance(a, ast.Name) and a.id in (obj_a, obj_b) for a in [*n.args, *[k.value for k in n.keywords]]):
                            return False
    # neither reads what the other writes
    txa = " ".join(ast.unparse(x) for x in pa)
    txb = " ".join(ast.unparse(x) for x in pb)
    return ta not in txb and tb not in txa


def canon_trace(trace: tuple, final: str = "") -> tuple:
    """adjacent independent effects (stores to different attributes, mutations of different fresh containers, with
    effect-free operands) are put in a canonical order; the evaluation event of a call whose result is consumed by the
    very next event (`x = f(); g(x)` vs `g(f())`) is merged into it"""
    ev = [e for e in trace if e[0] != "a"]
    merged = []
    for i, e in enumerate(ev):
        if e[0] == "e" and isinstance(e[1], str) and e[1].startswith("_ := "):
            v = e[1][5:]
            nxt = ev[i + 1] if i + 1 < len(ev) else None
            nxt_text = " ".join(str(x) for x in nxt[1:]) if nxt is not None else final
            if v and v in nxt_text and not (nxt is not None and nxt[0] == "e" and str(nxt[1]).startswith("_ := ")):
                continue
        merged.append(e)
    ev = merged
    n = len(ev)
    changed = True
    while changed:
        changed = False
        for i in range(n - 1):
            if ev[i][0] == "e" and ev[i + 1][0] == "e" and ev[i + 1][1] < ev[i][1] and _commute(ev[i], ev[i + 1]):
                ev[i], ev[i + 1] = ev[i + 1], ev[i]
                changed = True
    return tuple(ev)




def _load_counter(stmts):
    """Counter of names read anywhere except inside diagnostic call statements and asserts"""
    from collections import Counter

    out: Counter = Counter()

    def visit(n):
        if isinstance(n, ast.Expr) and isinstance(n.value, ast.Call) and src(n.value.func) in DIAGNOSTIC_CALLS:
            return
        if isinstance(n, ast.Assert):
            return
        if isinstance(n, ast.Name) and isinstance(n.ctx, ast.Load):
            out[n.id] += 1
        for c in ast.iter_child_nodes(n):
            visit(c)

    for s in stmts:
        visit(s)
    return out


def _load_nodes(stmts) -> list:
    """Name nodes read anywhere except inside diagnostic call statements and asserts (with positions)"""
    out = []

    def visit(n):
        if isinstance(n, ast.Expr) and isinstance(n.value, ast.Call) and src(n.value.func) in DIAGNOSTIC_CALLS:
            return
        if isinstance(n, ast.Assert):
            return
        if isinstance(n, ast.Name) and isinstance(n.ctx, ast.Load) and hasattr(n, "lineno"):
            out.append(n)
        for c in ast.iter_child_nodes(n):
            visit(c)

    for s in stmts:
        visit(s)
    return out


def nondiagnostic_loads(stmts) -> set[str]:
    return set(_load_counter(stmts))


def _loop_carried(loop) -> set[str]:
    """names whose first occurrence in the loop (test and body, source order) is a read: their value at the end of an
    iteration matters to the next one"""
    first: dict[str, bool] = {}
    nodes = []
    roots = ([loop.test] if isinstance(loop, ast.While) else []) + list(loop.body)
    for r in roots:
        for n in ast.walk(r):
            if isinstance(n, ast.Name):
                nodes.append(n)
    # in `x = x + 1` the read precedes the write although it is to its right
    def key(n):
        return (n.lineno, 0 if isinstance(n.ctx, ast.Load) else 1, n.col_offset)

    for n in sorted(nodes, key=key):
        first.setdefault(n.id, isinstance(n.ctx, ast.Load))
    aug = {n.target.id for r in roots for n in ast.walk(r) if isinstance(n, ast.AugAssign) and isinstance(n.target, ast.Name)}
    # the targets of a for loop are rebound at the start of every iteration: never carried over
    targets = {n.id for n in ast.walk(loop.target) if isinstance(n, ast.Name)} if isinstance(loop, (ast.For, ast.AsyncFor)) else set()
    return ({k for k, v in first.items() if v} | aug) - targets


class Summariser:
    def __init__(self, max_paths=2000, liveset: set[str] | None = None, steps: list | None = None, shared: dict | None = None):
        self.max_paths = max_paths
        self.liveset = liveset  # None: every local counts
        self.paths: list[Path] = []
        self.steps = steps if steps is not None else [0]  # shared work counter (statements evaluated)
        # shared between the summariser of a block and those of its nested loop bodies:
        #   'asserts': assert texts seen inside loop bodies; 'loads': Counter of non-diagnostic loads of the root block;
        #   'outside': names live after the root block
        self.shared = shared if shared is not None else {"asserts": set(), "loads": None, "outside": set()}

    MAX_STEPS = 12000

    # state: (env dict, trace tuple)
    def subst(self, e, env):
        need = False
        fstr = False
        for n in ast.walk(e):
            if isinstance(n, ast.Name):
                if not n.id.startswith("__") and isinstance(env.get(n.id), ast.AST):
                    need = True
            elif isinstance(n, ast.JoinedStr):
                fstr = True
        if not need and not fstr:
            return e  # shared, never mutated
        out = _Sub(env).visit(copy.deepcopy(e)) if need else copy.deepcopy(e)
        if fstr or any(isinstance(n, (ast.JoinedStr, ast.ListComp)) for n in ast.walk(out)):
            out = _Flat().visit(out)
        return out

    def _budget(self, extra=0):
        if len(self.paths) + extra > self.max_paths:
            raise TooMany

    # -- conditions: returns list of (state, truth)
    def branch(self, test, st, substituted=False):
        env, trace = st
        if isinstance(test, ast.UnaryOp) and isinstance(test.op, ast.Not):
            return [(s, not t) for s, t in self.branch(test.operand, st, substituted)]
        if isinstance(test, ast.BoolOp):
            is_and = isinstance(test.op, ast.And)
            pending = [(st, None)]
            for v in test.values:
                nxt = []
                for s, t in pending:
                    if t is None or t == is_and:
                        nxt.extend(self.branch(v, s, substituted))
                    else:
                        nxt.append((s, t))
                pending = nxt
            return pending
        if isinstance(test, ast.IfExp):
            out = []
            for s, t in self.branch(test.test, st, substituted):
                out.extend(self.branch(test.body if t else test.orelse, s, substituted))
            return out
        rewritten = _expand_test(test)
        if rewritten is not None:
            return self.branch(rewritten, st, substituted)
        if not substituted:
            if isinstance(test, ast.NamedExpr) and isinstance(test.target, ast.Name):
                val = self.subst(test.value, env)
                env2 = dict(env)
                self.bind(test.target, val, env2)
                tr2 = trace if _readonly(test.value) else trace + (("e", f"_ := {src(val)}"),)
                self._bound_now(env2, test.target.id, tr2)
                return self.branch(env2[test.target.id], (env2, tr2), True)
            if isinstance(test, ast.Compare) and len(test.ops) == 1 and isinstance(test.left, ast.NamedExpr) and isinstance(test.left.target, ast.Name):
                val = self.subst(test.left.value, env)
                env2 = dict(env)
                self.bind(test.left.target, val, env2)
                tr2 = trace if _readonly(test.left.value) else trace + (("e", f"_ := {src(val)}"),)
                self._bound_now(env2, test.left.target.id, tr2)
                val = env2[test.left.target.id]
                new = ast.Compare(left=val, ops=test.ops, comparators=[self.subst(c, env2) for c in test.comparators])
                return self.branch(new, (env2, tr2), True)
            # one `:=` nested in the (leaf) test, evaluated unconditionally: bind it, then test with its value
            nested = [n for n in ast.walk(test) if isinstance(n, ast.NamedExpr)]
            if len(nested) == 1 and isinstance(nested[0].target, ast.Name) and _unconditional_in(test, nested[0]) and sum(1 for n in ast.walk(test) if isinstance(n, ast.Name) and n.id == nested[0].target.id) == 1:
                w = nested[0]
                val = self.subst(w.value, env)
                env2 = dict(env)
                self.bind(w.target, val, env2)
                tr2 = trace if _readonly(w.value) else trace + (("e", f"_ := {src(val)}"),)
                self._bound_now(env2, w.target.id, tr2)
                replaced = _replace_node(test, w, ast.Name(id=w.target.id, ctx=ast.Load()))
                return self.branch(replaced, (env2, tr2), False)
            e = self.subst(test, env)
            if isinstance(e, (ast.BoolOp, ast.IfExp)) or (isinstance(e, ast.UnaryOp) and isinstance(e.op, ast.Not)):
                return self.branch(e, st, True)
        else:
            e = test
        if isinstance(e, ast.Constant):
            return [(st, bool(e.value))]
        conds = {ev[1] for ev in trace if ev[0] == "c"}
        out = []
        for pol in (True, False):
            t = cond_text(e, pol)
            if cond_text(e, not pol) in conds:
                continue  # contradicts a decision already taken on this path
            if t in conds:
                out.append((st, pol))
            else:
                out.append(((env, trace + (("c", t),)), pol))
        return out

    # -- values: expand top-level conditional expressions into paths
    def values(self, e, st, substituted=False):
        """[(state, value ast)]"""
        if isinstance(e, ast.UnaryOp) and isinstance(e.op, ast.Not) and isinstance(e.operand, ast.BoolOp):
            # De Morgan: `not (a or b)` is `not a and not b` (both are booleans; the operands are evaluated alike)
            inner = e.operand
            flipped = ast.BoolOp(op=ast.And() if isinstance(inner.op, ast.Or) else ast.Or(), values=[ast.UnaryOp(op=ast.Not(), operand=v) for v in inner.values])
            return self.values(ast.copy_location(flipped, e), st, substituted)
        if isinstance(e, ast.BoolOp) and len(e.values) >= 2:
            # `a or b` is `a if a else b`; `a and b` is `b if a else a`
            first, rest = e.values[0], (e.values[1] if len(e.values) == 2 else ast.BoolOp(op=e.op, values=e.values[1:]))
            out = []
            for s, t in self.branch(first, st, substituted):
                keep_first = t if isinstance(e.op, ast.Or) else not t
                if keep_first and _is_boolish(first if substituted else self.subst(first, st[0])):
                    # the value of a boolean expression known to be true / false is True / False
                    out.append((s, ast.Constant(value=bool(t))))
                else:
                    out.extend(self.values(first if keep_first else rest, s, substituted))
            return out
        if isinstance(e, ast.IfExp):
            out = []
            for s, t in self.branch(e.test, st, substituted):
                out.extend(self.values(e.body if t else e.orelse, s, substituted))
            return out
        if substituted:
            return [(st, e)]
        v = self.subst(e, st[0])
        if isinstance(v, ast.IfExp):
            return self.values(v, st, True)
        return [(st, v)]

    # -- statements
    def block(self, stmts, states):
        """returns the states that fall through"""
        cur = states
        for s in stmts:
            if not cur:
                break
            nxt = []
            for st in cur:
                for st2 in self.stmt(s, st):
                    nxt.append(self._clock(st2))
            cur = nxt
            self._budget(len(cur))
        return cur

    @staticmethod
    def _clock(st):
        """advance the logical clock of a state to its trace and fix the bind time of what was just bound"""
        env, trace = st
        t = env.get("__tb", 0) + _ticks(trace) + env.get("__ib", 0)
        bt = env.get("__bt") or {}
        if env.get("__t") != t or -1 in bt.values():
            env = dict(env)
            env["__t"] = t
            if -1 in bt.values():
                env["__bt"] = {k: (t if v == -1 else v) for k, v in bt.items()}
        return env, trace

    def emit(self, st, kind, value):
        env, trace = st
        self.paths.append(Path(trace, kind, value))
        self._budget()

    def _tag(self, target, value, env):
        """values with identity (the result of a call, a fresh container) keep it under substitution: the k-th local
        bound on this path to the *same expression text* is wrapped as @k(value) for k >= 2, so that
        `a = []; b = []; a.append(x)` and `...; b.append(x)` differ"""
        if value is None:
            return value
        fresh = isinstance(value, (ast.List, ast.Dict, ast.Set, ast.ListComp, ast.DictComp, ast.SetComp)) or not _effect_free(value, at="@")
        if not fresh:
            return value
        if isinstance(value, ast.Call) and isinstance(value.func, ast.Name) and value.func.id.startswith("@"):
            return value
        txt = src(value)
        seen = env.get("__n") or {}
        k = seen.get(txt, 0) + 1
        env["__n"] = {**seen, txt: k}
        if k == 1:
            return value  # the first evaluation of this expression on the path needs no mark
        return ast.Call(func=ast.Name(id=f"@{k}", ctx=ast.Load()), args=[value], keywords=[])

    @staticmethod
    def _bound_now(env, name, trace):
        """a name bound by `:=` inside a condition is bound at the clock of that point, not at the end of the statement"""
        bt = dict(env.get("__bt") or {})
        bt[name] = env.get("__tb", 0) + _ticks(trace) + env.get("__ib", 0)
        env["__bt"] = bt

    def bind(self, target, value, env, tagged=False):
        if not tagged:
            if isinstance(target, (ast.Tuple, ast.List)) and isinstance(value, (ast.Tuple, ast.List)) and len(value.elts) == len(target.elts):
                pass  # element-wise below
            else:
                value = self._tag(target, value, env)
                tagged = True
        if isinstance(target, ast.Name):
            env[target.id] = value
            bt = dict(env.get("__bt") or {})
            bt[target.id] = -1  # fixed to the clock at the end of the statement (see block)
            env["__bt"] = bt
        elif isinstance(target, (ast.Tuple, ast.List)):
            if isinstance(value, (ast.Tuple, ast.List)) and len(value.elts) == len(target.elts) and not any(isinstance(x, ast.Starred) for x in [*target.elts, *value.elts]):
                for t, v in zip(target.elts, value.elts):
                    self.bind(t, v, env)
            else:
                for i, t in enumerate(target.elts):
                    if isinstance(t, ast.Starred):
                        self.bind(t.value, None, env, True)
                    else:
                        self.bind(t, ast.Subscript(value=value, slice=ast.Constant(value=i), ctx=ast.Load()) if value is not None else None, env, True)

    loop_stored = None  # set on the summariser of a loop body: `continue` is the same as reaching the end of the body

    def sub_summary(self, stmts, env, loop=False, loop_node=None) -> str:
        """canonical text of the paths of a nested block (loop body)"""
        inner = Summariser(self.max_paths, self.liveset, self.steps, self.shared)
        inner.paths = []
        stored = _stored_names(stmts)
        if self.liveset is not None:
            stored &= self.liveset
        if loop_node is not None and self.shared["loads"] is not None:
            # only what is read after the loop, or carried from one iteration to the next, is part of the result
            end = getattr(loop_node, "end_lineno", None)
            outer = self.shared.setdefault("loop_stack", [])
            if end is not None and self.shared.get("root") is not None:
                after = set(self.shared["outside"])
                for n in self.shared["root_loads"]:
                    if n.lineno > end or any(o.lineno <= n.lineno <= (o.end_lineno or o.lineno) for o in outer):
                        after.add(n.id)
            else:
                inside = _load_counter([loop_node])
                after = {k for k, v in (self.shared["loads"] - inside).items() if v > 0} | self.shared["outside"]
            stored &= after | _loop_carried(loop_node)
            outer.append(loop_node)
            pushed = True
        else:
            pushed = False
        inner.loop_stored = stored if loop else None
        try:
            rest = inner.block(stmts, [(dict(env), ())])
        finally:
            if pushed:
                self.shared["loop_stack"].pop()
        for e2, tr in rest:
            inner.paths.append(Path(tr, "fall", "", _env_text(e2, stored)))
        self._budget(len(inner.paths))
        for p in inner.paths:
            self.shared["asserts"].update(p.asserts)
        return " || ".join(sorted(describe_path(p, asserts=False) for p in inner.paths))

    def stmt(self, s, st):
        env, trace = st
        self.steps[0] += 1
        if self.steps[0] > self.MAX_STEPS:
            raise TooMany
        if isinstance(s, ast.Return):
            if s.value is None:
                self.emit(st, "return", "None")
            else:
                for s2, v in self.values(s.value, st):
                    self.emit(s2, "return", src(v))
            return []
        if isinstance(s, ast.Raise):
            txt = src(self.subst(s.exc, env)) if s.exc else "<reraise>"
            if s.cause is not None:
                txt += f" from {src(self.subst(s.cause, env))}"
            self.emit(st, "raise", txt)
            return []
        if isinstance(s, ast.If):
            out = []
            for s2, t in self.branch(s.test, st):
                out.extend(self.block(s.body if t else s.orelse, [self._clock(s2)]))
            return out
        if isinstance(s, ast.Assert):
            return [(env, trace + (("a", src(self.subst(s.test, env))),))]
        if isinstance(s, (ast.Assign, ast.AnnAssign)):
            if isinstance(s, ast.AnnAssign):
                if s.value is None:
                    return [st]
                targets = [s.target]
            else:
                targets = s.targets
            out = []
            impure = not _readonly(s.value)  # judged on the expression as written: substituted text is not re-evaluated
            for (env2, tr2), v in self.values(s.value, st):
                env3 = dict(env2)
                tr3 = tr2
                if impure:
                    # evaluating a call that may change state is an event of its own, wherever its result is used
                    tr3 = tr3 + (("e", f"_ := {src(v)}"),)
                for t in targets:
                    if isinstance(t, (ast.Name, ast.Tuple, ast.List)):
                        self.bind(t, v, env3)
                        if any(isinstance(n, (ast.Attribute, ast.Subscript)) for n in ast.walk(t)):
                            # unpacking into attributes / items stores them
                            tr3 = tr3 + (("e", f"{src(self.subst(_as_load(t), env2))} = {src(v)}"),)
                        # a variable captured by a nested function is read when that function runs: where it is
                        # bound, relative to the effects around it, is part of the behaviour
                        cap = self.shared.get("captured") or ()
                        for n in ast.walk(t):
                            if isinstance(n, ast.Name) and n.id in cap:
                                tr3 = tr3 + (("e", f"{n.id} := {src(v)}"),)
                        if self.liveset is not None and any(isinstance(n, ast.Call) for n in ast.walk(v)):
                            tn = {n.id for n in ast.walk(t) if isinstance(n, ast.Name)}
                            if not (tn & self.liveset):
                                tr3 = tr3 + (("e", f"_ = {src(v)}"),)  # a call whose result is never read
                    else:
                        vt = src(v)
                        if len(targets) > 1 and t is not targets[0] and not isinstance(v, (ast.Constant, ast.Name)):
                            vt = f"@same_object_as({src(self.subst(targets[0], env2))})"  # a = b = f(): one object, two places
                        tr3 = tr3 + (("e", f"{src(self.subst(t, env2))} = {vt}"),)
                out.append((env3, tr3))
            return out
        if isinstance(s, ast.AugAssign):
            v = self.subst(s.value, env)
            if isinstance(s.target, ast.Name):
                old = env.get(s.target.id)
                if not isinstance(old, ast.AST):
                    old = ast.Name(id=s.target.id, ctx=ast.Load())
                env2 = dict(env)
                env2[s.target.id] = ast.BinOp(left=copy.deepcopy(old), op=s.op, right=v)
                if s.target.id in (self.shared.get("captured") or ()):
                    return [(env2, trace + (("e", f"{s.target.id} {type(s.op).__name__}= {src(v)}"),))]
                return [(env2, trace)]
            t = self.subst(s.target, env)
            return [(env, trace + (("e", f"{src(t)} {type(s.op).__name__}= {src(v)}"),))]
        if isinstance(s, ast.Expr):
            v = s.value
            if isinstance(v, ast.Constant):
                return [st]
            if isinstance(v, (ast.Yield, ast.YieldFrom)):
                inner = src(self.subst(v.value, env)) if v.value is not None else ""
                tag = "yield from" if isinstance(v, ast.YieldFrom) else "yield"
                return [(env, trace + (("e", f"{tag} {inner}"),))]
            if isinstance(v, ast.Call) and src(v.func) in DIAGNOSTIC_CALLS:
                return [st]
            out = []
            for (env2, tr2), vv in self.values(v, st):
                out.append((env2, tr2 + (("e", src(vv)),)))
            return out
        if isinstance(s, (ast.For, ast.AsyncFor, ast.While)):
            killed = _stored_names([s])
            env_in = {k: v for k, v in env.items() if k not in killed}
            if isinstance(s, ast.While):
                head = f"while {src(self.subst(s.test, env_in))}"
            else:
                # the loop targets get canonical names inside the body summary
                self.steps.append(0)
                depth = len(self.steps) - 1
                env_in = dict(env_in)
                tnames = [n.id for n in ast.walk(s.target) if isinstance(n, ast.Name)]
                for i, nm in enumerate(tnames):
                    env_in[nm] = ast.Name(id=f"_it{depth}_{i}", ctx=ast.Load())
                head = f"for {src(self.subst(_as_load(s.target), env_in))} in {src(self.subst(s.iter, env))}"
            # the body's trace starts empty: its logical clock continues from the events seen so far
            env_in = dict(env_in)
            env_in["__tb"] = env.get("__tb", 0) + _ticks(trace)
            body = self.sub_summary(s.body, env_in, loop=True, loop_node=s)
            if not isinstance(s, ast.While):
                self.steps.pop()
            env2 = dict(env_in)
            env2["__tb"] = env.get("__tb", 0)  # back in the enclosing block: its own trace counts again
            for k in killed:
                env2[k] = None
            # the values with which the loop is entered are part of its meaning
            entry = tuple(
                (k, src(env[k])) for k in sorted(killed) if isinstance(env.get(k), ast.AST) and (self.liveset is None or k in self.liveset)
            )
            st2 = (env2, trace + (("loop", head, body, entry),))
            return self.block(s.orelse, [st2]) if s.orelse else [st2]
        if isinstance(s, (ast.With, ast.AsyncWith)):
            env2 = dict(env)
            tr2 = trace
            for it in s.items:
                ce = self.subst(it.context_expr, env2)
                tr2 = tr2 + (("with", src(ce) + (f" as {src(it.optional_vars)}" if it.optional_vars is not None else "")),)
                if it.optional_vars is not None:
                    self.bind(it.optional_vars, None, env2)
            out = self.block(s.body, [(env2, tr2)])
            out = [(e, t + (("endwith",),)) for e, t in out]
            if any("suppress" in src(it.context_expr.func) for it in s.items if isinstance(it.context_expr, ast.Call)):
                # contextlib.suppress: an exception raised in the body ends the block and execution continues after it
                killed = _stored_names(s.body)
                env3 = {k: v for k, v in env2.items() if k not in killed}
                for k in killed:
                    env3[k] = None
                out.append((env3, tr2 + (("suppressed",), ("endwith",))))
            return out
        if isinstance(s, ast.Try):
            out = self.block(s.body, [(env, trace + (("try",),))])
            out = [(e, t + (("endtry",),)) for e, t in out]
            if s.orelse:
                out = self.block(s.orelse, out)
            killed = _stored_names(s.body)
            for h in s.handlers:
                env2 = {k: v for k, v in env.items() if k not in killed}
                for k in killed:
                    env2[k] = None
                if h.name:
                    env2[h.name] = None
                entry = tuple(
                    (k, src(env[k])) for k in sorted(killed) if isinstance(env.get(k), ast.AST) and (self.liveset is None or k in self.liveset)
                )
                tr2 = trace + (("except", (src(h.type) if h.type else "") + (f" as {h.name}" if h.name else ""), entry),)
                out.extend(self.block(h.body, [(env2, tr2)]))
            if s.finalbody:
                out = self.block(s.finalbody, [(e, t + (("finally",),)) for e, t in out])
                # exits taken inside try/handlers also run the finally block: record its summary once
                fin = self.sub_summary(s.finalbody, {})
                out = [(e, t + (("finally-of-exits", fin),)) for e, t in out]
            return out
        if isinstance(s, (ast.FunctionDef, ast.AsyncFunctionDef)):
            # parameters of a nested function get canonical names (they are local to the enclosing function)
            s2 = copy.deepcopy(s)
            a = s2.args
            plist = [*a.posonlyargs, *a.args, *a.kwonlyargs] + ([a.vararg] if a.vararg else []) + ([a.kwarg] if a.kwarg else [])
            ren = {p.arg: f"_p{i}" for i, p in enumerate(plist)}
            for n in ast.walk(s2):
                if isinstance(n, ast.Name) and n.id in ren:
                    n.id = ren[n.id]
                elif isinstance(n, ast.arg) and n.arg in ren:
                    n.arg = ren[n.arg]
                    n.annotation = None
            s2.returns = None
            inner = summarise(s2, self.max_paths)
            sig = src(s2.args) + "|" + ",".join(src(d) for d in s2.decorator_list)
            body = " || ".join(sorted(describe_path(p) for p in inner)) if inner is not None else src(s2)
            return [(env, trace + (("def", s.name, sig, body),))]
        if isinstance(s, ast.ClassDef):
            return [(env, trace + (("class", src(s)),))]
        if isinstance(s, (ast.Import, ast.ImportFrom)):
            return [(env, trace + (("e", src(s)),))]
        if isinstance(s, (ast.Pass, ast.Global, ast.Nonlocal)):
            return [st]
        if isinstance(s, ast.Break):
            self.emit(st, "break", "")
            return []
        if isinstance(s, ast.Continue):
            if self.loop_stored is not None:
                self.paths.append(Path(trace, "fall", "", _env_text(env, self.loop_stored)))
                self._budget()
            else:
                self.emit(st, "continue", "")
            return []
        if isinstance(s, ast.Delete):
            return [(env, trace + (("e", src(self.subst(s, env))),))]
        if isinstance(s, ast.Match):
            out = []
            subj = src(self.subst(s.subject, env))
            prev = []
            for c in s.cases:
                label = f"match {subj} case {src(c.pattern)}" + (f" if {src(c.guard)}" if c.guard else "")
                killed = {n.name for n in ast.walk(c.pattern) if isinstance(n, (ast.MatchAs, ast.MatchStar)) and n.name}
                env2 = {k: v for k, v in env.items() if k not in killed}
                out.extend(self.block(c.body, [(env2, trace + (("c", label),))]))
                prev.append(label)
            has_default = any(isinstance(c.pattern, ast.MatchAs) and c.pattern.pattern is None and c.guard is None for c in s.cases)
            if not has_default:
                out.append((env, trace + (("c", f"match {subj} no case"),)))
            return out
        return [(env, trace + (("e", src(s)),))]

    def _try_sig(self, s: ast.Try) -> str:
        """which statements the try protects (so that moving a statement out of a try is visible)"""
        return ""


def _as_load(t):
    t = copy.deepcopy(t)
    for n in ast.walk(t):
        if hasattr(n, "ctx"):
            n.ctx = ast.Load()
    return t


CONSUMERS = {"join", "all", "any", "sum", "set", "list", "tuple", "sorted", "min", "max", "frozenset", "extend", "update", "And", "Or",
             "smt_or", "smt_and", "dict", "Concat", "concat"}


def _unconditional_in(root, node) -> bool:
    """node is evaluated whenever root is (not under a short-circuit operand, a conditional expression, a lambda or a
    comprehension), and nothing that root evaluates before it can observe the binding"""
    def find(cur, cond):
        if cur is node:
            return not cond
        for fld, val in ast.iter_fields(cur):
            kids = val if isinstance(val, list) else [val]
            for i, k in enumerate(kids):
                if not isinstance(k, ast.AST):
                    continue
                c2 = cond
                if isinstance(cur, ast.BoolOp) and fld == "values" and i > 0:
                    c2 = True
                if isinstance(cur, ast.IfExp) and fld in ("body", "orelse"):
                    c2 = True
                if isinstance(cur, (ast.Lambda, ast.ListComp, ast.SetComp, ast.DictComp, ast.GeneratorExp)):
                    c2 = True
                r = find(k, c2)
                if r is not None:
                    return r
        return None

    return bool(find(root, False))


def _replace_node(root, old, new):
    """a copy of root with the sub-tree `old` (by identity) replaced by `new`"""
    if root is old:
        return new
    out = copy.copy(root)
    for fld, val in ast.iter_fields(root):
        if isinstance(val, list):
            setattr(out, fld, [_replace_node(v, old, new) if isinstance(v, ast.AST) else v for v in val])
        elif isinstance(val, ast.AST):
            setattr(out, fld, _replace_node(val, old, new))
    return out


def _simple_operand(e) -> bool:
    if isinstance(e, ast.Subscript):
        return _simple_operand(e.value) and _simple_operand(e.slice)
    return isinstance(e, (ast.Name, ast.Constant)) or (isinstance(e, ast.Attribute) and _simple_operand(e.value))


def _expand_test(test):
    """a <= b < c  ->  a <= b and b < c ;  s.startswith(('a', 'b'))  ->  s.startswith('a') or s.startswith('b') ;
    x in (A, B) with few simple members  ->  x == A or x == B   (None if the test is none of these)"""
    if isinstance(test, ast.Compare) and len(test.ops) >= 2 and all(_simple_operand(c) for c in test.comparators[:-1]):
        parts = []
        left = test.left
        for op, right in zip(test.ops, test.comparators):
            parts.append(ast.Compare(left=left, ops=[op], comparators=[right]))
            left = right
        return ast.BoolOp(op=ast.And(), values=parts)
    if isinstance(test, ast.Call) and isinstance(test.func, ast.Attribute) and test.func.attr in ("startswith", "endswith") and len(test.args) == 1 and not test.keywords and isinstance(test.args[0], ast.Tuple) and test.args[0].elts and _simple_operand(test.func.value):
        return ast.BoolOp(op=ast.Or(), values=[ast.Call(func=test.func, args=[e], keywords=[]) for e in test.args[0].elts])
    walrus = isinstance(test, ast.Compare) and isinstance(test.left, ast.NamedExpr)
    if isinstance(test, ast.Compare) and len(test.ops) == 1 and isinstance(test.ops[0], (ast.In, ast.NotIn)) and isinstance(test.comparators[0], (ast.Tuple, ast.List, ast.Set)) and 1 <= len(test.comparators[0].elts) <= 4 and (walrus or _simple_operand(test.left)) and all(isinstance(e, ast.Constant) for e in test.comparators[0].elts):
        # `(x := E) in (A, B)` binds x once, then compares x
        later = ast.Name(id=test.left.target.id, ctx=ast.Load()) if walrus else test.left
        eqs = [ast.Compare(left=test.left if i == 0 else later, ops=[ast.Eq()], comparators=[e]) for i, e in enumerate(test.comparators[0].elts)]
        pos = eqs[0] if len(eqs) == 1 else ast.BoolOp(op=ast.Or(), values=eqs)
        return pos if isinstance(test.ops[0], ast.In) else ast.UnaryOp(op=ast.Not(), operand=pos)
    return None


def _is_boolish(e) -> bool:
    """syntactically a bool: comparison, not, isinstance/any/all/callable/hasattr call, and/or of those"""
    if isinstance(e, ast.Compare):
        return True
    if isinstance(e, ast.UnaryOp) and isinstance(e.op, ast.Not):
        return True
    if isinstance(e, ast.Constant) and isinstance(e.value, bool):
        return True
    if isinstance(e, ast.Call) and isinstance(e.func, ast.Name) and e.func.id in ("isinstance", "issubclass", "any", "all", "callable", "hasattr", "bool", "is_bv_value", "is_bv", "is_bool", "eq"):
        return True
    if isinstance(e, ast.BoolOp):
        return all(_is_boolish(v) for v in e.values)
    return False


class _Canon(ast.NodeTransformer):
    """canonical names for comprehension variables (by nesting depth); `map(f, xs)` / `map(lambda x: E, xs)` as a
    generator expression; a list comprehension that is the only argument of a call consuming it whole (join, all, sum,
    set, extend, ...) as a generator expression; nested f-strings flattened"""

    def __init__(self):
        self.depth = 0

    def visit_Call(self, node):
        # map(F, it) -> (F(c) for c in it)
        if isinstance(node.func, ast.Name) and node.func.id == "map" and len(node.args) == 2 and not node.keywords:
            f, it = node.args
            var = ast.Name(id="_m", ctx=ast.Load())
            if isinstance(f, ast.Lambda) and len(f.args.args) == 1 and not (f.args.vararg or f.args.kwarg or f.args.kwonlyargs or f.args.defaults):
                pname = f.args.args[0].arg
                body = copy.deepcopy(f.body)
                for n in ast.walk(body):
                    if isinstance(n, ast.Name) and n.id == pname:
                        n.id = "_m"
                elt = body
            elif isinstance(f, (ast.Name, ast.Attribute)):
                elt = ast.Call(func=f, args=[var], keywords=[])
            else:
                elt = None
            if elt is not None:
                node = ast.GeneratorExp(elt=elt, generators=[ast.comprehension(target=ast.Name(id="_m", ctx=ast.Store()), iter=it, ifs=[], is_async=0)])
                return self.visit(node)
        self.generic_visit(node)
        name = node.func.attr if isinstance(node.func, ast.Attribute) else (node.func.id if isinstance(node.func, ast.Name) else "")
        # frozenset({..}) / set([..]) / tuple([..]) of literals used for membership are displays
        if isinstance(node.func, ast.Name) and name in ("frozenset", "set") and len(node.args) == 1 and not node.keywords and isinstance(node.args[0], (ast.Set, ast.List, ast.Tuple)):
            return ast.Set(elts=node.args[0].elts)
        # list(<generator>) is a list comprehension, set(<generator>) a set comprehension
        if isinstance(node.func, ast.Name) and name in ("list", "set") and len(node.args) == 1 and not node.keywords and isinstance(node.args[0], (ast.GeneratorExp, ast.ListComp)):
            g = node.args[0]
            return (ast.ListComp if name == "list" else ast.SetComp)(elt=g.elt, generators=g.generators)
        if name in CONSUMERS and len(node.args) == 1 and not node.keywords and isinstance(node.args[0], ast.ListComp):
            lc = node.args[0]
            node.args[0] = ast.GeneratorExp(elt=lc.elt, generators=lc.generators)
        return node

    def _comp(self, node):
        self.depth += 1
        d = self.depth
        try:
            self.generic_visit(node)
        finally:
            self.depth -= 1
        bound = []
        for g in node.generators:
            for n in ast.walk(g.target):
                if isinstance(n, ast.Name) and n.id not in bound:
                    bound.append(n.id)
        m = {b: f"_c{d}_{i}" for i, b in enumerate(bound)}
        first_iter = node.generators[0].iter
        for n in ast.walk(node):
            if isinstance(n, ast.Name) and n.id in m and not _inside(first_iter, n):
                n.id = m[n.id]
        return node

    visit_ListComp = visit_SetComp = visit_GeneratorExp = visit_DictComp = _comp

    def visit_JoinedStr(self, node):
        self.generic_visit(node)
        vals = []
        for v in node.values:
            if isinstance(v, ast.FormattedValue) and isinstance(v.value, ast.JoinedStr) and v.conversion == -1 and v.format_spec is None:
                vals.extend(v.value.values)
            else:
                vals.append(v)
        # merge adjacent constants
        merged = []
        for v in vals:
            if merged and isinstance(v, ast.Constant) and isinstance(merged[-1], ast.Constant):
                merged[-1] = ast.Constant(value=merged[-1].value + v.value)
            else:
                merged.append(v)
        node.values = merged
        return node


class _Flat(ast.NodeTransformer):
    visit_JoinedStr = _Canon.visit_JoinedStr

    def visit_Call(self, node):
        self.generic_visit(node)
        name = node.func.attr if isinstance(node.func, ast.Attribute) else (node.func.id if isinstance(node.func, ast.Name) else "")
        if name in CONSUMERS and len(node.args) == 1 and not node.keywords and isinstance(node.args[0], ast.ListComp):
            lc = node.args[0]
            node.args[0] = ast.GeneratorExp(elt=lc.elt, generators=lc.generators)
        return node


def _inside(root, n) -> bool:
    return any(x is n for x in ast.walk(root))


def _append_idiom(loop):
    """for t in it: [if C:] X.append(E)   ->   (X, [E for t in it if C])   (None if the loop is anything else)"""
    if not isinstance(loop, ast.For) or loop.orelse or not loop.body:
        return None
    body = list(loop.body)
    # leading single-use temporaries `t = E` are inlined into what follows
    temps = {}
    while len(body) > 1 and isinstance(body[0], ast.Assign) and len(body[0].targets) == 1 and isinstance(body[0].targets[0], ast.Name):
        t = body[0].targets[0].id
        uses = sum(1 for b in body[1:] for n in ast.walk(b) if isinstance(n, ast.Name) and n.id == t and isinstance(n.ctx, ast.Load))
        stores = sum(1 for b in body[1:] for n in ast.walk(b) if isinstance(n, ast.Name) and n.id == t and isinstance(n.ctx, ast.Store))
        if uses != 1 or stores:
            return None
        temps[t] = _SubNames(temps).visit(copy.deepcopy(body[0].value))
        body = body[1:]
    if len(body) != 1:
        return None
    st = _SubNames(temps).visit(copy.deepcopy(body[0])) if temps else body[0]
    conds = []
    while isinstance(st, ast.If) and not st.orelse and len(st.body) == 1:
        conds.append(st.test)
        st = st.body[0]
    if not (isinstance(st, ast.Expr) and isinstance(st.value, ast.Call)):
        return None
    c = st.value
    if not (isinstance(c.func, ast.Attribute) and c.func.attr == "append" and isinstance(c.func.value, ast.Name) and len(c.args) == 1 and not c.keywords):
        return None
    x = c.func.value.id
    used = {n.id for part in (loop.iter, c.args[0], *conds) for n in ast.walk(part) if isinstance(n, ast.Name)}
    if x in used or any(isinstance(n, (ast.Yield, ast.YieldFrom, ast.Await, ast.NamedExpr)) for n in ast.walk(loop)):
        return None
    test = conds[0] if len(conds) == 1 else (ast.BoolOp(op=ast.And(), values=conds) if conds else None)
    comp = ast.ListComp(elt=c.args[0], generators=[ast.comprehension(target=loop.target, iter=loop.iter, ifs=[test] if test is not None else [], is_async=0)])
    return x, comp


def _count_idiom(loop):
    """for t in it: if P: x += 1   ->   (x, (P for t in it))   -- with `x = 0` before it this is x = sum(P for t in it)"""
    if not (isinstance(loop, ast.For) and not loop.orelse and len(loop.body) == 1 and isinstance(loop.body[0], ast.If)):
        return None
    cond = loop.body[0]
    if cond.orelse or len(cond.body) != 1 or not isinstance(cond.body[0], ast.AugAssign):
        return None
    aug = cond.body[0]
    if not (isinstance(aug.op, ast.Add) and isinstance(aug.target, ast.Name) and isinstance(aug.value, ast.Constant) and aug.value.value == 1 and type(aug.value.value) is int):
        return None
    if not _is_boolish(cond.test):
        return None
    x = aug.target.id
    used = {n.id for part in (loop.iter, cond.test, loop.target) for n in ast.walk(part) if isinstance(n, ast.Name)}
    if x in used or any(isinstance(n, (ast.Yield, ast.YieldFrom, ast.Await, ast.NamedExpr)) for n in ast.walk(loop)):
        return None
    return x, ast.GeneratorExp(elt=cond.test, generators=[ast.comprehension(target=loop.target, iter=loop.iter, ifs=[], is_async=0)])


class _Idioms(ast.NodeTransformer):
    """statement-level idioms: `X = []` ... `for t in it: X.append(E)` is `X = [E for t in it]` when nothing touches X in
    between; a `match` over literal / fixed-length sequence / class / wildcard patterns is an if-chain"""

    def _rewrite_list(self, body):
        body = self._first_match(self._any_all(list(body)))
        out = []
        for st in body:
            st = self.visit(st)
            count = _count_idiom(st)
            if count is not None:
                x, gen = count
                k = None
                for j in range(len(out) - 1, -1, -1):
                    q = out[j]
                    if isinstance(q, ast.Assign) and len(q.targets) == 1 and isinstance(q.targets[0], ast.Name) and q.targets[0].id == x:
                        if isinstance(q.value, ast.Constant) and q.value.value == 0 and type(q.value.value) is int:
                            k = j
                        break
                    if x in {n.id for n in ast.walk(q) if isinstance(n, ast.Name)}:
                        break
                if k is not None:
                    new = ast.copy_location(ast.Assign(targets=[ast.Name(id=x, ctx=ast.Store())], value=ast.Call(func=ast.Name(id="sum", ctx=ast.Load()), args=[gen], keywords=[])), st)
                    ast.fix_missing_locations(new)
                    del out[k]
                    out.append(new)
                    continue
            idiom = _append_idiom(st)
            if idiom is not None:
                x, comp = idiom
                # the list must be a fresh empty list bound earlier in this block and untouched since
                k = None
                for j in range(len(out) - 1, -1, -1):
                    p = out[j]
                    names = {n.id for n in ast.walk(p) if isinstance(n, ast.Name)}
                    if isinstance(p, ast.Assign) and len(p.targets) == 1 and isinstance(p.targets[0], ast.Name) and p.targets[0].id == x:
                        if isinstance(p.value, ast.List) and not p.value.elts:
                            k = j
                        break
                    if x in names:
                        break
                if k is not None:
                    new = ast.copy_location(ast.Assign(targets=[ast.Name(id=x, ctx=ast.Store())], value=comp), st)
                    ast.fix_missing_locations(new)
                    del out[k]
                    out.append(new)
                    continue
            bulk = self._bulk_call(st)
            out.append(bulk if bulk is not None else st)
        return out

    @staticmethod
    def _bulk_call(st):
        """for t in it: R.append(E)  ->  R.extend(E for t in it) ;  R.add(E) -> R.update(E for ..) ;
        R.update(E) -> R.update(*(E for ..))   for a receiver R that the loop does not otherwise touch"""
        if not (isinstance(st, ast.For) and not st.orelse and len(st.body) == 1 and isinstance(st.body[0], ast.Expr) and isinstance(st.body[0].value, ast.Call)):
            return None
        c = st.body[0].value
        if not (isinstance(c.func, ast.Attribute) and c.func.attr in ("append", "add", "update") and len(c.args) == 1 and not c.keywords):
            return None
        recv = c.func.value
        rtxt = ast.unparse(recv)
        others = " ".join(ast.unparse(x) for x in (st.iter, c.args[0], st.target))
        import re as _re

        if _re.search(rf"(?<![\w.]){_re.escape(rtxt)}(?![\w])", others) or any(isinstance(n, (ast.Yield, ast.YieldFrom, ast.Await, ast.NamedExpr)) for n in ast.walk(st)):
            return None
        gen = ast.GeneratorExp(elt=c.args[0], generators=[ast.comprehension(target=st.target, iter=st.iter, ifs=[], is_async=0)])
        if c.func.attr == "append":
            call = ast.Call(func=ast.Attribute(value=recv, attr="extend", ctx=ast.Load()), args=[gen], keywords=[])
        elif c.func.attr == "add":
            call = ast.Call(func=ast.Attribute(value=recv, attr="update", ctx=ast.Load()), args=[gen], keywords=[])
        else:
            call = ast.Call(func=ast.Attribute(value=recv, attr="update", ctx=ast.Load()), args=[ast.Starred(value=gen, ctx=ast.Load())], keywords=[])
        new = ast.copy_location(ast.Expr(value=call), st)
        ast.fix_missing_locations(new)
        return new

    @staticmethod
    def _first_match(body):
        """for t in it: if P: return t / return D   ->   return next((t for t in it if P), D)"""
        out = []
        i = 0
        while i < len(body):
            st = body[i]
            nxt = body[i + 1] if i + 1 < len(body) else None
            if (
                isinstance(st, ast.For) and not st.orelse and len(st.body) == 1 and isinstance(st.body[0], ast.If) and not st.body[0].orelse
                and len(st.body[0].body) == 1 and isinstance(st.body[0].body[0], ast.Return) and isinstance(nxt, ast.Return)
                and isinstance(st.target, ast.Name) and isinstance(st.body[0].body[0].value, ast.Name) and st.body[0].body[0].value.id == st.target.id
                and nxt.value is not None and isinstance(nxt.value, ast.Constant)
                and not any(isinstance(n, (ast.Yield, ast.YieldFrom, ast.Await, ast.NamedExpr)) for n in ast.walk(st))
            ):
                gen = ast.GeneratorExp(elt=ast.Name(id=st.target.id, ctx=ast.Load()), generators=[ast.comprehension(target=st.target, iter=st.iter, ifs=[st.body[0].test], is_async=0)])
                new = ast.copy_location(ast.Return(value=ast.Call(func=ast.Name(id="next", ctx=ast.Load()), args=[gen, nxt.value], keywords=[])), st)
                ast.fix_missing_locations(new)
                out.append(new)
                i += 2
                continue
            out.append(st)
            i += 1
        return out

    @staticmethod
    def _any_all(body):
        """for t in it: if P: return True / return False   ->   return any(P for t in it)   (and the dual with all)"""
        out = []
        i = 0
        while i < len(body):
            st = body[i]
            nxt = body[i + 1] if i + 1 < len(body) else None
            if (
                isinstance(st, ast.For) and not st.orelse and len(st.body) == 1 and isinstance(st.body[0], ast.If) and not st.body[0].orelse
                and len(st.body[0].body) == 1 and isinstance(st.body[0].body[0], ast.Return) and isinstance(nxt, ast.Return)
                and isinstance(st.body[0].body[0].value, ast.Constant) and isinstance(nxt.value, ast.Constant)
                and isinstance(st.body[0].body[0].value.value, bool) and isinstance(nxt.value.value, bool)
                and st.body[0].body[0].value.value != nxt.value.value
                and not any(isinstance(n, (ast.Yield, ast.YieldFrom, ast.Await, ast.NamedExpr)) for n in ast.walk(st))
            ):
                inner_true = st.body[0].body[0].value.value
                test = st.body[0].test
                if inner_true:
                    elt, fn = test, "any"
                else:
                    elt, fn = ast.UnaryOp(op=ast.Not(), operand=test), "all"
                gen = ast.GeneratorExp(elt=elt, generators=[ast.comprehension(target=st.target, iter=st.iter, ifs=[], is_async=0)])
                new = ast.copy_location(ast.Return(value=ast.Call(func=ast.Name(id=fn, ctx=ast.Load()), args=[gen], keywords=[])), st)
                ast.fix_missing_locations(new)
                out.append(new)
                i += 2
                continue
            out.append(st)
            i += 1
        return out

    def generic_visit(self, node):
        for fld in ("body", "orelse", "finalbody"):
            lst = getattr(node, fld, None)
            if isinstance(lst, list) and lst and isinstance(lst[0], ast.stmt):
                setattr(node, fld, self._rewrite_list(lst))
        for h in getattr(node, "handlers", []) or []:
            h.body = self._rewrite_list(h.body)
        return node

    def visit_Match(self, node):
        chain = _desugar_match(node)
        if chain is None:
            for c in node.cases:
                c.body = self._rewrite_list(c.body)
            return node
        return self.generic_visit(chain)


def _pattern_test(subj, pat):
    """(test expression, [(name, value expression)]) for simple patterns; None if not simple"""
    if isinstance(pat, ast.MatchValue):
        return ast.Compare(left=subj, ops=[ast.Eq()], comparators=[pat.value]), []
    if isinstance(pat, ast.MatchSingleton):
        return ast.Compare(left=subj, ops=[ast.Is()], comparators=[ast.Constant(value=pat.value)]), []
    if isinstance(pat, ast.MatchAs) and pat.pattern is None:
        return ast.Constant(value=True), ([(pat.name, subj)] if pat.name else [])
    if isinstance(pat, ast.MatchClass) and not pat.patterns and not pat.kwd_patterns:
        return ast.Call(func=ast.Name(id="isinstance", ctx=ast.Load()), args=[subj, pat.cls], keywords=[]), []
    if isinstance(pat, ast.MatchOr):
        parts = [_pattern_test(subj, p) for p in pat.patterns]
        if any(p is None or p[1] for p in parts):
            return None
        return ast.BoolOp(op=ast.Or(), values=[p[0] for p in parts]), []
    if isinstance(pat, ast.MatchSequence) and not any(isinstance(p, ast.MatchStar) for p in pat.patterns):
        n = len(pat.patterns)
        tests = [ast.Compare(left=ast.Call(func=ast.Name(id="len", ctx=ast.Load()), args=[subj], keywords=[]), ops=[ast.Eq()], comparators=[ast.Constant(value=n)])]
        binds = []
        for i, p in enumerate(pat.patterns):
            sub = _pattern_test(ast.Subscript(value=subj, slice=ast.Constant(value=i), ctx=ast.Load()), p)
            if sub is None:
                return None
            t, b = sub
            if not (isinstance(t, ast.Constant) and t.value is True):
                tests.append(t)
            binds += b
        test = tests[0] if len(tests) == 1 else ast.BoolOp(op=ast.And(), values=tests)
        return test, binds
    return None


class _SubNames(ast.NodeTransformer):
    def __init__(self, m):
        self.m = m

    def visit_Name(self, node):
        if isinstance(node.ctx, ast.Load) and node.id in self.m:
            return copy.deepcopy(self.m[node.id])
        return node


def _desugar_match(node: ast.Match):
    subj = node.subject
    prefix = []
    if not isinstance(subj, (ast.Name, ast.Attribute, ast.Constant)):
        # evaluated once: bind it first
        tmp = f"_ms{getattr(node, 'lineno', 0)}"
        prefix = [ast.Assign(targets=[ast.Name(id=tmp, ctx=ast.Store())], value=subj)]
        subj = ast.Name(id=tmp, ctx=ast.Load())
    arms = []
    for c in node.cases:
        pt = _pattern_test(subj, c.pattern)
        if pt is None:
            return None
        test, binds = pt
        binds = [(n, v) for n, v in binds if n != "_"]
        if c.guard is not None:
            guard = _SubNames({n: v for n, v in binds}).visit(copy.deepcopy(c.guard))
            test = guard if (isinstance(test, ast.Constant) and test.value is True) else ast.BoolOp(op=ast.And(), values=[test, guard])
        pre = [ast.Assign(targets=[ast.Name(id=n, ctx=ast.Store())], value=copy.deepcopy(v)) for n, v in binds]
        arms.append((test, [*pre, *c.body]))
    chain = []
    for test, body in reversed(arms):
        if isinstance(test, ast.Constant) and test.value is True:
            chain = body
            continue
        chain = [ast.If(test=copy.deepcopy(test), body=body, orelse=chain)]
    out = ast.If(test=ast.Constant(value=True), body=[*prefix, *(chain or [ast.Pass()])], orelse=[])
    ast.copy_location(out, node)
    ast.fix_missing_locations(out)
    return out


def canonical(stmts):
    c = _Canon()
    holder = ast.Module(body=[copy.deepcopy(s) for s in stmts], type_ignores=[])
    _Idioms().generic_visit(holder)
    return [c.visit(s) for s in holder.body]


def _env_text(env: dict, names) -> tuple:
    out = []
    bt = env.get("__bt") or {}
    for k in sorted(names):
        if k in env and not k.startswith("__"):
            v = env[k]
            if isinstance(v, ast.AST) and env.get("__t", 0) > bt.get(k, 0) and position_dependent(v):
                txt = f"@stale{max(bt.get(k, 0), 0)}({src(v)})"  # bound before the last state change of the block
            else:
                txt = src(v) if isinstance(v, ast.AST) else "?"
            out.append((k, txt))
    return tuple(out)


def summarise_block(stmts, max_paths: int = 2000, live: set[str] | None = None, nested_asserts: set | None = None, captured: set | None = None) -> list[Path] | None:
    """paths of a statement list; 'fall' paths carry the values of the locals in `live` bound on the path;
    assert texts met inside loop bodies are added to `nested_asserts`"""
    try:
        stmts = canonical(stmts)
    except RecursionError:
        return None
    sm = Summariser(max_paths=max_paths, liveset=None if live is None else (nondiagnostic_loads(stmts) | live))
    sm.shared["captured"] = {
        n.id
        for st in stmts
        for d in ast.walk(st)
        if isinstance(d, (ast.FunctionDef, ast.AsyncFunctionDef, ast.Lambda))
        for n in ast.walk(d)
        if isinstance(n, ast.Name) and isinstance(n.ctx, ast.Load)
    } | (captured or set())
    if live is not None:
        sm.shared["loads"] = _load_counter(stmts)
        sm.shared["outside"] = set(live)
        sm.shared["root"] = stmts
        sm.shared["root_loads"] = _load_nodes(stmts)
    if nested_asserts is not None:
        sm.shared["asserts"] = nested_asserts
    try:
        rest = sm.block(stmts, [({}, ())])
        stored = _stored_names(stmts)
        if live is not None:
            stored &= live
        for env, tr in rest:
            sm.paths.append(Path(tr, "fall", "", _env_text(env, stored)))
    except (TooMany, RecursionError):
        return None
    return sm.paths


def summarise(fn: ast.AST, max_paths: int = 2000) -> list[Path] | None:
    """paths of a whole function: falling off the end is `return None`.  None if too branchy to enumerate"""
    ps = summarise_block(fn.body, max_paths, live=set())
    if ps is None:
        return None
    return [Path(p.trace, "return", "None") if p.kind == "fall" else p for p in ps]


def describe_path(p: Path, asserts: bool = True) -> str:
    evs = []
    for e in (p.trace if asserts else canon_trace(p.trace, p.value)):
        if e[0] == "a" and not asserts:
            continue
        evs.append(e[1] if e[0] == "c" else "<" + " ".join(str(x) for x in e) + ">")
    env = (" {" + ", ".join(f"{k}={v}" for k, v in p.env) + "}") if p.env else ""
    return f"[{' & '.join(evs)}] -> {p.kind} {p.value}{env}"


def outcomes(paths: list[Path]) -> set[tuple]:
    """{(frozenset(conds), kind, value)}: what is returned/raised under which decisions (events ignored)"""
    return {(frozenset(p.conds), p.kind, p.value) for p in paths}


def describe(paths) -> list[str]:
    return [describe_path(p) for p in paths]
