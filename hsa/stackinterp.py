"""Stack-effect abstract interpreter for opcode arms (R01.2 / R01.3 / R06.5).

The EVM stack of an execution state is modelled symbolically: `s0` is the top at arm entry, `s1` the
next one, ...  Items are materialised lazily when the arm touches them.  Values are canonical
expression *texts* in which local names are replaced by what they were bound to, `popi()/topi()`
results are written `I(sK)` (converted to a 256-bit word) and `pop()/top()/peek()` results `sK`
(unconverted, possibly Bool-typed).

Every hand-off point of an arm (fall-through to the common `advance`, `next_ex = ex`,
`stack.push(<exec>)`, a call to a consuming helper, `yield from finalize(ex)`) records
(delta = original items consumed, alpha = items left on top, the pushed texts, the effect calls).
Nothing is executed: the interpreter walks the AST of the arm.
"""

from __future__ import annotations

import ast
import copy
from dataclasses import dataclass, field

from hsa.core import AnalysisError, dotted, last_attr, src
from hsa.fold import UNKNOWN, Folder

STACK_OPS = {"pop", "popi", "top", "topi", "peek", "push", "push_any", "set_top", "dup", "swap", "mloc", "ret"}
CONSUMERS = {"jumpi", "call", "create", "calldataload"}


@dataclass
class Record:
    kind: str  # fall | continue | push | helper:<name> | finalize | raise | return
    delta: int
    alpha: int
    tops: tuple  # texts of the alpha items, top first
    effects: tuple
    guards: tuple
    owner: str = "ex"


class _Stk:
    def __init__(self, shared):
        self.items: list[str] = []  # bottom .. top
        self.shared = shared  # {'depth': int, 'stacks': [...]}

    def _materialise(self, n):
        while len(self.items) < n:
            name = f"s{self.shared['depth']}"
            self.shared["depth"] += 1
            for st in self.shared["stacks"]:
                st.items.insert(0, name)

    def pop(self):
        self._materialise(1)
        return self.items.pop()

    def top(self):
        self._materialise(1)
        return self.items[-1]

    def peek(self, n):
        self._materialise(n)
        return self.items[-n]

    def push(self, v):
        self.items.append(v)

    def set_top(self, v):
        self._materialise(1)
        self.items[-1] = v

    def dup(self, n):
        self._materialise(n)
        self.items.append(self.items[-n])

    def swap(self, n):
        self._materialise(n + 1)
        self.items[-(n + 1)], self.items[-1] = self.items[-1], self.items[-(n + 1)]


class _PathEnd(Exception):
    pass


class Interp:
    def __init__(self, repo, modname: str, env_consts: dict | None = None, helper_summary=None, max_paths=64):
        self.repo = repo
        self.modname = modname
        self.consts = env_consts or {}
        self.helper_summary = helper_summary or {}
        self.records: list[Record] = []
        self.max_paths = max_paths

    # ---- state
    def _new_state(self):
        shared = {"depth": 0, "stacks": []}
        ex = _Stk(shared)
        shared["stacks"].append(ex)
        return {"shared": shared, "stacks": {"ex": ex}, "env": {}, "effects": [], "guards": []}

    def _clone(self, st):
        new = {"shared": {"depth": st["shared"]["depth"], "stacks": []}, "stacks": {}, "env": dict(st["env"]), "effects": list(st["effects"]), "guards": list(st["guards"])}
        for k, s in st["stacks"].items():
            ns = _Stk(new["shared"])
            ns.items = list(s.items)
            new["shared"]["stacks"].append(ns)
            new["stacks"][k] = ns
        return new

    def _owner_of(self, recv: ast.AST, st) -> str | None:
        """which execution state's stack does `recv` denote? `state`, `ex.st`, `new_ex.st`, `self.st` ..."""
        t = src(recv)
        if t in ("state", "ex.st", "self.st", "self"):
            return "ex"
        if t.endswith(".st"):
            base = t[:-3]
            alias = st["env"].get(base)
            if alias == "$ex":
                return "ex"
            return base if base in st["stacks"] else None
        if t in st["stacks"]:
            return t
        return None

    def _record(self, st, kind, owner="ex"):
        stk = st["stacks"].get(owner)
        if stk is None:
            return
        d = st["shared"]["depth"]
        self.records.append(Record(kind, d, len(stk.items), tuple(reversed(stk.items)), tuple(st["effects"]), tuple(st["guards"]), owner))

    # ---- expressions
    def fold(self, node, st):
        env = dict(self.consts)
        for k, v in st["env"].items():
            if isinstance(v, tuple) and v[0] == "const":
                env[k] = v[1]
        return Folder(self.repo, self.modname, env).fold(node)

    def ev(self, node, st) -> str:
        if isinstance(node, ast.Name):
            v = st["env"].get(node.id)
            if v is None:
                return node.id
            if isinstance(v, tuple):
                return repr(v[1]) if v[0] == "const" else v[1]
            return v if v != "$ex" else "ex"
        if isinstance(node, ast.Constant):
            return repr(node.value)
        if isinstance(node, ast.Attribute):
            return f"{self.ev(node.value, st)}.{node.attr}"
        if isinstance(node, ast.Call):
            return self.ev_call(node, st)
        if isinstance(node, ast.IfExp):
            t = self.fold(node.test, st)
            if t is not UNKNOWN:
                return self.ev(node.body if t else node.orelse, st)
            return f"({self.ev(node.body, st)} if {self.ev(node.test, st)} else {self.ev(node.orelse, st)})"
        if isinstance(node, ast.BinOp):
            f = self.fold(node, st)
            if f is not UNKNOWN and isinstance(f, (int, str)):
                return repr(f)
            return f"({self.ev(node.left, st)} {_OPS.get(type(node.op), '?')} {self.ev(node.right, st)})"
        if isinstance(node, ast.Compare):
            parts = [self.ev(node.left, st)]
            for op, c in zip(node.ops, node.comparators):
                parts.append(_CMPS.get(type(op), "?"))
                parts.append(self.ev(c, st))
            return "(" + " ".join(parts) + ")"
        if isinstance(node, ast.BoolOp):
            j = " and " if isinstance(node.op, ast.And) else " or "
            return "(" + j.join(self.ev(v, st) for v in node.values) + ")"
        if isinstance(node, ast.UnaryOp):
            return f"({type(node.op).__name__} {self.ev(node.operand, st)})"
        if isinstance(node, ast.Subscript):
            return f"{self.ev(node.value, st)}[{self.ev(node.slice, st)}]"
        if isinstance(node, (ast.Tuple, ast.List)):
            return "[" + ", ".join(self.ev(e, st) for e in node.elts) + "]"
        if isinstance(node, ast.JoinedStr):
            return "<fstr>"
        if isinstance(node, ast.Slice):
            return f"{self.ev(node.lower, st) if node.lower else ''}:{self.ev(node.upper, st) if node.upper else ''}"
        if isinstance(node, (ast.GeneratorExp, ast.ListComp)):
            return self.ev_comp(node, st)
        if isinstance(node, ast.NamedExpr):
            v = self.ev(node.value, st)
            st["env"][node.target.id] = v
            return v
        if isinstance(node, (ast.YieldFrom, ast.Yield)):
            return "<yield>"
        if isinstance(node, ast.Lambda):
            return "<lambda>"
        if isinstance(node, ast.Dict):
            return "{...}"
        return src(node)

    def ev_comp(self, node, st) -> str:
        if len(node.generators) == 1 and isinstance(node.generators[0].iter, ast.Call) and dotted(node.generators[0].iter.func) == "range":
            n = self.fold(node.generators[0].iter.args[0], st)
            if isinstance(n, int) and 0 <= n <= 32:
                return "[" + ", ".join(self.ev(node.elt, st) for _ in range(n)) + "]"
        # comprehension without stack effects
        for c in ast.walk(node):
            if isinstance(c, ast.Call) and last_attr(c) in STACK_OPS and isinstance(c.func, ast.Attribute) and self._owner_of(c.func.value, st):
                raise AnalysisError(f"stack operation inside an unbounded comprehension: {src(node)[:60]}")
        return f"<comp {src(node)[:40]}>"

    def ev_args(self, call, st):
        parts = [self.ev(a, st) for a in call.args]
        parts += [f"{k.arg}={self.ev(k.value, st)}" for k in call.keywords]
        return ", ".join(parts)

    def ev_call(self, call: ast.Call, st) -> str:
        f = call.func
        name = last_attr(call)
        if isinstance(f, ast.Attribute):
            owner = self._owner_of(f.value, st)
            if owner is not None and name in STACK_OPS and (src(f.value) != "self" or name in ("mloc", "ret")):
                stk = st["stacks"][owner]
                if name == "pop":
                    return stk.pop()
                if name == "popi":
                    return f"I({stk.pop()})"
                if name == "top":
                    return stk.top()
                if name == "topi":
                    return f"I({stk.top()})"
                if name == "peek":
                    n = self.fold(call.args[0], st) if call.args else 1
                    if not isinstance(n, int):
                        raise AnalysisError(f"peek with a non-constant depth: {src(call)}")
                    return stk.peek(n)
                if name in ("push", "push_any"):
                    v = self.ev(call.args[0], st)
                    stk.push(v if name == "push" else f"any({v})")
                    return "None"
                if name == "set_top":
                    v = self.ev(call.args[0], st)
                    stk.set_top(v)
                    return "None"
                if name in ("dup", "swap"):
                    n = self.fold(call.args[0], st)
                    if not isinstance(n, int):
                        raise AnalysisError(f"{name} with a non-constant index: {src(call)}")
                    getattr(stk, name)(n)
                    return "None"
                if name == "mloc":
                    return f"mloc({stk.pop()})"
                if name == "ret":
                    a = stk.pop()
                    b = stk.pop()
                    return f"mslice(mloc({a}), int({b}))"
            # ex.mloc(...) / ex.ret() / ex.sha3() wrappers on the execution state
            base = src(f.value)
            if base == "ex" and name in ("mloc", "ret", "sha3"):
                stk = st["stacks"]["ex"]
                if name == "mloc":
                    return f"mloc({stk.pop()})"
                if name == "ret":
                    a = stk.pop()
                    b = stk.pop()
                    return f"mslice(mloc({a}), int({b}))"
                if name == "sha3":
                    a = stk.pop()
                    b = stk.pop()
                    stk.push(f"any(sha3(mloc({a}), int({b})))")
                    return "None"
            if base in ("ex", "self") and name == "int_of" and call.args:
                return f"int({self.ev(call.args[0], st)})"
            recv = self.ev(f.value, st)
            return f"{recv}.{name}({self.ev_args(call, st)})"
        if isinstance(f, ast.Name):
            if f.id == "int_of" and call.args:
                return f"int({self.ev(call.args[0], st)})"
            if f.id == "int" and len(call.args) == 1:
                return f"int({self.ev(call.args[0], st)})"
            if f.id == "list" and len(call.args) == 1:
                return self.ev(call.args[0], st)
            return f"{f.id}({self.ev_args(call, st)})"
        return f"{self.ev(f, st)}({self.ev_args(call, st)})"

    # ---- statements
    def run_block(self, stmts, st, tail_kind="fall"):
        """interpret stmts on state st; returns list of surviving states (fell off the end)"""
        states = [st]
        for s in stmts:
            nxt = []
            for cur in states:
                nxt += self.run_stmt(s, cur)
            states = nxt
            if len(states) > self.max_paths:
                raise AnalysisError("stack interpreter: too many paths")
            if not states:
                break
        return states

    def run_stmt(self, s, st):
        if isinstance(s, (ast.FunctionDef, ast.AsyncFunctionDef, ast.ClassDef, ast.Pass, ast.Import, ast.ImportFrom)):
            return [st]
        if isinstance(s, ast.Expr):
            v = s.value
            if isinstance(v, ast.Constant):
                return [st]
            if isinstance(v, (ast.YieldFrom, ast.Yield)):
                self._record(st, "finalize")
                return [st]
            if isinstance(v, ast.Call):
                d = dotted(v.func)
                la = last_attr(v)
                if d == "stack.push" and v.args:
                    who = src(v.args[0])
                    self.ev(v.args[0], st)
                    owner = "ex" if st["env"].get(who) == "$ex" or who == "ex" else who
                    self._record(st, "push", owner)
                    return [st]
                if d.startswith("self.") and la in CONSUMERS:
                    summ = self.helper_summary.get(la)
                    for a in v.args:
                        self.ev(a, st)
                    if summ is None or summ[0] == "none":
                        self._record(st, f"helper:{la}")
                        return [st]
                    kind, stmts, binds = summ
                    saved = dict(st["env"])
                    for k, val in binds.items():
                        st["env"][k] = ("const", val)
                    states = self.run_block(stmts, st)
                    for cur in states:
                        cur["env"] = dict(saved)
                        if kind == "prefix+flag":
                            cur["stacks"]["ex"].push(f"<{la} flag>")
                            self._record(cur, f"helper:{la}")
                    return states if kind == "prefix+flag" else []
                txt = self.ev(v, st)
                if txt != "None" and not (isinstance(v.func, ast.Attribute) and self._owner_of(v.func.value, st) and la in STACK_OPS):
                    st["effects"].append(txt)
                return [st]
            self.ev(v, st)
            return [st]
        if isinstance(s, (ast.Assign, ast.AnnAssign)):
            if s.value is None:
                return [st]
            tgts = s.targets if isinstance(s, ast.Assign) else [s.target]
            val_node = s.value
            # forks: new_ex = self.create_branch(ex, ...) / X = ex
            if isinstance(val_node, ast.Call) and last_attr(val_node) == "create_branch" and isinstance(tgts[0], ast.Name):
                for a in val_node.args:
                    self.ev(a, st)
                name = tgts[0].id
                ns = _Stk(st["shared"])
                ns.items = list(st["stacks"]["ex"].items)
                st["shared"]["stacks"].append(ns)
                st["stacks"][name] = ns
                st["env"][name] = name
                return [st]
            if isinstance(val_node, ast.IfExp) and any(isinstance(b, ast.Call) and last_attr(b) == "create_branch" for b in (val_node.body, val_node.orelse)) and isinstance(tgts[0], ast.Name):
                # new_ex = create_branch(...) if cond else ex  -> two paths
                out = []
                for branch in (val_node.body, val_node.orelse):
                    c = self._clone(st)
                    fake = ast.Assign(targets=tgts, value=branch)
                    out += self.run_stmt(fake, c)
                return out
            if isinstance(val_node, ast.Name) and (val_node.id == "ex" or st["env"].get(val_node.id) == "$ex") and isinstance(tgts[0], ast.Name):
                if tgts[0].id == "next_ex":
                    self._record(st, "continue-next")
                else:
                    st["env"][tgts[0].id] = "$ex"
                return [st]
            v = self.ev(val_node, st)
            c = self.fold(val_node, st)
            for t in tgts:
                if isinstance(t, ast.Name):
                    st["env"][t.id] = ("const", c) if (c is not UNKNOWN and isinstance(c, (int, bool, str))) else v
                elif isinstance(t, (ast.Attribute, ast.Subscript)):
                    st["effects"].append(f"{self.ev(t, st)} = {v}")
                elif isinstance(t, ast.Tuple):
                    for i, e in enumerate(t.elts):
                        if isinstance(e, ast.Name):
                            st["env"][e.id] = f"{v}[{i}]"
            return [st]
        if isinstance(s, ast.AugAssign):
            self.ev(s.value, st)
            return [st]
        if isinstance(s, ast.If):
            t = self.fold(s.test, st)
            self.ev(s.test, st)
            if t is not UNKNOWN and isinstance(t, (bool, int)):
                return self.run_block(s.body if t else s.orelse, st)
            a = self._clone(st)
            b = self._clone(st)
            g = self.ev(s.test, self._clone(st))
            a["guards"].append(g)
            b["guards"].append(f"not {g}")
            return self.run_block(s.body, a) + self.run_block(s.orelse, b)
        if isinstance(s, ast.Match):
            self.ev(s.subject, st)
            out = []
            for c in s.cases:
                cs = self._clone(st)
                cs["guards"].append(f"case {src(c.pattern)}")
                out += self.run_block(c.body, cs)
            return out
        if isinstance(s, ast.For):
            # one representative iteration (bodies fork per element and hand the fork off)
            self.ev(s.iter, st)
            body_states = self.run_block(s.body, self._clone(st))
            # stack of the parent is unchanged by forked iterations; continue after the loop with st
            for bs in body_states:
                if bs["stacks"]["ex"].items != st["stacks"]["ex"].items or bs["shared"]["depth"] != st["shared"]["depth"]:
                    # the loop body itself changes the parent's stack: not supported unless bounded by range()
                    raise AnalysisError(f"loop changes the stack of the running state: {src(s)[:60]}")
            return [st]
        if isinstance(s, ast.While):
            raise AnalysisError("while loop inside an opcode arm")
        if isinstance(s, ast.Raise):
            self._record(st, "raise")
            return []
        if isinstance(s, ast.Continue):
            self._record(st, "continue")
            return []
        if isinstance(s, ast.Return):
            if s.value is not None:
                self.ev(s.value, st)
            self._record(st, "return")
            return []
        if isinstance(s, ast.Assert):
            self.ev(s.test, st)
            return [st]
        if isinstance(s, (ast.With, ast.Try)):
            raise AnalysisError(f"unsupported statement in an opcode arm: {type(s).__name__}")
        return [st]

    def run_arm(self, stmts):
        st = self._new_state()
        for cur in self.run_block(stmts, st):
            self._record(cur, "fall")
        return self.records


_OPS = {ast.Add: "+", ast.Sub: "-", ast.Mult: "*", ast.FloorDiv: "//", ast.Mod: "%", ast.LShift: "<<", ast.RShift: ">>", ast.BitAnd: "&", ast.BitOr: "|", ast.BitXor: "^", ast.Div: "/", ast.Pow: "**"}
_CMPS = {ast.Eq: "==", ast.NotEq: "!=", ast.Lt: "<", ast.LtE: "<=", ast.Gt: ">", ast.GtE: ">=", ast.In: "in", ast.NotIn: "not in", ast.Is: "is", ast.IsNot: "is not"}
