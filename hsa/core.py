"""Source model, reporting and evidence for the halmos static checkers.

Repo      : parses src/halmos/*.py of the *current working tree* (or in-memory overrides,
            used by the self-test) and indexes definitions by qualified name.
Report    : collects rule instances (checked obligations) and violations for one property.
"""

from __future__ import annotations

import ast
import hashlib
import json
import os
import re
import sys
import time
from dataclasses import dataclass, field

VERIF_ROOT = os.path.dirname(os.path.dirname(os.path.abspath(__file__)))
REPO_ROOT = os.environ.get("HSA_REPO", "/repo")
PKG_DIR = "src/halmos"


class AnalysisError(Exception):
    """The checker cannot decide (anchor vanished, unknown idiom, floor not met)."""


# --------------------------------------------------------------------------- source model


class Module:
    def __init__(self, name: str, path: str, src: str, tree: ast.AST | None = None, mutable_attrs=None):
        self.name = name
        self.path = path
        self.src = src
        try:
            self.tree = tree if tree is not None else ast.parse(src, filename=path)
        except SyntaxError as e:  # a tree that does not parse cannot be analysed
            raise AnalysisError(f"{path}: does not parse: {e}") from e
        # view the tree modulo local renaming / new wrappers / hoisted pure locals / keyword order (hsa/align.py)
        self.normalised: dict = {}
        if os.environ.get("HSA_NO_ALIGN") != "1":
            from . import align

            self.normalised = align.normalise(name, self.tree, mutable_attrs)
        self.parents: dict[ast.AST, ast.AST] = {}
        self.defs: dict[str, ast.AST] = {}
        self.qual_of: dict[ast.AST, str] = {}
        self.imports: dict[str, tuple[str, str]] = {}
        self.module_imports: dict[str, str] = {}
        self._index()

    def _index(self) -> None:
        for parent in ast.walk(self.tree):
            for child in ast.iter_child_nodes(parent):
                self.parents[child] = parent

        def visit(node: ast.AST, prefix: str) -> None:
            for child in ast.iter_child_nodes(node):
                if isinstance(
                    child, (ast.FunctionDef, ast.AsyncFunctionDef, ast.ClassDef)
                ):
                    q = f"{prefix}.{child.name}" if prefix else child.name
                    # first definition wins for lookups; later duplicates get a suffix
                    key = q
                    n = 2
                    while key in self.defs:
                        key = f"{q}#{n}"
                        n += 1
                    self.defs[key] = child
                    self.qual_of[child] = key
                    visit(child, key)
                else:
                    visit(child, prefix)

        visit(self.tree, "")

        for node in self.tree.body:
            if isinstance(node, ast.ImportFrom) and node.module:
                for a in node.names:
                    self.imports[a.asname or a.name] = (node.module, a.name)
            elif isinstance(node, ast.Import):
                for a in node.names:
                    self.module_imports[a.asname or a.name] = a.name

    # -- helpers
    def enclosing_def(self, node: ast.AST) -> ast.AST | None:
        cur = self.parents.get(node)
        while cur is not None:
            if isinstance(cur, (ast.FunctionDef, ast.AsyncFunctionDef, ast.ClassDef)):
                return cur
            cur = self.parents.get(cur)
        return None

    def enclosing_func(self, node: ast.AST) -> ast.AST | None:
        cur = self.parents.get(node)
        while cur is not None:
            if isinstance(cur, (ast.FunctionDef, ast.AsyncFunctionDef)):
                return cur
            cur = self.parents.get(cur)
        return None

    def qual(self, node: ast.AST) -> str:
        """qualified name of the innermost def containing node (or the def itself)"""
        if node in self.qual_of:
            return f"{self.name}.{self.qual_of[node]}"
        d = self.enclosing_def(node)
        if d is None:
            return f"{self.name}.<module>"
        return f"{self.name}.{self.qual_of[d]}"

    def where(self, node: ast.AST) -> str:
        return f"{self.path}:{getattr(node, 'lineno', 0)}"

    def ancestors(self, node: ast.AST):
        cur = self.parents.get(node)
        while cur is not None:
            yield cur
            cur = self.parents.get(cur)


class Repo:
    """All halmos modules of the working tree, parsed."""

    def __init__(self, root: str | None = None, overrides: dict[str, str] | None = None):
        self.root = root or REPO_ROOT
        self.modules: dict[str, Module] = {}
        self.digest = hashlib.sha256()
        pkg = os.path.join(self.root, PKG_DIR)
        if not os.path.isdir(pkg):
            raise AnalysisError(f"{pkg}: package directory not found")
        overrides = overrides or {}
        srcs: dict[str, tuple[str, str]] = {}
        for fn in sorted(os.listdir(pkg)):
            if not fn.endswith(".py"):
                continue
            name = fn[:-3]
            path = os.path.join(PKG_DIR, fn)
            if name in overrides:
                src = overrides[name]
            else:
                with open(os.path.join(pkg, fn), encoding="utf-8") as f:
                    src = f.read()
            self.digest.update(name.encode() + b"\0" + src.encode() + b"\0")
            srcs[name] = (path, src)
        trees = {}
        for name, (path, src) in srcs.items():
            try:
                trees[name] = ast.parse(src, filename=path)
            except SyntaxError as e:
                raise AnalysisError(f"{path}: does not parse: {e}") from e
        from . import align

        mutable = align.mutable_attributes(trees.values())
        from . import paths, purity

        self.purity = purity.Purity(trees)
        paths.PURITY = self.purity
        self.renamed_functions: dict[str, str] = {}
        self.erased: list[str] = []
        if os.environ.get("HSA_NO_ALIGN") != "1":
            paths.MUTABLE_ATTRS = mutable
            from . import erase

            self.erased = erase.erase_new_namedtuples(trees, align.reference_module_names)
            for t in trees.values():
                align.strip_annotations(t)
            self.renamed_functions = align.restore_function_names(trees)
            self.renamed_functions.update(align.restore_signatures(trees))
        for name, (path, src) in srcs.items():
            self.modules[name] = Module(name, path, src, trees[name], mutable)
        self._const_cache: dict[tuple[str, str], object] = {}

    def mod(self, name: str) -> Module:
        try:
            return self.modules[name]
        except KeyError:
            raise AnalysisError(f"module halmos.{name} not found") from None

    def fn(self, qual: str) -> tuple[Module, ast.FunctionDef]:
        """'sevm.SEVM.jumpi' -> (module, FunctionDef). Missing anchor = AnalysisError."""
        modname, _, rest = qual.partition(".")
        m = self.mod(modname)
        node = m.defs.get(rest)
        if node is None or not isinstance(
            node, (ast.FunctionDef, ast.AsyncFunctionDef)
        ):
            raise AnalysisError(f"anchor function {qual} not found")
        return m, node

    def has_fn(self, qual: str) -> bool:
        try:
            self.fn(qual)
            return True
        except AnalysisError:
            return False

    def cls(self, qual: str) -> tuple[Module, ast.ClassDef]:
        modname, _, rest = qual.partition(".")
        m = self.mod(modname)
        node = m.defs.get(rest)
        if node is None or not isinstance(node, ast.ClassDef):
            raise AnalysisError(f"anchor class {qual} not found")
        return m, node

    def functions(self, modname: str):
        m = self.mod(modname)
        for q, node in m.defs.items():
            if isinstance(node, (ast.FunctionDef, ast.AsyncFunctionDef)):
                yield q, node

    def const(self, modname: str, name: str):
        from hsa.fold import fold_module_const

        key = (modname, name)
        if key not in self._const_cache:
            self._const_cache[key] = fold_module_const(self, modname, name)
        return self._const_cache[key]


# --------------------------------------------------------------------------- ast helpers


def src(node: ast.AST | None) -> str:
    """normalised text of a node (whitespace/quotes/parens independent)"""
    if node is None:
        return "<none>"
    try:
        return ast.unparse(node)
    except Exception:  # pragma: no cover
        return f"<{type(node).__name__}>"


def short(text: str, n: int = 160) -> str:
    text = " ".join(text.split())
    return text if len(text) <= n else text[: n - 3] + "..."


def walk_no_nested(node: ast.AST, include_self: bool = True):
    """ast.walk that does not descend into nested function/class definitions/lambdas"""
    stack = [node] if include_self else list(ast.iter_child_nodes(node))
    first = True
    while stack:
        n = stack.pop()
        if not first or not include_self or n is not node:
            if isinstance(
                n, (ast.FunctionDef, ast.AsyncFunctionDef, ast.ClassDef, ast.Lambda)
            ):
                if n is not node:
                    continue
        first = False
        yield n
        stack.extend(reversed(list(ast.iter_child_nodes(n))))


def body_walk(fn: ast.AST):
    """all nodes in the body of fn, excluding nested defs (but including their def node)"""
    for stmt in fn.body:
        yield from _walk_stop(stmt)


def _walk_stop(node):
    yield node
    if isinstance(node, (ast.FunctionDef, ast.AsyncFunctionDef, ast.ClassDef, ast.Lambda)):
        return
    for c in ast.iter_child_nodes(node):
        yield from _walk_stop(c)


def calls_in(node: ast.AST, nested: bool = False):
    it = ast.walk(node) if nested else _walk_stop(node)
    for n in it:
        if isinstance(n, ast.Call):
            yield n


def call_name(call: ast.Call) -> str:
    """dotted name of the callee: 'ex.path.append', 'warn', 'self.create_branch'"""
    return dotted(call.func)


def dotted(node: ast.AST) -> str:
    if isinstance(node, ast.Name):
        return node.id
    if isinstance(node, ast.Attribute):
        return f"{dotted(node.value)}.{node.attr}"
    if isinstance(node, ast.Call):
        return f"{dotted(node.func)}()"
    if isinstance(node, ast.Subscript):
        return f"{dotted(node.value)}[]"
    return f"<{type(node).__name__}>"


def last_attr(call: ast.Call) -> str:
    f = call.func
    if isinstance(f, ast.Attribute):
        return f.attr
    if isinstance(f, ast.Name):
        return f.id
    return ""


def kwarg(call: ast.Call, name: str) -> ast.AST | None:
    for k in call.keywords:
        if k.arg == name:
            return k.value
    return None


def arg_or_kw(call: ast.Call, idx: int, name: str) -> ast.AST | None:
    v = kwarg(call, name)
    if v is not None:
        return v
    if idx < len(call.args):
        return call.args[idx]
    return None


def names_in(node: ast.AST) -> set[str]:
    return {n.id for n in ast.walk(node) if isinstance(n, ast.Name)}


def stmt_of(m: Module, node: ast.AST) -> ast.stmt:
    cur = node
    while not isinstance(cur, ast.stmt):
        cur = m.parents[cur]
    return cur


def find_assign(fn: ast.AST, name: str) -> list[ast.AST]:
    """assignments `name = ...` / `name: T = ...` in fn (not nested defs); returns value nodes"""
    out = []
    for n in body_walk(fn):
        if isinstance(n, ast.Assign):
            for t in n.targets:
                if isinstance(t, ast.Name) and t.id == name:
                    out.append(n.value)
                elif isinstance(t, ast.Tuple):
                    for i, e in enumerate(t.elts):
                        if isinstance(e, ast.Name) and e.id == name:
                            if isinstance(n.value, ast.Tuple) and len(
                                n.value.elts
                            ) == len(t.elts):
                                out.append(n.value.elts[i])
                            else:
                                out.append(n.value)
        elif isinstance(n, ast.AnnAssign) and n.value is not None:
            if isinstance(n.target, ast.Name) and n.target.id == name:
                out.append(n.value)
        elif isinstance(n, ast.NamedExpr):
            if isinstance(n.target, ast.Name) and n.target.id == name:
                out.append(n.value)
    return out


# --------------------------------------------------------------------------- reporting


@dataclass
class Instance:
    rule: str
    where: str
    construct: str  # qualified function
    text: str
    ok: bool
    msg: str = ""

    @property
    def key(self) -> str:
        return f"{self.rule}|{self.construct}|{short(self.text, 200)}"


@dataclass
class Report:
    prop: str
    instances: list[Instance] = field(default_factory=list)
    errors: list[str] = field(default_factory=list)
    units: dict = field(default_factory=dict)
    rules: dict[str, str] = field(default_factory=dict)
    exhaustive_tables: dict[str, int] = field(default_factory=dict)

    def rule(self, rid: str, desc: str) -> None:
        self.rules[rid] = desc

    def add(self, rule, m: Module | None, node, text, ok, msg="", construct=None):
        if m is not None and node is not None:
            where = m.where(node)
            construct = construct or m.qual(node)
        else:
            where = "-"
            construct = construct or "-"
        inst = Instance(rule, where, construct, short(text, 300), bool(ok), msg)
        self.instances.append(inst)
        return ok

    def ok(self, rule, m, node, text, construct=None):
        return self.add(rule, m, node, text, True, construct=construct)

    def bad(self, rule, m, node, text, msg, construct=None):
        return self.add(rule, m, node, text, False, msg, construct=construct)

    def check(self, rule, cond, m, node, text, msg, construct=None):
        return self.add(rule, m, node, text, cond, "" if cond else msg, construct)

    def floor(self, rule: str, n_expected: int, what: str = "") -> None:
        """fewer instances than confirmed by hand = the rule lost its anchor"""
        n = sum(1 for i in self.instances if i.rule == rule)
        if n < n_expected:
            raise AnalysisError(
                f"{rule}: only {n} instance(s) found, at least {n_expected} expected"
                f"{' (' + what + ')' if what else ''}"
            )

    def count(self, rule: str) -> int:
        return sum(1 for i in self.instances if i.rule == rule)

    def table(self, name: str, n: int) -> None:
        self.exhaustive_tables[name] = n

    @property
    def violations(self) -> list[Instance]:
        return [i for i in self.instances if not i.ok]


# --------------------------------------------------------------------------- known findings


def load_known_findings() -> list[dict]:
    p = os.path.join(VERIF_ROOT, "known_findings.json")
    if not os.path.exists(p):
        return []
    with open(p) as f:
        data = json.load(f)
    return data.get("findings", [])


def match_known(inst: Instance, findings: list[dict], prop: str) -> dict | None:
    """A known finding matches by rule + construct + a normalised-text fragment.
    Only status == 'known' suppresses; 'fixed' entries suppress nothing."""
    for f in findings:
        if f.get("status") != "known":
            continue
        if f.get("property") != prop or f.get("rule") != inst.rule:
            continue
        if f.get("construct") != inst.construct:
            continue
        frag = f.get("text_contains", "")
        if frag and frag not in inst.text:
            continue
        return f
    return None


# --------------------------------------------------------------------------- evidence


def write_evidence(
    rep: Report,
    tier: str,
    seed: int,
    wall: float,
    explanation: str,
    assumptions: list[str],
    n_new_violations: int,
    known: list[tuple[Instance, dict]],
    extra: dict | None = None,
) -> str:
    evdir = os.path.join(VERIF_ROOT, "evidence")
    os.makedirs(evdir, exist_ok=True)
    insts = rep.instances
    distinct = {i.key for i in insts}
    per_rule: dict[str, dict] = {}
    for i in insts:
        d = per_rule.setdefault(
            i.rule, {"desc": rep.rules.get(i.rule, ""), "instances": 0, "held": 0}
        )
        d["instances"] += 1
        d["held"] += 1 if i.ok else 0
    samples = []
    seen_rules: dict[str, int] = {}
    for i in insts:
        k = seen_rules.get(i.rule, 0)
        if k < 3:
            seen_rules[i.rule] = k + 1
            samples.append(
                {
                    "rule": i.rule,
                    "where": i.where,
                    "construct": i.construct,
                    "text": i.text,
                    "held": i.ok,
                }
            )
    coverage = {
        "explanation": explanation,
        "obligations": len(insts),
        "discharged": sum(1 for i in insts if i.ok),
        "evaluations": len(insts),
        "distinct_nontrivial": len(distinct),
        "rule": "one evaluation = one rule instance located in the parsed source of /repo "
        "(rule id + qualified construct + normalised statement text); distinct = distinct keys; "
        "an instance is non-trivial because a rule only registers an instance when it found "
        "the construct it reasons about (floors make a vanished anchor an analysis error)",
        "samples": samples,
        "rules": per_rule,
        "units_analysed": rep.units,
        "exhaustive_tables": rep.exhaustive_tables,
        "exhaustive": False,
        "checker_cmd": f"/verif/check {rep.prop} --tier {tier}",
        "trusted_base": [
            "CPython ast/compile/re._parser",
            "hsa engine (/verif/hsa): resolver, folder, flow walker, stack interpreter",
            "frozen spec tables under /verif/hsa/spec (EVM stack deltas, Forge/SVM signatures, ABI, SMT-LIB ops); signatures are hash-checked",
        ],
        "known_findings_reported": [
            {"key": i.key, "what": f.get("what", "")} for i, f in known
        ],
        "analysis_errors": rep.errors,
    }
    if extra:
        coverage.update(extra)
    ev = {
        "property_id": rep.prop,
        "tier": tier,
        "seed": seed,
        "level": "other",
        "coverage": coverage,
        "assumptions": assumptions,
        "wall_s": round(wall, 3),
        "violations": n_new_violations,
    }
    path = os.path.join(evdir, f"{rep.prop}.json")
    tmp = path + ".tmp"
    with open(tmp, "w") as f:
        json.dump(ev, f, indent=1, sort_keys=False)
    os.replace(tmp, path)
    return path


def write_violation(prop: str, n: int, inst: Instance) -> str:
    vdir = os.path.join(VERIF_ROOT, "evidence", "violations")
    os.makedirs(vdir, exist_ok=True)
    path = os.path.join(vdir, f"{prop}-{n}.json")
    with open(path, "w") as f:
        json.dump(
            {
                "property": prop,
                "rule": inst.rule,
                "where": inst.where,
                "construct": inst.construct,
                "text": inst.text,
                "message": inst.msg,
                "key": inst.key,
            },
            f,
            indent=1,
        )
    return path
