"""hsa — halmos static analysis: repo-specific checkers over the source of /repo.

Nothing in this package imports or runs halmos; every verdict is computed from the
parsed source text of the current working tree (see /verif/DESIGN.md).
"""
