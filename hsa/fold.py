"""Constant folder over the repo's AST.

Evaluates closed expressions (ints, strs, bytes, tuples, lists, dicts, sets, arithmetic,
comparisons, boolean operators, membership, names resolved through the module and its
`from halmos.x import Y as Z` imports, class-level constants such as `EVM.STOP`).
It evaluates expressions with the checker's own evaluator; it never executes repo code.
"""

from __future__ import annotations

import ast
import operator

from hsa.core import AnalysisError, Repo


class _Unknown:
    def __repr__(self):
        return "UNKNOWN"

    def __bool__(self):
        raise TypeError("truth value of UNKNOWN")


UNKNOWN = _Unknown()

_BIN = {
    ast.Add: operator.add,
    ast.Sub: operator.sub,
    ast.Mult: operator.mul,
    ast.FloorDiv: operator.floordiv,
    ast.Mod: operator.mod,
    ast.LShift: operator.lshift,
    ast.RShift: operator.rshift,
    ast.BitAnd: operator.and_,
    ast.BitOr: operator.or_,
    ast.BitXor: operator.xor,
    ast.Div: operator.truediv,
}
_CMP = {
    ast.Eq: operator.eq,
    ast.NotEq: operator.ne,
    ast.Lt: operator.lt,
    ast.LtE: operator.le,
    ast.Gt: operator.gt,
    ast.GtE: operator.ge,
    ast.Is: operator.is_,
    ast.IsNot: operator.is_not,
}


class Folder:
    def __init__(self, repo: Repo, modname: str, env: dict | None = None):
        self.repo = repo
        self.modname = modname
        self.env = env or {}

    def lookup(self, name: str):
        if name in self.env:
            return self.env[name]
        if name in ("True", "False", "None"):
            return {"True": True, "False": False, "None": None}[name]
        return self.repo.const(self.modname, name)

    def fold(self, node: ast.AST):
        try:
            return self._fold(node)
        except (TypeError, ValueError, ZeroDivisionError, KeyError, IndexError, OverflowError):
            return UNKNOWN

    def _fold(self, node):
        if isinstance(node, ast.Constant):
            return node.value
        if isinstance(node, ast.Name):
            return self.lookup(node.id)
        if isinstance(node, ast.Attribute):
            # Class.CONST (e.g. EVM.STOP, Exitcode.PASS.value, ConfigSource.default)
            base = node.value
            if isinstance(base, ast.Name):
                v = self.lookup_class_attr(base.id, node.attr)
                if v is not UNKNOWN:
                    return v
            if node.attr == "value" and isinstance(base, ast.Attribute):
                return self._fold(base)
            return UNKNOWN
        if isinstance(node, ast.UnaryOp):
            v = self._fold(node.operand)
            if v is UNKNOWN:
                return UNKNOWN
            if isinstance(node.op, ast.Not):
                return not v
            if isinstance(node.op, ast.USub):
                return -v
            if isinstance(node.op, ast.Invert):
                return ~v
            if isinstance(node.op, ast.UAdd):
                return +v
        if isinstance(node, ast.BinOp):
            l, r = self._fold(node.left), self._fold(node.right)
            if l is UNKNOWN or r is UNKNOWN:
                return UNKNOWN
            if isinstance(node.op, ast.Pow):
                if isinstance(r, int) and abs(r) > 4096:
                    return UNKNOWN
                return l**r
            if isinstance(node.op, ast.LShift) and isinstance(r, int) and r > 1 << 16:
                return UNKNOWN
            f = _BIN.get(type(node.op))
            return f(l, r) if f else UNKNOWN
        if isinstance(node, ast.BoolOp):
            if isinstance(node.op, ast.And):
                res = True
                for v in node.values:
                    x = self._fold(v)
                    if x is UNKNOWN:
                        return UNKNOWN
                    res = x
                    if not x:
                        return x
                return res
            res = False
            for v in node.values:
                x = self._fold(v)
                if x is UNKNOWN:
                    return UNKNOWN
                res = x
                if x:
                    return x
            return res
        if isinstance(node, ast.Compare):
            left = self._fold(node.left)
            if left is UNKNOWN:
                return UNKNOWN
            for op, comp in zip(node.ops, node.comparators):
                right = self._fold(comp)
                if right is UNKNOWN:
                    return UNKNOWN
                if isinstance(op, ast.In):
                    r = left in right
                elif isinstance(op, ast.NotIn):
                    r = left not in right
                else:
                    r = _CMP[type(op)](left, right)
                if not r:
                    return False
                left = right
            return True
        if isinstance(node, ast.IfExp):
            t = self._fold(node.test)
            if t is UNKNOWN:
                return UNKNOWN
            return self._fold(node.body if t else node.orelse)
        if isinstance(node, (ast.Tuple, ast.List, ast.Set)):
            vals = [self._fold(e) for e in node.elts]
            if any(v is UNKNOWN for v in vals):
                return UNKNOWN
            if isinstance(node, ast.Tuple):
                return tuple(vals)
            if isinstance(node, ast.List):
                return list(vals)
            return set(vals)
        if isinstance(node, ast.Dict):
            out = {}
            for k, v in zip(node.keys, node.values):
                if k is None:
                    return UNKNOWN
                kk, vv = self._fold(k), self._fold(v)
                if kk is UNKNOWN or vv is UNKNOWN:
                    return UNKNOWN
                out[kk] = vv
            return out
        if isinstance(node, ast.Subscript):
            base = self._fold(node.value)
            if base is UNKNOWN:
                return UNKNOWN
            if isinstance(node.slice, ast.Slice):
                lo = self._fold(node.slice.lower) if node.slice.lower else None
                hi = self._fold(node.slice.upper) if node.slice.upper else None
                if lo is UNKNOWN or hi is UNKNOWN:
                    return UNKNOWN
                return base[lo:hi]
            idx = self._fold(node.slice)
            if idx is UNKNOWN:
                return UNKNOWN
            return base[idx]
        if isinstance(node, ast.Call):
            fn = node.func
            args = [self._fold(a) for a in node.args]
            if any(a is UNKNOWN for a in args) or node.keywords:
                return UNKNOWN
            if isinstance(fn, ast.Name):
                if fn.id == "range" and all(isinstance(a, int) for a in args):
                    return range(*args)
                if fn.id in ("len", "int", "min", "max", "abs", "bool", "tuple", "list", "set", "frozenset", "str", "sum"):
                    return {
                        "len": len, "int": int, "min": min, "max": max, "abs": abs,
                        "bool": bool, "tuple": tuple, "list": list, "set": set,
                        "frozenset": frozenset, "str": str, "sum": sum,
                    }[fn.id](*args)
            if isinstance(fn, ast.Attribute):
                if (
                    fn.attr == "fromhex"
                    and isinstance(fn.value, ast.Name)
                    and fn.value.id == "bytes"
                    and len(args) == 1
                ):
                    return bytes.fromhex(args[0])
            return UNKNOWN
        if isinstance(node, ast.JoinedStr):
            parts = []
            for v in node.values:
                if isinstance(v, ast.Constant):
                    parts.append(str(v.value))
                elif isinstance(v, ast.FormattedValue) and v.format_spec is None and v.conversion == -1:
                    x = self._fold(v.value)
                    if x is UNKNOWN:
                        return UNKNOWN
                    parts.append(str(x))
                else:
                    return UNKNOWN
            return "".join(parts)
        return UNKNOWN

    def lookup_class_attr(self, clsname: str, attr: str):
        """Class-level constant `Cls.ATTR` where Cls is defined or imported in this module."""
        modname, name = resolve_name(self.repo, self.modname, clsname)
        if modname is None:
            return UNKNOWN
        m = self.repo.modules[modname]
        c = m.defs.get(name)
        if not isinstance(c, ast.ClassDef):
            return UNKNOWN
        return class_consts(self.repo, modname, c).get(attr, UNKNOWN)


def resolve_name(repo: Repo, modname: str, name: str, depth: int = 0):
    """Follow `from halmos.x import Y as Z` chains to the defining module."""
    if depth > 6:
        return None, None
    m = repo.modules.get(modname)
    if m is None:
        return None, None
    if name in m.imports:
        src_mod, orig = m.imports[name]
        if src_mod.startswith("halmos."):
            return resolve_name(repo, src_mod[len("halmos."):], orig, depth + 1)
        if src_mod == "halmos":
            return resolve_name(repo, orig, orig, depth + 1)
        return None, None
    return modname, name


def class_consts(repo: Repo, modname: str, c: ast.ClassDef) -> dict:
    out = {}
    f = Folder(repo, modname, out)
    for st in c.body:
        if isinstance(st, ast.Assign) and len(st.targets) == 1 and isinstance(st.targets[0], ast.Name):
            v = f.fold(st.value)
            if v is not UNKNOWN:
                out[st.targets[0].id] = v
        elif isinstance(st, ast.AnnAssign) and isinstance(st.target, ast.Name) and st.value is not None:
            v = f.fold(st.value)
            if v is not UNKNOWN:
                out[st.target.id] = v
    return out


_IN_PROGRESS: set = set()


def fold_module_const(repo: Repo, modname: str, name: str):
    """Value of a module-level constant (last simple assignment wins), following imports."""
    mod2, name2 = resolve_name(repo, modname, name)
    if mod2 is None:
        return UNKNOWN
    if (mod2, name2) != (modname, name):
        return repo.const(mod2, name2)
    key = (modname, name)
    if key in _IN_PROGRESS:
        return UNKNOWN
    _IN_PROGRESS.add(key)
    try:
        m = repo.modules[modname]
        val = UNKNOWN
        f = Folder(repo, modname)
        for st in m.tree.body:
            if isinstance(st, ast.Assign):
                for t in st.targets:
                    if isinstance(t, ast.Name) and t.id == name:
                        val = f.fold(st.value)
                    elif isinstance(t, ast.Tuple) and isinstance(st.value, ast.Tuple):
                        for te, ve in zip(t.elts, st.value.elts):
                            if isinstance(te, ast.Name) and te.id == name:
                                val = f.fold(ve)
            elif isinstance(st, ast.AnnAssign) and isinstance(st.target, ast.Name):
                if st.target.id == name and st.value is not None:
                    val = f.fold(st.value)
        return val
    finally:
        _IN_PROGRESS.discard(key)


def fold_in(repo: Repo, modname: str, node: ast.AST, env: dict | None = None):
    return Folder(repo, modname, env).fold(node)


def must_const(repo: Repo, modname: str, name: str):
    v = repo.const(modname, name)
    if v is UNKNOWN:
        raise AnalysisError(f"constant {modname}.{name} could not be folded")
    return v
