"""Wrapper resolution: calls to helpers that the reviewed reference does not have are viewed inlined.

The rules know the helper structure of the reviewed reference tree (hsa/reference).  When an edit moves a fragment of a
function into a *new* private helper of the same module/class ("extract method"), the behaviour is unchanged but the
fragment vanishes from the function the rule is anchored in.  Following the guidance "treat a wrapper as the thing it
wraps", every call to a function that is new with respect to the reference is replaced, in the analysed AST only, by
the helper's body with parameters substituted:

  expression level   helper body is `return <expr>` (after an optional docstring): the call is replaced by <expr>
  `return h(..)`     the body is spliced in place (its returns become the caller's returns)
  `h(..)`            (expression statement) body without value-returning `return`, bare `return` only as last statement
  `x = h(..)`        straight-line body whose only return is the last statement: body + `x = <expr>`
  `yield from h(..)` generator body without `return`

Arguments are substituted directly when they are pure (names, constants, attribute chains) or when the parameter is
used at most once; otherwise the parameter is bound by an assignment in front of the spliced body.  Helper locals that
collide with names of the caller are renamed.  Helpers that do not fit (recursion, *args/**kwargs, decorators other
than staticmethod/classmethod, nested defs) are left as calls, and the rules see the tree as written.
"""

from __future__ import annotations

import ast
import copy

FuncT = (ast.FunctionDef, ast.AsyncFunctionDef)


def _strip_doc(body):
    if body and isinstance(body[0], ast.Expr) and isinstance(getattr(body[0], "value", None), ast.Constant) and isinstance(body[0].value.value, str):
        return body[1:]
    return body


def _is_pure(e) -> bool:
    if isinstance(e, (ast.Name, ast.Constant)):
        return True
    if isinstance(e, ast.Attribute):
        return _is_pure(e.value)
    if isinstance(e, ast.Subscript):
        return _is_pure(e.value) and isinstance(e.slice, ast.Constant)
    if isinstance(e, ast.UnaryOp) and isinstance(e.operand, ast.Constant):
        return True
    return False


def _own_nodes(fn):
    """nodes of fn that are not inside a nested function / lambda / class"""
    stack = list(ast.iter_child_nodes(fn))
    while stack:
        n = stack.pop()
        yield n
        if isinstance(n, (*FuncT, ast.Lambda, ast.ClassDef)):
            continue
        stack.extend(ast.iter_child_nodes(n))


def _stored_in(body) -> set[str]:
    out = set()
    for s in body:
        for n in ast.walk(s):
            if isinstance(n, ast.Name) and isinstance(n.ctx, (ast.Store, ast.Del)):
                out.add(n.id)
    return out


def _return_chain(body):
    """the value of a block that consists only of if-arms ending in `return E` and a final `return E` (None otherwise)"""
    if not body:
        return None
    first, rest = body[0], body[1:]
    if isinstance(first, ast.Return):
        return copy.deepcopy(first.value) if first.value is not None and not rest else None
    if isinstance(first, ast.If):
        b = _return_chain(first.body)
        if b is None:
            return None
        # the else arm: its own chain if it returns on every path, otherwise what follows the if
        o = _return_chain(first.orelse) if first.orelse else None
        if first.orelse and o is None:
            return None
        if o is None:
            o = _return_chain(rest)
        elif rest:
            return None  # dead code after an if/else that always returns
        if o is None:
            return None
        return ast.IfExp(test=copy.deepcopy(first.test), body=b, orelse=o)
    return None


class Helper:
    def __init__(self, fn, kind: str):
        self.fn = fn
        self.kind = kind  # 'function' | 'static' | 'class' | 'method'
        a = fn.args
        self.ok = not (a.vararg or a.kwarg or a.posonlyargs)
        self.params = [x.arg for x in a.args] + [x.arg for x in a.kwonlyargs]
        self.defaults: dict[str, ast.AST] = {}
        pos = [x.arg for x in a.args]
        for name, d in zip(pos[len(pos) - len(a.defaults):], a.defaults):
            self.defaults[name] = d
        for x, d in zip(a.kwonlyargs, a.kw_defaults):
            if d is not None:
                self.defaults[x.arg] = d
        self.body = _strip_doc(fn.body)
        # `if a: return X` / `if b: return Y` / `return Z` (nothing else) is `return X if a else (Y if b else Z)`
        chain = _return_chain(self.body)
        if chain is not None and len(self.body) > 1:
            self.body = [ast.copy_location(ast.Return(value=chain), self.body[0])]
            ast.fix_missing_locations(self.body[0])
        self.inner_bound: set[str] = set()  # names rebound by functions nested in the helper
        for n in ast.walk(fn):
            if n is not fn and isinstance(n, (ast.ClassDef, ast.Global, ast.Nonlocal)):
                self.ok = False
            elif n is not fn and isinstance(n, (*FuncT, ast.Lambda)):
                # nested functions are fine as long as they do not rebind a parameter of the helper (substitution
                # of the parameter would otherwise reach the wrong variable)
                inner = {a.arg for a in ast.walk(n.args) if isinstance(a, ast.arg)}
                if isinstance(n, FuncT):
                    inner |= _stored_in(n.body)
                self.inner_bound |= inner
        self.returns = [n for n in _own_nodes(fn) if isinstance(n, ast.Return)]
        self.is_gen = any(isinstance(n, (ast.Yield, ast.YieldFrom)) for n in _own_nodes(fn))
        self.single_expr = (
            len(self.body) == 1 and isinstance(self.body[0], ast.Return) and self.body[0].value is not None and not self.is_gen
        )

    def bind(self, call: ast.Call, recv: ast.AST | None):
        """param name -> argument expression (None if the call does not fit)"""
        params = list(self.params)
        binds: dict[str, ast.AST] = {}
        if self.kind in ("method", "class"):
            if not params:
                return None
            binds[params[0]] = recv if recv is not None else ast.Name(id=params[0], ctx=ast.Load())
            params = params[1:]
        if any(isinstance(a, ast.Starred) for a in call.args) or any(k.arg is None for k in call.keywords):
            return None
        if len(call.args) > len(params):
            return None
        for p, a in zip(params, call.args):
            binds[p] = a
        for k in call.keywords:
            if k.arg not in params or k.arg in binds:
                return None
            binds[k.arg] = k.value
        for p in params:
            if p not in binds:
                if p in self.defaults:
                    binds[p] = self.defaults[p]
                else:
                    return None
        return binds


class _Sub(ast.NodeTransformer):
    def __init__(self, m: dict[str, ast.AST]):
        self.m = m

    def visit_Name(self, node):
        if node.id in self.m and isinstance(node.ctx, ast.Load):
            return copy.deepcopy(self.m[node.id])
        return node


class _Ren(ast.NodeVisitor):
    def __init__(self, m):
        self.m = m

    def visit_Name(self, node):
        if node.id in self.m:
            node.id = self.m[node.id]


def _uses(body, name) -> int:
    return sum(1 for s in body for n in ast.walk(s) if isinstance(n, ast.Name) and n.id == name and isinstance(n.ctx, ast.Load))


def _stored(body) -> set[str]:
    out = set()
    for s in body:
        for n in ast.walk(s):
            if isinstance(n, ast.Name) and isinstance(n.ctx, (ast.Store, ast.Del)):
                out.add(n.id)
            elif isinstance(n, ast.ExceptHandler) and n.name:
                out.add(n.name)
    return out


def _names(node) -> set[str]:
    return {n.id for n in ast.walk(node) if isinstance(n, ast.Name)}


def _instantiate(h: Helper, binds, caller_names: set[str], at: ast.AST, hbody=None, inplace=frozenset()):
    """copy of the helper body with parameters substituted; returns (prefix assignments, body).
    inplace: parameters that the call site threads through a caller variable of the same name (`x = h(.., x, ..)`
    with `return x`): the helper's rebinding of the parameter *is* the caller's variable"""
    body = copy.deepcopy(h.body) if hbody is None else hbody
    stored = _stored(body)
    direct, prefix = {}, []
    for p, a in binds.items():
        if p in inplace:
            continue
        if p in stored:
            # the helper rebinds its parameter: bind it explicitly
            prefix.append(ast.Assign(targets=[ast.Name(id=p, ctx=ast.Store())], value=copy.deepcopy(a), lineno=at.lineno, col_offset=at.col_offset))
        elif _is_pure(a) or _uses(body, p) <= 1:
            direct[p] = a
        else:
            prefix.append(ast.Assign(targets=[ast.Name(id=p, ctx=ast.Store())], value=copy.deepcopy(a), lineno=at.lineno, col_offset=at.col_offset))
    # a parameter that a nested function of the helper rebinds can only be substituted by itself
    for p, a in direct.items():
        if p in h.inner_bound and not (isinstance(a, ast.Name) and a.id == p):
            return None, None
    for s in prefix:
        if s.targets[0].id in h.inner_bound:
            return None, None
    # helper locals colliding with the caller's names
    bound_by_prefix = {s.targets[0].id for s in prefix}
    ren = {}
    arg_names = set()
    for a in binds.values():
        arg_names |= _names(a)
    for loc in stored | bound_by_prefix:
        if loc in inplace:
            continue
        if loc in caller_names or (loc in arg_names and loc not in binds):
            ren[loc] = loc + "__h"
    if ren:
        for s in body:
            _Ren(ren).visit(s)
        for s in prefix:
            s.targets[0].id = ren.get(s.targets[0].id, s.targets[0].id)
    body = [_Sub(direct).visit(s) for s in body]
    for s in [*prefix, *body]:
        ast.fix_missing_locations(s)
    return prefix, body


def _is_bare_return(st) -> bool:
    return isinstance(st, ast.Return) and (st.value is None or (isinstance(st.value, ast.Constant) and st.value.value is None))


def eliminate_early_returns(body: list) -> list | None:
    """rewrite `if c: ...; return` followed by REST as `if c: ... else: REST` (bare returns only, outside loops);
    None if some value-less return cannot be removed this way"""
    out: list = []
    for i, st in enumerate(body):
        rest = body[i + 1 :]
        if _is_bare_return(st):
            return out  # everything after it is dead
        if isinstance(st, ast.If):
            b = eliminate_tail(st.body)
            o = eliminate_tail(st.orelse)
            if b is None or o is None:
                return None
            b_ret, b_body = b
            o_ret, o_body = o
            if b_ret or o_ret:
                r = eliminate_early_returns(rest)
                if r is None:
                    return None
                new = ast.copy_location(ast.If(test=st.test, body=b_body or [ast.copy_location(ast.Pass(), st)], orelse=o_body), st)
                if b_ret and o_ret:
                    pass  # both arms return: the rest is dead
                elif b_ret:
                    new.orelse = [*o_body, *r]
                else:
                    new.body = [*(b_body or []), *r] or [ast.copy_location(ast.Pass(), st)]
                out.append(new)
                return out
            out.append(st)
            continue
        if any(isinstance(n, ast.Return) for n in _own_nodes_stmt(st)):
            return None  # a return inside a loop / with / try: not handled
        out.append(st)
    return out


def eliminate_tail(body: list):
    """(ends with a bare return?, body without it) -- None if the block contains returns elsewhere"""
    if not body:
        return False, []
    if _is_bare_return(body[-1]):
        head = body[:-1]
        if any(isinstance(n, ast.Return) for s in head for n in _own_nodes_stmt(s)):
            return None
        return True, head
    if any(isinstance(n, ast.Return) for s in body for n in _own_nodes_stmt(s)):
        # nested early returns inside this arm: try recursively
        r = eliminate_early_returns(body)
        if r is None or any(isinstance(n, ast.Return) for s in r for n in _own_nodes_stmt(s)):
            return None
        return False, r
    return False, body


def _own_nodes_stmt(st):
    yield st
    stack = list(ast.iter_child_nodes(st))
    while stack:
        n = stack.pop()
        yield n
        if isinstance(n, (*FuncT, ast.Lambda, ast.ClassDef)):
            continue
        stack.extend(ast.iter_child_nodes(n))


def _ends_with_terminator(body) -> bool:
    return bool(body) and isinstance(body[-1], (ast.Return, ast.Raise))


def _free_names(h: "Helper") -> set[str]:
    bound = set(h.params) | _stored(h.fn.body)
    return {n.id for s in h.fn.body for n in ast.walk(s) if isinstance(n, ast.Name) and isinstance(n.ctx, ast.Load)} - bound


def _bound_in(g) -> set[str]:
    out = {a.arg for a in ast.walk(g.args) if isinstance(a, ast.arg)} | _stored(g.body)
    for n in ast.walk(g):
        if isinstance(n, ast.Nonlocal):
            out -= set(n.names)
    return out


def inline_new_helpers(tree: ast.Module, ref_defs: set[str], ref_nested: dict[str, set[str]], rename_shadowing: bool = False) -> list[str]:
    """ref_defs: qualified names of functions of the reference module; ref_nested: names of the defs nested in each of
    them.  Returns the list of inlined call sites."""
    # collect candidate helpers
    helpers: dict[tuple[str | None, str], Helper] = {}

    def kind_of(fn, in_class):
        decos = [ast.unparse(d) for d in fn.decorator_list]
        if any(d not in ("staticmethod", "classmethod") for d in decos):
            return None
        if not in_class:
            return "function" if not decos else None
        if "staticmethod" in decos:
            return "static"
        if "classmethod" in decos:
            return "class"
        return "method"

    for node in tree.body:
        if isinstance(node, FuncT) and node.name not in ref_defs:
            k = kind_of(node, False)
            if k:
                helpers[(None, node.name)] = Helper(node, k)
        elif isinstance(node, ast.ClassDef):
            for sub in node.body:
                if isinstance(sub, FuncT) and f"{node.name}.{sub.name}" not in ref_defs:
                    k = kind_of(sub, True)
                    if k:
                        helpers[(node.name, sub.name)] = Helper(sub, k)
    helpers = {k: h for k, h in helpers.items() if h.ok}
    done: list[str] = []
    local_helpers: dict[str, Helper] = {}

    def resolve(call: ast.Call, cls: str | None):
        f = call.func
        if isinstance(f, ast.Name):
            if f.id in local_helpers:
                return local_helpers[f.id], None
            h = helpers.get((None, f.id))
            return (h, None) if h and h.kind == "function" else (None, None)
        if isinstance(f, ast.Attribute) and isinstance(f.value, ast.Name):
            base = f.value.id
            if cls and base in ("self", "cls"):
                h = helpers.get((cls, f.attr))
                if h:
                    return h, f.value
            h = helpers.get((base, f.attr))
            if h and h.kind in ("static", "class"):
                return h, f.value
        return None, None

    def process_function(fn, cls: str | None, depth=0):
        if depth > 3:
            return
        # closures defined directly in this function that the reference version does not have
        local_helpers.clear()
        q = f"{cls}.{fn.name}" if cls else fn.name
        if q in ref_defs:
            known = ref_nested.get(q, set())
            for st in fn.body:
                if isinstance(st, FuncT) and st.name not in known and not st.decorator_list:
                    h = Helper(st, "function")
                    # closures that contain closures are left alone (their scopes are rewritten while they are used)
                    leaf = not any(isinstance(n, (*FuncT, ast.Lambda)) for n in ast.walk(st) if n is not st)
                    if h.ok and (leaf or not rename_shadowing):
                        local_helpers[st.name] = h
        if not helpers and not local_helpers:
            return
        caller_names = _names(fn) | {a.arg for a in ast.walk(fn) if isinstance(a, ast.arg)}

        # -- statement level
        def shadowing_ok(h: Helper, scopes) -> bool:
            """the helper's free variables must mean the same at the call site as where the helper is defined"""
            free = _free_names(h)
            is_local = any(h is lh for lh in local_helpers.values())
            check = list(scopes) if is_local else [fn, *scopes]
            for g in check:
                clash = free & _bound_in(g)
                if h.kind in ("method", "class"):
                    clash -= {h.params[0]} if h.params else set()
                if not clash:
                    continue
                if not (rename_shadowing and g is not fn):
                    return False
                # comparison copies only: give the shadowing bindings of the nested function fresh names
                for c in ast.walk(fn):
                    if isinstance(c, ast.Call) and isinstance(c.func, ast.Name) and c.func.id == g.name and any(k.arg in clash for k in c.keywords):
                        return False
                for n in ast.walk(g):
                    if isinstance(n, ast.Name) and n.id in clash:
                        n.id += "__s"
                    elif isinstance(n, ast.arg) and n.arg in clash:
                        n.arg += "__s"
            return True

        def rewrite_body(body: list, scopes=()) -> list:
            out = []
            for st in body:
                inner = (*scopes, st) if isinstance(st, FuncT) else scopes
                for fld in ("body", "orelse", "finalbody"):
                    sub = getattr(st, fld, None)
                    if isinstance(sub, list) and sub and isinstance(sub[0], ast.stmt):
                        setattr(st, fld, rewrite_body(sub, inner))
                if isinstance(st, ast.Try):
                    for hd in st.handlers:
                        hd.body = rewrite_body(hd.body, inner)
                repl = None
                call = None
                if isinstance(st, ast.Return) and isinstance(st.value, ast.Call):
                    call, mode = st.value, "return"
                elif isinstance(st, ast.Expr) and isinstance(st.value, ast.Call):
                    call, mode = st.value, "expr"
                elif isinstance(st, ast.Expr) and isinstance(st.value, ast.YieldFrom) and isinstance(st.value.value, ast.Call):
                    call, mode = st.value.value, "yieldfrom"
                elif isinstance(st, ast.Assign) and len(st.targets) == 1 and isinstance(st.value, ast.Call):
                    call, mode = st.value, "assign"
                if call is not None:
                    h, recv = resolve(call, cls)
                    if h is not None and h.fn is not fn:
                        binds = h.bind(call, recv)
                        # single-expression helpers are substituted at expression level below, unless an argument
                        # with effects is used more than once: then it is bound in front of the statement
                        direct = binds is not None and all(_is_pure(a) or _uses(h.body, p) <= 1 for p, a in binds.items())
                        if binds is not None and not (h.single_expr and direct) and shadowing_ok(h, scopes):
                            repl = splice(h, binds, mode, st)
                if repl is not None:
                    done.append(f"{fn.name}: {ast.unparse(call.func)} ({mode})")
                    out.extend(repl)
                else:
                    out.append(st)
            return out

        def splice(h: Helper, binds, mode, st):
            if mode == "yieldfrom":
                if not h.is_gen or h.returns:
                    return None
            elif h.is_gen:
                return None
            hbody = None
            if mode == "expr":
                bad = [r for r in h.returns if r.value is not None and not (isinstance(r.value, ast.Constant) and r.value.value is None)]
                early = [r for r in h.returns if r is not h.body[-1]]
                if bad:
                    return None
                if early:
                    hbody = eliminate_early_returns(copy.deepcopy(h.body))
                    if hbody is None or any(isinstance(n, ast.Return) for s in hbody for n in _own_nodes_stmt(s)):
                        return None
            if mode == "assign":
                if len(h.returns) != 1 or h.returns[0] is not h.body[-1] or h.returns[0].value is None:
                    return None
            inplace = set()
            if mode == "assign" and isinstance(h.body[-1], ast.Return) and h.body[-1].value is not None:
                tgt, ret = st.targets[0], h.body[-1].value
                pairs = []
                if isinstance(tgt, ast.Name) and isinstance(ret, ast.Name):
                    pairs = [(tgt, ret)]
                elif isinstance(tgt, (ast.Tuple, ast.List)) and isinstance(ret, (ast.Tuple, ast.List)) and len(tgt.elts) == len(ret.elts):
                    pairs = [(a, b) for a, b in zip(tgt.elts, ret.elts) if isinstance(a, ast.Name) and isinstance(b, ast.Name)]
                helper_locals = _stored(h.body) - set(h.params)
                for a, b in pairs:
                    if a.id != b.id:
                        continue
                    if b.id in h.params:
                        # `x = h(.., x, ..)` with `return x`: the parameter is the caller's variable threaded through
                        if isinstance(binds.get(b.id), ast.Name) and binds[b.id].id == a.id:
                            inplace.add(b.id)
                    elif b.id in helper_locals:
                        # the helper's local that is returned into the caller's variable of the same name: the
                        # caller's variable is (re)bound by the helper body itself
                        inplace.add(b.id)
            prefix, body = _instantiate(h, binds, caller_names, st, hbody, frozenset(inplace))
            if body is None:
                return None
            if mode == "return":
                if not _ends_with_terminator(body):
                    body.append(ast.copy_location(ast.Return(value=ast.Constant(value=None)), st))
                return [*prefix, *body]
            if mode in ("expr", "yieldfrom"):
                if body and isinstance(body[-1], ast.Return):
                    body = body[:-1]
                return [*prefix, *body] or [ast.copy_location(ast.Pass(), st)]
            if mode == "assign":
                ret = body[-1]
                asg = ast.copy_location(ast.Assign(targets=st.targets, value=ret.value), ret)
                ast.fix_missing_locations(asg)
                res = [*prefix, *body[:-1]]
                # drop identity assignments `a, b = (a, b)`
                if ast.unparse(asg.targets[0]) != ast.unparse(asg.value).strip("()") and ast.unparse(asg.targets[0]) != ast.unparse(asg.value):
                    res.append(asg)
                return res or [ast.copy_location(ast.Pass(), st)]
            return None

        fn.body = rewrite_body(fn.body)

        # -- expression level
        class ExprInl(ast.NodeTransformer):
            def visit_Call(self, node):
                self.generic_visit(node)
                h, recv = resolve(node, cls)
                if h is None or not h.single_expr or h.fn is fn:
                    return node
                binds = h.bind(node, recv)
                if binds is None:
                    return node
                free = _free_names(h)
                is_local = any(h is lh for lh in local_helpers.values())
                nested_bound = set()
                for g in ast.walk(fn):
                    if g is not fn and isinstance(g, FuncT) and g is not h.fn:
                        nested_bound |= _bound_in(g)
                if free & (nested_bound if is_local else (nested_bound | _bound_in(fn))):
                    return node  # a free variable of the helper could be captured at this site
                expr = copy.deepcopy(h.body[0].value)
                sub = {}
                for p, a in binds.items():
                    if not (_is_pure(a) or _uses([h.body[0]], p) <= 1):
                        return node
                    sub[p] = a
                # comprehension variables of the helper expression must not capture names of the arguments
                inner_bound = {n.id for n in ast.walk(expr) if isinstance(n, ast.Name) and isinstance(n.ctx, ast.Store)}
                for a in binds.values():
                    if _names(a) & inner_bound:
                        return node
                new = _Sub(sub).visit(expr)
                ast.copy_location(new, node)
                ast.fix_missing_locations(new)
                done.append(f"{fn.name}: {ast.unparse(node.func)} (expr)")
                return new

        ExprInl().visit(fn)
        # a closure that is no longer referenced is dropped from the view
        for name, h in list(local_helpers.items()):
            refs = [n for n in ast.walk(fn) if isinstance(n, ast.Name) and n.id == name and not any(n is x for x in ast.walk(h.fn))]
            if not refs and h.fn in fn.body:
                fn.body.remove(h.fn)
        local_helpers.clear()

    def walk(node, cls):
        for child in ast.iter_child_nodes(node):
            if isinstance(child, ast.ClassDef):
                walk(child, child.name)
            elif isinstance(child, FuncT):
                # helpers may themselves call helpers: a couple of rounds reach a fixpoint for non-recursive helpers
                for _ in range(3):
                    before = len(done)
                    process_function(child, cls)
                    if len(done) == before:
                        break
                walk(child, cls)

    walk(tree, None)
    # a new helper all of whose uses were inlined is dropped from the view (the rules would otherwise meet its body twice)
    for (cls, name), h in helpers.items():
        uses = 0
        for n in ast.walk(tree):
            if any(n is x for x in ()):  # placeholder to keep the loop simple
                pass
            if isinstance(n, ast.Name) and n.id == name and isinstance(n.ctx, ast.Load):
                uses += 1
            elif isinstance(n, ast.Attribute) and n.attr == name:
                uses += 1
        inside = sum(
            1
            for n in ast.walk(h.fn)
            if (isinstance(n, ast.Name) and n.id == name and isinstance(n.ctx, ast.Load)) or (isinstance(n, ast.Attribute) and n.attr == name)
        )
        if uses - inside == 0 and any(d.startswith(f"{h.fn.name}:") or f": {name}" in d or d.split(": ")[-1].split(" ")[0].split(".")[-1] == name for d in done):
            for node in ast.walk(tree):
                body = getattr(node, "body", None)
                if isinstance(body, list) and h.fn in body:
                    body.remove(h.fn)
                    if not body:
                        body.append(ast.Pass(lineno=h.fn.lineno, col_offset=0))
                    done.append(f"<dropped fully inlined helper {name}>")
                    break
    return done


def inline_local_closures(fn) -> int:
    """for comparisons only: inline every nested function of `fn` that is used as a direct callee (statement-level
    call, assignment, return, yield from, or single-expression body); returns the number of call sites inlined"""
    mod = ast.Module(body=[fn], type_ignores=[])
    done = inline_new_helpers(mod, {fn.name}, {fn.name: set()}, rename_shadowing=True)
    return len(done)
