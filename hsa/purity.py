"""A small effect analysis: which calls can change program state?

Used by the path summaries (hsa/paths.py) to decide when a value bound to a local may be substituted at a later use:
evaluating `x = f(a)` early and using x after a state-changing call is not the same as evaluating f(a) late.  A call
that cannot change state does not separate a binding from its uses.

A function of the package is *read-only* if its body has no attribute/subscript store or delete, no global/nonlocal, no
yield, and every call in it is to a read-only function, to a known read-only external (PURE_NAMES / PURE_METHODS), or
to a class constructor of the package whose __init__/__post_init__ is read-only apart from stores to its own `self`.
Callees are resolved by simple name over the whole package (a method name stands for every method of that name), so
the answer is conservative.  Everything not known to be read-only is assumed to change state.
"""

from __future__ import annotations

import ast

FuncT = (ast.FunctionDef, ast.AsyncFunctionDef)

PURE_NAMES = {
    # builtins
    "len", "int", "bool", "str", "bytes", "bytearray", "tuple", "list", "dict", "set", "frozenset", "min", "max", "abs", "sum",
    "isinstance", "issubclass", "range", "sorted", "reversed", "enumerate", "zip", "type", "id", "hash", "repr", "hex", "bin",
    "any", "all", "map", "filter", "getattr", "hasattr", "callable", "divmod", "pow", "round", "ord", "chr", "float", "iter",
    "format", "slice", "memoryview", "object", "super", "vars", "dir",
    # z3 term constructors and queries: building or inspecting a term has no effect on program state
    "BitVec", "BitVecVal", "BitVecSort", "Bool", "BoolVal", "BoolSort", "Array", "ArraySort", "Function", "If", "simplify", "ZeroExt",
    "SignExt", "Extract", "Concat", "Not", "And", "Or", "Implies", "Xor", "Select", "Store", "ULT", "ULE", "UGT", "UGE", "UDiv", "URem",
    "SRem", "LShR", "RotateLeft", "RotateRight", "ZeroExt", "BV2Int", "Int2BV", "is_bv", "is_bv_value", "is_bool", "is_true", "is_false",
    "is_const", "is_app", "is_eq", "is_not", "is_and", "is_or", "is_expr", "eq", "substitute", "deepcopy", "copy", "partial", "reduce",
    "itemgetter", "attrgetter", "dataclass_replace", "replace", "field", "fields", "cast", "lru_cache", "dataclass_field",
    "is_dataclass", "asdict", "namedtuple", "TypeVar",
}
PURE_MODULES = {"re", "math", "itertools", "functools", "operator", "shlex", "string", "textwrap", "dataclasses", "typing"}
PURE_METHODS = {
    # z3 / term inspection
    "size", "decl", "name", "arg", "children", "num_args", "as_long", "as_signed_long", "sexpr", "kind", "get_id", "hash", "params",
    "domain", "range", "is_int", "as_string", "sort_kind",
    # containers / strings (non-mutating)
    "get", "items", "keys", "values", "copy", "index", "count", "startswith", "endswith", "split", "rsplit", "splitlines", "strip",
    "lstrip", "rstrip", "join", "replace", "format", "hex", "lower", "upper", "title", "encode", "decode", "to_bytes", "from_bytes",
    "bit_length", "isdigit", "isalpha", "find", "rfind", "partition", "rpartition", "zfill", "ljust", "rjust", "removeprefix",
    "removesuffix", "union", "intersection", "difference", "issubset", "issuperset", "isdisjoint", "fromhex", "most_common",
    # regex
    "match", "search", "fullmatch", "findall", "finditer", "group", "groups", "groupdict", "span", "compile",
    # threading / futures queries
    "is_set", "done", "cancelled", "is_alive", "locked", "poll",
}
MUTATOR_METHODS = {
    "append", "extend", "add", "update", "pop", "popitem", "remove", "clear", "insert", "setdefault", "sort", "reverse", "discard",
    "push", "write", "put", "send", "set", "submit", "shutdown", "cancel", "kill", "terminate", "acquire", "release", "close",
    "appendleft", "popleft", "rotate", "reset", "start", "run", "wait", "communicate", "flush",
}


class Purity:
    def __init__(self, trees: dict[str, ast.AST]):
        self.by_name: dict[str, list[ast.AST]] = {}
        self.funcs: dict[str, list[ast.AST]] = {}  # module-level and nested functions
        self.methods: dict[str, list[ast.AST]] = {}  # functions defined in class bodies
        self.classes: dict[str, ast.ClassDef] = {}
        self.in_class: dict[ast.AST, ast.ClassDef | None] = {}
        for t in trees.values():
            self._collect(t, None)
        self.readonly: dict[ast.AST, bool] = {}
        self._solve()

    def _collect(self, node, cls):
        for ch in ast.iter_child_nodes(node):
            if isinstance(ch, ast.ClassDef):
                self.classes.setdefault(ch.name, ch)
                self._collect(ch, ch)
            elif isinstance(ch, FuncT):
                self.by_name.setdefault(ch.name, []).append(ch)
                (self.methods if cls is not None else self.funcs).setdefault(ch.name, []).append(ch)
                self.in_class[ch] = cls
                self._collect(ch, None)  # nested functions are plain functions
            else:
                self._collect(ch, cls)

    # -- local facts
    def _local_impure(self, fn, allow_self_stores=False) -> bool:
        selfname = fn.args.args[0].arg if fn.args.args else None
        for n in ast.walk(fn):
            if n is fn:
                continue
            if isinstance(n, (ast.Global, ast.Nonlocal, ast.Yield, ast.YieldFrom, ast.Await)):
                return True
            if isinstance(n, (ast.Attribute, ast.Subscript)) and isinstance(n.ctx, (ast.Store, ast.Del)):
                if allow_self_stores and isinstance(n, ast.Attribute) and isinstance(n.value, ast.Name) and n.value.id == selfname:
                    continue
                # stores into containers created in this very function do not escape
                root = n
                while isinstance(root, (ast.Attribute, ast.Subscript)):
                    root = root.value
                if isinstance(root, ast.Name) and self._fresh_local(fn, root.id):
                    continue
                return True
        return False

    def _fresh_local(self, fn, name: str) -> bool:
        """every binding of `name` in fn is a display / comprehension / pure constructor call"""
        params = {a.arg for a in ast.walk(fn.args) if isinstance(a, ast.arg)}
        if name in params:
            return False
        vals = []
        for n in ast.walk(fn):
            if isinstance(n, ast.Assign):
                for t in n.targets:
                    if isinstance(t, ast.Name) and t.id == name:
                        vals.append(n.value)
                    elif any(isinstance(x, ast.Name) and x.id == name for x in ast.walk(t)) and not isinstance(t, (ast.Attribute, ast.Subscript)):
                        return False
            elif isinstance(n, ast.AnnAssign) and isinstance(n.target, ast.Name) and n.target.id == name and n.value is not None:
                vals.append(n.value)
            elif isinstance(n, (ast.For, ast.comprehension, ast.withitem, ast.NamedExpr)):
                tgt = getattr(n, "target", None) or getattr(n, "optional_vars", None)
                if tgt is not None and any(isinstance(x, ast.Name) and x.id == name for x in ast.walk(tgt)):
                    return False
        if not vals:
            return False
        return all(
            isinstance(v, (ast.List, ast.Dict, ast.Set, ast.ListComp, ast.DictComp, ast.SetComp))
            or (isinstance(v, ast.Call) and isinstance(v.func, ast.Name) and v.func.id in ("list", "dict", "set", "defaultdict", "bytearray", "OrderedDict", "Counter") )
            for v in vals
        )

    def _calls(self, fn):
        for n in ast.walk(fn):
            if isinstance(n, ast.Call):
                yield n

    def call_targets(self, call: ast.Call, fn=None):
        """('pure',) | ('impure',) | ('fns', [defs]) | ('ctor', classdef)"""
        f = call.func
        if isinstance(f, ast.Name):
            if f.id.startswith("@") or f.id.startswith("_AT_"):
                return ("pure",)
            if f.id in self.classes:
                return ("ctor", self.classes[f.id])
            if f.id in self.funcs:
                return ("fns", list(self.funcs[f.id]))
            if f.id in PURE_NAMES or (f.id[:1].isupper() and f.id.isidentifier() and f.id not in ("Popen",)):
                # capitalised external names are constructors of value types (z3 terms, exceptions, dataclasses)
                return ("pure",)
            return ("impure",)
        if isinstance(f, ast.Attribute):
            m = f.attr
            if m in MUTATOR_METHODS:
                # a mutator applied to a container created in the same function does not escape
                root = f.value
                while isinstance(root, (ast.Attribute, ast.Subscript)):
                    root = root.value
                if fn is not None and isinstance(f.value, ast.Name) and self._fresh_local(fn, f.value.id):
                    return ("pure",)
                return ("impure",)
            if isinstance(f.value, ast.Name) and f.value.id in PURE_MODULES:
                return ("pure",)
            if isinstance(f.value, ast.Name) and f.value.id in self.classes:
                # Class.method(...): that class's own method
                own = [d for d in self.methods.get(m, []) if self.in_class.get(d) is self.classes[f.value.id]]
                if own:
                    return ("fns", own)
            if m in PURE_METHODS and not (isinstance(f.value, ast.Name) and f.value.id in ("self", "cls")):
                # names of the non-mutating container / string / term methods: the receiver is taken to be one of those
                # (package classes that reuse such a name -- copy, values, get -- keep its read-only meaning)
                return ("pure",)
            if m in self.methods:
                return ("fns", list(self.methods[m]))
            if m in self.classes:
                return ("ctor", self.classes[m])
            if isinstance(f.value, ast.Name) and f.value.id not in ("self", "cls") and m in self.funcs:
                # module.function(...)
                return ("fns", list(self.funcs[m]))
            if m in PURE_METHODS or m in PURE_NAMES:
                return ("pure",)
            return ("impure",)
        return ("impure",)

    def _ctor_fns(self, cls: ast.ClassDef):
        out = []
        seen = set()
        stack = [cls]
        while stack:
            c = stack.pop()
            if c.name in seen:
                continue
            seen.add(c.name)
            for s in c.body:
                if isinstance(s, FuncT) and s.name in ("__init__", "__post_init__", "__new__"):
                    out.append(s)
            for b in c.bases:
                if isinstance(b, ast.Name) and b.id in self.classes:
                    stack.append(self.classes[b.id])
        return out

    def _solve(self):
        fns = [d for lst in self.by_name.values() for d in lst]
        ro = {}
        for d in fns:
            is_ctor = d.name in ("__init__", "__post_init__", "__new__")
            ro[d] = not self._local_impure(d, allow_self_stores=is_ctor)
        changed = True
        while changed:
            changed = False
            for d in fns:
                if not ro[d]:
                    continue
                for c in self._calls(d):
                    kind = self.call_targets(c, d)
                    ok = True
                    if kind[0] == "impure":
                        ok = False
                    elif kind[0] == "fns":
                        ok = all(ro.get(t, False) for t in kind[1])
                    elif kind[0] == "ctor":
                        ok = all(ro.get(t, False) for t in self._ctor_fns(kind[1]))
                    if not ok:
                        ro[d] = False
                        changed = True
                        break
        self.readonly = ro

    # -- queries
    def call_is_readonly(self, call: ast.Call) -> bool:
        kind = self.call_targets(call)
        if kind[0] == "pure":
            return True
        if kind[0] == "impure":
            return False
        if kind[0] == "fns":
            return all(self.readonly.get(t, False) for t in kind[1])
        if kind[0] == "ctor":
            return all(self.readonly.get(t, False) for t in self._ctor_fns(kind[1]))
        return False

    def expr_is_readonly(self, e) -> bool:
        for n in ast.walk(e):
            if isinstance(n, ast.Call) and not self.call_is_readonly(n):
                return False
            if isinstance(n, (ast.Yield, ast.YieldFrom, ast.Await, ast.NamedExpr)):
                return False
        return True
