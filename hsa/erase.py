"""Erasure of NamedTuple classes that the reference does not have.

A common interface refactoring gives a tuple that is returned / passed around a name: `return caller, origin` becomes
`return PrankedSenders(caller, origin)`, the receiver's `a, b = f()` becomes `p = f()` with `p.caller`, `p.origin`, and
a function that took the components takes the holder.  The rules are anchored in the tuple form of the reviewed tree.

A NamedTuple *is* a tuple whose fields are its positions, so the view is exact: for every new NamedTuple class C

* `C(a, b)` / `C(x=a, y=b)` is the tuple `(a, b)` in field order;
* a local `v` of type C (bound once from `C(..)`, from a call of a function annotated `-> C`, from an element of a local
  list that only ever receives C values, or a parameter annotated `C`) is the names `v_x, v_y`: its binding becomes a
  tuple unpacking, `v.x` becomes `v_x`, a whole use becomes `(v_x, v_y)`;
* a parameter annotated `C` becomes one parameter per field, and every call site passes the fields;
* `f(..).x` on a call of a function annotated `-> C` is `f(..)[i]`.

Types come from annotations and constructor calls only (there is no type checker in the sandbox); wherever a use of C
does not fit one of these shapes exactly the class is left alone - the alarm then stands, which is the safe side.
"""

from __future__ import annotations

import ast
import copy

FuncT = (ast.FunctionDef, ast.AsyncFunctionDef)


class _Abort(Exception):
    pass


def _is_namedtuple(cls: ast.ClassDef) -> bool:
    return any((isinstance(b, ast.Name) and b.id == "NamedTuple") or (isinstance(b, ast.Attribute) and b.attr == "NamedTuple") for b in cls.bases)


def _fields(cls: ast.ClassDef):
    """[(name, default or None)] or None if the class has anything but annotated fields and a docstring"""
    out = []
    for st in cls.body:
        if isinstance(st, ast.Expr) and isinstance(st.value, ast.Constant) and isinstance(st.value.value, str):
            continue
        if isinstance(st, ast.AnnAssign) and isinstance(st.target, ast.Name) and (st.value is None or isinstance(st.value, ast.Constant)):
            out.append((st.target.id, st.value))
            continue
        if isinstance(st, ast.Pass):
            continue
        return None
    return out or None


def _ann_is(ann, cname: str) -> bool:
    if ann is None:
        return False
    if isinstance(ann, ast.Name):
        return ann.id == cname
    if isinstance(ann, ast.Constant) and isinstance(ann.value, str):
        return ann.value.strip() == cname
    return False


def _scope_walk(fn):
    """nodes of fn's own scope (nested function bodies excluded, their headers included)"""
    stack = list(fn.body)
    while stack:
        n = stack.pop()
        yield n
        if isinstance(n, (*FuncT, ast.Lambda, ast.ClassDef)):
            continue
        stack.extend(ast.iter_child_nodes(n))


def _callee_name(call: ast.Call):
    f = call.func
    if isinstance(f, ast.Name):
        return f.id
    if isinstance(f, ast.Attribute):
        return f.attr
    return None


class _Eraser:
    def __init__(self, trees: dict[str, ast.Module], cname: str, fields):
        self.trees = trees
        self.c = cname
        self.fields = [f for f, _ in fields]
        self.defaults = dict(fields)
        # functions by simple name (must be unique to be resolved)
        self.funcs: dict[str, list] = {}
        for t in trees.values():
            for n in ast.walk(t):
                if isinstance(n, FuncT):
                    self.funcs.setdefault(n.name, []).append(n)
        self.returns_c = {name for name, fs in self.funcs.items() if len(fs) == 1 and _ann_is(fs[0].returns, cname)}
        if any(_ann_is(f.returns, cname) for name, fs in self.funcs.items() if len(fs) > 1 for f in fs):
            raise _Abort("a function returning the class has an ambiguous name")
        self.log: list[str] = []

    # -- expressions of type C
    def ctor_tuple(self, call: ast.Call):
        if any(isinstance(a, ast.Starred) for a in call.args) or any(k.arg is None for k in call.keywords):
            raise _Abort("constructor with * / **")
        vals: dict[str, ast.AST] = {}
        if len(call.args) > len(self.fields):
            raise _Abort("constructor arity")
        for f, a in zip(self.fields, call.args):
            vals[f] = a
        for k in call.keywords:
            if k.arg not in self.fields or k.arg in vals:
                raise _Abort("constructor keyword")
            vals[k.arg] = k.value
        for f in self.fields:
            if f not in vals:
                if self.defaults.get(f) is None:
                    raise _Abort("constructor misses a field")
                vals[f] = copy.deepcopy(self.defaults[f])
        return ast.copy_location(ast.Tuple(elts=[vals[f] for f in self.fields], ctx=ast.Load()), call)

    def is_ctor(self, e) -> bool:
        return isinstance(e, ast.Call) and isinstance(e.func, ast.Name) and e.func.id == self.c

    def is_c_call(self, e) -> bool:
        return isinstance(e, ast.Call) and not self.is_ctor(e) and _callee_name(e) in self.returns_c

    # -- one function
    def typed_locals(self, fn) -> tuple[set[str], set[str]]:
        """(names of type C, names of type list[C]) bound in fn's own scope, parameters included"""
        typed: set[str] = set()
        lists: set[str] = set()
        a = fn.args
        for p in [*a.posonlyargs, *a.args, *a.kwonlyargs]:
            if _ann_is(p.annotation, self.c):
                typed.add(p.arg)
        binds: dict[str, list] = {}
        for n in _scope_walk(fn):
            if isinstance(n, ast.Assign) and len(n.targets) == 1 and isinstance(n.targets[0], ast.Name):
                binds.setdefault(n.targets[0].id, []).append(("assign", n.value))
            elif isinstance(n, ast.AnnAssign) and isinstance(n.target, ast.Name) and n.value is not None:
                binds.setdefault(n.target.id, []).append(("assign", n.value))
            elif isinstance(n, (ast.For, ast.AsyncFor)) and isinstance(n.target, ast.Name):
                binds.setdefault(n.target.id, []).append(("for", n.iter))
            elif isinstance(n, ast.Name) and isinstance(n.ctx, (ast.Store, ast.Del)):
                binds.setdefault(n.id, []).append(("other", None))
        # every simple-target binding is seen twice (statement + Name node): drop the matching 'other'
        for k, v in binds.items():
            simple = sum(1 for kind, _ in v if kind != "other")
            others = [x for x in v if x[0] == "other"]
            binds[k] = [x for x in v if x[0] != "other"] + others[simple:]
        appends: dict[str, list] = {}
        for n in _scope_walk(fn):
            if isinstance(n, ast.Call) and isinstance(n.func, ast.Attribute) and n.func.attr == "append" and isinstance(n.func.value, ast.Name) and len(n.args) == 1:
                appends.setdefault(n.func.value.id, []).append(n.args[0])
        changed = True
        while changed:
            changed = False
            for name, bs in binds.items():
                if name in typed or name in lists:
                    continue
                if all(kind == "assign" and isinstance(v, ast.List) and not v.elts for kind, v in bs) and appends.get(name) and all(self.expr_is_c(x, typed) for x in appends[name]):
                    lists.add(name)
                    changed = True
                    continue
                if all(kind == "assign" and isinstance(v, ast.Subscript) and isinstance(v.slice, ast.Slice) and isinstance(v.value, ast.Name) and v.value.id in lists for kind, v in bs):
                    lists.add(name)
                    changed = True
                    continue
                if all((kind == "assign" and self.expr_is_c(v, typed, lists)) or (kind == "for" and self.expr_is_list(v, lists)) for kind, v in bs):
                    typed.add(name)
                    changed = True
        return typed, lists

    def expr_is_c(self, e, typed, lists=()) -> bool:
        if self.is_ctor(e) or self.is_c_call(e):
            return True
        if isinstance(e, ast.Name) and e.id in typed:
            return True
        if isinstance(e, ast.Subscript) and not isinstance(e.slice, ast.Slice) and isinstance(e.value, ast.Name) and e.value.id in lists:
            return True
        return False

    @staticmethod
    def expr_is_list(e, lists) -> bool:
        if isinstance(e, ast.Name) and e.id in lists:
            return True
        return isinstance(e, ast.Subscript) and isinstance(e.slice, ast.Slice) and isinstance(e.value, ast.Name) and e.value.id in lists

    def explode(self, fn, typed: set[str]):
        """rewrite fn's own scope: typed names become one name per field"""
        all_names = {n.id for n in ast.walk(fn) if isinstance(n, ast.Name)} | {a.arg for a in ast.walk(fn) if isinstance(a, ast.arg)}
        names = {}
        for v in typed:
            fs = [f"{v}_{f}" for f in self.fields]
            if any(x in all_names for x in fs):
                raise _Abort(f"name clash for {v}")
            names[v] = fs
        eraser = self

        class T(ast.NodeTransformer):
            def visit_FunctionDef(self, node):
                if node is fn:
                    return self.generic_visit(node)
                # a nested scope that rebinds a typed name shadows it: not supported
                bound = {a.arg for a in ast.walk(node.args) if isinstance(a, ast.arg)} | {n.id for n in ast.walk(node) if isinstance(n, ast.Name) and isinstance(n.ctx, ast.Store)}
                if bound & set(names):
                    raise _Abort("typed name rebound in a nested scope")
                return self.generic_visit(node)

            visit_AsyncFunctionDef = visit_FunctionDef

            def visit_Lambda(self, node):
                if {a.arg for a in ast.walk(node.args) if isinstance(a, ast.arg)} & set(names):
                    raise _Abort("typed name rebound in a lambda")
                return self.generic_visit(node)

            def visit_Attribute(self, node):
                if isinstance(node.value, ast.Name) and node.value.id in names:
                    if node.attr in eraser.fields and isinstance(node.ctx, ast.Load):
                        return ast.copy_location(ast.Name(id=names[node.value.id][eraser.fields.index(node.attr)], ctx=ast.Load()), node)
                    raise _Abort(f"unsupported attribute .{node.attr} of a {eraser.c}")
                return self.generic_visit(node)

            def visit_Name(self, node):
                if node.id in names:
                    ctx = ast.Store() if isinstance(node.ctx, ast.Store) else ast.Load()
                    if isinstance(node.ctx, ast.Del):
                        raise _Abort("del of a typed name")
                    return ast.copy_location(ast.Tuple(elts=[ast.Name(id=x, ctx=ctx) for x in names[node.id]], ctx=ctx), node)
                return node

            def visit_AnnAssign(self, node):
                if isinstance(node.target, ast.Name) and node.target.id in names and node.value is not None:
                    new = ast.copy_location(ast.Assign(targets=[node.target], value=node.value), node)
                    return self.visit(new)
                return self.generic_visit(node)

        T().visit(fn)
        # parameters
        a = fn.args
        for lst in (a.posonlyargs, a.args, a.kwonlyargs):
            i = 0
            while i < len(lst):
                p = lst[i]
                if p.arg in names:
                    if lst is a.kwonlyargs and a.kw_defaults[i] is not None:
                        raise _Abort("typed keyword-only parameter with a default")
                    if lst is a.args and len(a.args) - i <= len(a.defaults):
                        raise _Abort("typed parameter with a default")
                    new = [ast.copy_location(ast.arg(arg=x, annotation=None), p) for x in names[p.arg]]
                    lst[i:i + 1] = new
                    if lst is a.kwonlyargs:
                        a.kw_defaults[i:i + 1] = [None] * len(new)
                    i += len(new)
                else:
                    i += 1
        ast.fix_missing_locations(fn)

    def run(self):
        # 1. parameters of type C: remember (owner class, function name) -> positions before anything is rewritten
        owner: dict[int, str | None] = {}
        call_cls: dict[int, str | None] = {}
        classes = set()
        for t in self.trees.values():
            def walk(n, cls):
                for ch in ast.iter_child_nodes(n):
                    if isinstance(ch, ast.ClassDef):
                        classes.add(ch.name)
                        walk(ch, ch.name)
                    elif isinstance(ch, FuncT):
                        owner[id(ch)] = cls if isinstance(n, ast.ClassDef) else None
                        walk(ch, cls)
                    else:
                        if isinstance(ch, ast.Call):
                            call_cls[id(ch)] = cls
                        walk(ch, cls)
            walk(t, None)
        param_sites: dict[tuple, tuple] = {}
        taking_names = set()
        for name, fs in self.funcs.items():
            for f in fs:
                a = f.args
                if any(_ann_is(p.annotation, self.c) for p in [*a.posonlyargs, *a.args, *a.kwonlyargs]):
                    key = (owner.get(id(f)), name)
                    if key in param_sites:
                        raise _Abort(f"function {name} takes the class and is ambiguous")
                    pos = [p.arg for p in [*a.posonlyargs, *a.args]]
                    offset = 1 if pos and pos[0] in ("self", "cls") else 0
                    param_sites[key] = (f, pos, offset, {p.arg for p in [*a.posonlyargs, *a.args, *a.kwonlyargs] if _ann_is(p.annotation, self.c)})
                    taking_names.add(name)

        def resolve(call):
            """the exploded function a call refers to, None if it refers to another function; _Abort if unclear"""
            name = _callee_name(call)
            if name not in taking_names:
                return None
            f = call.func
            if isinstance(f, ast.Name):
                return param_sites.get((None, name))
            if isinstance(f.value, ast.Name) and f.value.id in ("self", "cls"):
                return param_sites.get((call_cls.get(id(call)), name))
            if isinstance(f.value, ast.Name) and f.value.id in classes:
                return param_sites.get((f.value.id, name))
            if len(self.funcs.get(name, [])) == 1:
                return next(iter(v for k, v in param_sites.items() if k[1] == name), None)
            raise _Abort(f"call of {name} on an unknown receiver")

        # 2. explode typed names function by function (nested functions are functions too)
        for t in self.trees.values():
            for fn in [n for n in ast.walk(t) if isinstance(n, FuncT)]:
                typed, _ = self.typed_locals(fn)
                if typed:
                    self.explode(fn, typed)
                    self.log.append(f"{fn.name}: {sorted(typed)} viewed as their fields")
        # 3. call sites of functions whose parameters were exploded: a tuple argument is spliced
        for t in self.trees.values():
            for call in [n for n in ast.walk(t) if isinstance(n, ast.Call)]:
                if self.is_ctor(call):
                    continue
                site = resolve(call)
                if site is None:
                    continue
                f, pos, offset, typed_params = site
                direct = isinstance(call.func, ast.Name)
                params = pos if direct else pos[offset:]
                new_args = []
                for i, arg in enumerate(call.args):
                    if isinstance(arg, ast.Starred):
                        raise _Abort("starred argument at a call of a function taking the class")
                    if i < len(params) and params[i] in typed_params:
                        new_args.extend(self.spliced(arg))
                    else:
                        new_args.append(arg)
                call.args = new_args
                new_kw = []
                for k in call.keywords:
                    if k.arg in typed_params:
                        parts = self.spliced(k.value)
                        new_kw.extend(ast.keyword(arg=f"{k.arg}_{fld}", value=v) for fld, v in zip(self.fields, parts))
                    else:
                        new_kw.append(k)
                call.keywords = new_kw
        # 4. constructors and field reads on calls
        eraser = self

        class U(ast.NodeTransformer):
            def visit_Call(self, node):
                node = self.generic_visit(node)
                if eraser.is_ctor(node):
                    return eraser.ctor_tuple(node)
                return node

            def visit_Attribute(self, node):
                node = self.generic_visit(node)
                if node.attr in eraser.fields and isinstance(node.ctx, ast.Load) and (eraser.is_c_call(node.value) or eraser.is_ctor(node.value)):
                    return ast.copy_location(ast.Subscript(value=node.value, slice=ast.Constant(value=eraser.fields.index(node.attr)), ctx=ast.Load()), node)
                return node

        for t in self.trees.values():
            U().visit(t)
            ast.fix_missing_locations(t)
        # 5. nothing may mention the class any more (except its definition and imports / annotations)
        for t in self.trees.values():
            for n in ast.walk(t):
                if isinstance(n, ast.Name) and n.id == self.c and isinstance(n.ctx, ast.Load) and not getattr(n, "_hsa_annotation", False):
                    raise _Abort("a use of the class remains")

    def spliced(self, arg):
        """the field expressions of an argument of type C (after explosion a typed name is already a tuple)"""
        if isinstance(arg, ast.Tuple) and len(arg.elts) == len(self.fields):
            return list(arg.elts)
        if self.is_ctor(arg):
            return list(self.ctor_tuple(arg).elts)
        raise _Abort("an argument of the class's type is not a known tuple")


def _mark_annotations(tree):
    """annotation sub-trees are not uses"""
    for n in ast.walk(tree):
        anns = []
        if isinstance(n, ast.arg) and n.annotation is not None:
            anns.append(n.annotation)
        elif isinstance(n, FuncT) and n.returns is not None:
            anns.append(n.returns)
        elif isinstance(n, ast.AnnAssign):
            anns.append(n.annotation)
        for a in anns:
            for x in ast.walk(a):
                x._hsa_annotation = True


def erase_new_namedtuples(trees: dict[str, ast.Module], reference_names) -> list[str]:
    """in place, all-or-nothing per class; returns a log.  `reference_names(mod)` = top-level names of the reference"""
    log: list[str] = []
    cands = []
    for mod, t in trees.items():
        known = reference_names(mod)
        for st in t.body:
            if isinstance(st, ast.ClassDef) and _is_namedtuple(st) and st.name not in known:
                fs = _fields(st)
                if fs is not None:
                    cands.append((mod, st, fs))
    for mod, cls, fs in cands:
        # the class name must be unique
        if sum(1 for t in trees.values() for st in t.body if isinstance(st, (ast.ClassDef, *FuncT)) and st.name == cls.name) != 1:
            continue
        backup = {k: copy.deepcopy(v) for k, v in trees.items()}
        try:
            for t in trees.values():
                _mark_annotations(t)
            er = _Eraser(trees, cls.name, fs)
            er.run()
            # drop the class from the view
            holder = trees[mod]
            holder.body = [st for st in holder.body if not (isinstance(st, ast.ClassDef) and st.name == cls.name)]
            log.append(f"{mod}.{cls.name}: new NamedTuple viewed as the plain tuple ({', '.join(f for f, _ in fs)}); " + "; ".join(er.log))
        except _Abort as e:
            for k in trees:
                trees[k] = backup[k]
            log.append(f"{mod}.{cls.name}: new NamedTuple left as written ({e})")
    return log
