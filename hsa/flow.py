"""Structured control-flow reasoning without running anything.

1. `guards_at(m, node)` — the (test, polarity) pairs that hold on *every* path reaching
   `node` inside its function: enclosing if/elif/else/while branches plus early-exit idioms
   (`if c: return/raise/continue/break` ⇒ ¬c afterwards) and `assert c`.
2. `Flow` — a path-sensitive walker over statement lists with a small monotone state
   (a frozenset of facts).  A user transfer function adds facts when it sees a simple
   statement / expression; branches add guard facts.  The result maps each way of leaving
   the walked region (fall, return, raise, break, continue) to the set of states that can
   reach it.  Facts only grow, so loops reach a fixpoint.  This decides must-pass-through,
   must-precede and pairing rules on every syntactic path.
"""

from __future__ import annotations

import ast
from typing import Callable, Iterable

from hsa.core import AnalysisError, Module, src

# ----------------------------------------------------------------------------- exits


def always_exits(stmts: list[ast.stmt]) -> bool:
    """True if control can never fall off the end of the statement list."""
    for st in stmts:
        if isinstance(st, (ast.Return, ast.Raise, ast.Continue, ast.Break)):
            return True
        if isinstance(st, ast.If):
            if st.orelse and always_exits(st.body) and always_exits(st.orelse):
                return True
        elif isinstance(st, ast.Try):
            body_exits = always_exits(st.body) or (
                st.orelse and always_exits(st.orelse)
            )
            handlers_exit = all(always_exits(h.body) for h in st.handlers)
            if st.finalbody and always_exits(st.finalbody):
                return True
            if body_exits and handlers_exit:
                return True
        elif isinstance(st, ast.With):
            if always_exits(st.body):
                return True
        elif isinstance(st, ast.Match):
            has_default = any(
                isinstance(c.pattern, ast.MatchAs) and c.pattern.pattern is None and c.guard is None
                for c in st.cases
            )
            if has_default and all(always_exits(c.body) for c in st.cases):
                return True
        elif isinstance(st, ast.While):
            # `while True:` without break never falls through
            if (
                isinstance(st.test, ast.Constant)
                and st.test.value is True
                and not any(isinstance(n, ast.Break) for n in _loop_level(st.body))
            ):
                return True
    return False


def _loop_level(stmts):
    """nodes of stmts that belong to this loop level (not nested loops / defs)"""
    stack = list(stmts)
    while stack:
        n = stack.pop()
        yield n
        if isinstance(n, (ast.For, ast.While, ast.FunctionDef, ast.AsyncFunctionDef, ast.ClassDef, ast.Lambda)):
            # break/continue inside a nested loop belong to it; but its orelse belongs to us
            if isinstance(n, (ast.For, ast.While)):
                stack.extend(n.orelse)
            continue
        stack.extend(ast.iter_child_nodes(n))


# ----------------------------------------------------------------------------- guards


def split_cond(test: ast.AST, pol: bool) -> list[tuple[ast.AST, bool]]:
    """Atomic facts implied by `test` having truth value `pol`."""
    if isinstance(test, ast.UnaryOp) and isinstance(test.op, ast.Not):
        return split_cond(test.operand, not pol)
    if isinstance(test, ast.BoolOp):
        if isinstance(test.op, ast.And) and pol:
            out = []
            for v in test.values:
                out += split_cond(v, True)
            return out
        if isinstance(test.op, ast.Or) and not pol:
            out = []
            for v in test.values:
                out += split_cond(v, False)
            return out
    if isinstance(test, ast.NamedExpr):
        return [(test, pol)] + split_cond(test.value, pol)
    return [(test, pol)]


_NEG = {ast.Eq: ast.NotEq, ast.NotEq: ast.Eq, ast.Lt: ast.GtE, ast.GtE: ast.Lt,
        ast.Gt: ast.LtE, ast.LtE: ast.Gt, ast.Is: ast.IsNot, ast.IsNot: ast.Is,
        ast.In: ast.NotIn, ast.NotIn: ast.In}


def guard_text(test: ast.AST, pol: bool) -> str:
    """normal form 'expr' for true facts, 'not (expr)' for false ones; single compares are
    negated in place so that `not (a == b)` and `a != b` agree."""
    if isinstance(test, ast.NamedExpr):
        test = test.value
    if isinstance(test, ast.Compare) and len(test.ops) == 1 and not pol:
        op = _NEG.get(type(test.ops[0]))
        if op is not None:
            new = ast.Compare(left=test.left, ops=[op()], comparators=test.comparators)
            return src(new)
    return src(test) if pol else f"not ({src(test)})"


def guards_at(m: Module, node: ast.AST, stop: ast.AST | None = None, silent: bool = False) -> list[tuple[ast.AST, bool]]:
    """All (atomic test, polarity) facts that hold whenever `node` is reached, looking only
    at the enclosing function (or up to `stop`).  silent=True leaves out the facts established by `if c: raise ...`
    and `assert`: the node is not *silently* skipped when such a guard fails."""
    facts: list[tuple[ast.AST, bool]] = []
    child = node
    for anc in m.ancestors(node):
        if isinstance(anc, ast.If):
            if _in_list(child, anc.body):
                facts += split_cond(anc.test, True)
            elif _in_list(child, anc.orelse):
                facts += split_cond(anc.test, False)
        elif isinstance(anc, ast.While):
            if _in_list(child, anc.body):
                facts += split_cond(anc.test, True)
        elif isinstance(anc, ast.IfExp):
            if child is anc.body:
                facts += split_cond(anc.test, True)
            elif child is anc.orelse:
                facts += split_cond(anc.test, False)
        elif isinstance(anc, ast.BoolOp):
            # in `a and b`, b is evaluated only if a is true
            idx = next((i for i, v in enumerate(anc.values) if v is child), None)
            if idx:
                for v in anc.values[:idx]:
                    facts += split_cond(v, isinstance(anc.op, ast.And))
        elif isinstance(anc, (ast.ListComp, ast.SetComp, ast.GeneratorExp, ast.DictComp)):
            for gen in anc.generators:
                if child is not gen:
                    for cond in gen.ifs:
                        facts += split_cond(cond, True)
        # preceding siblings that exit early
        for lst in _stmt_lists(anc):
            if _in_list(child, lst):
                idx = next(i for i, s in enumerate(lst) if s is child)
                for prev in lst[:idx]:
                    facts += _early_exit_facts(prev, silent)
        if anc is stop or isinstance(anc, (ast.FunctionDef, ast.AsyncFunctionDef, ast.Lambda)):
            break
        child = anc
    return facts


def _always_raises(stmts) -> bool:
    """every way through the block ends in a raise (a loud exit)"""
    if not stmts:
        return False
    last = stmts[-1]
    if isinstance(last, ast.Raise):
        return True
    if isinstance(last, ast.If):
        return bool(last.orelse) and _always_raises(last.body) and _always_raises(last.orelse)
    return False


def _early_exit_facts(st: ast.stmt, silent: bool = False) -> list[tuple[ast.AST, bool]]:
    if isinstance(st, ast.If):
        b, o = always_exits(st.body), bool(st.orelse) and always_exits(st.orelse)
        if b and not o:
            if silent and _always_raises(st.body):
                return []
            # `if a: exit elif b: exit` establishes not a and not b
            rest = []
            for x in st.orelse:
                rest += _early_exit_facts(x, silent)
            return split_cond(st.test, False) + rest
        if o and not b:
            if silent and _always_raises(st.orelse):
                return []
            return split_cond(st.test, True)
    elif isinstance(st, ast.Assert):
        return [] if silent else split_cond(st.test, True)
    return []


def _stmt_lists(node: ast.AST) -> Iterable[list]:
    for name in ("body", "orelse", "finalbody"):
        lst = getattr(node, name, None)
        if isinstance(lst, list) and lst and isinstance(lst[0], ast.stmt):
            yield lst
    if isinstance(node, ast.Try):
        for h in node.handlers:
            yield h.body
    if isinstance(node, ast.Match):
        for c in node.cases:
            yield c.body


def _in_list(child, lst) -> bool:
    return isinstance(lst, list) and any(s is child for s in lst)


def guard_texts(m: Module, node: ast.AST, stop=None) -> set[str]:
    return {guard_text(t, p) for t, p in guards_at(m, node, stop)}


# ----------------------------------------------------------------------------- flow walker

State = frozenset
Outcomes = dict  # kind -> set[State]


def _merge(a: Outcomes, b: Outcomes) -> Outcomes:
    for k, v in b.items():
        a.setdefault(k, set()).update(v)
    return a


class Flow:
    """Path-sensitive structured walker.

    transfer(node, state) -> iterable of new facts; called on every simple statement and on
    every branch test expression (node is the ast node).  If `guard_facts` is set, entering a
    branch adds ('G', text) facts (normalised with guard_text).  `calls_raise`: treat every
    statement inside a `try` body as a potential raise site for that try's handlers.
    """

    MAX_STATES = 20000

    def __init__(
        self,
        transfer: Callable[[ast.AST, State], Iterable],
        guard_facts: bool = False,
        calls_raise: bool = True,
        fold_test: Callable[[ast.AST], object] | None = None,
        loops_nonempty: bool = False,
    ):
        self.loops_nonempty = loops_nonempty
        self.transfer = transfer
        self.guard_facts = guard_facts
        self.calls_raise = calls_raise
        self.fold_test = fold_test
        self._try_stack: list[set] = []

    # -- public
    def run(self, stmts: list[ast.stmt], init: Iterable[State] = (frozenset(),)) -> Outcomes:
        return self._block(stmts, set(init))

    # -- internals
    def _apply(self, node: ast.AST, states: set) -> set:
        out = set()
        for s in states:
            new = self.transfer(node, s)
            ns = s | frozenset(new) if new else s
            out.add(ns)
        if len(out) > self.MAX_STATES:
            raise AnalysisError("flow: state explosion")
        for frame in self._try_stack:
            frame.update(out)
        return out

    def _guard(self, states: set, test: ast.AST, pol: bool) -> set:
        if not self.guard_facts:
            return states
        facts = frozenset(("G", guard_text(t, p)) for t, p in split_cond(test, pol))
        return {s | facts for s in states}

    def _block(self, stmts, states: set) -> Outcomes:
        out: Outcomes = {}
        cur = states
        for st in stmts:
            if not cur:
                break
            res = self._stmt(st, cur)
            cur = res.pop("fall", set())
            _merge(out, res)
        if cur:
            out.setdefault("fall", set()).update(cur)
        return out

    def _test_value(self, test):
        if self.fold_test is None:
            return None
        try:
            v = self.fold_test(test)
        except Exception:
            return None
        return v if isinstance(v, bool) else None

    def _stmt(self, st: ast.stmt, states: set) -> Outcomes:
        if isinstance(st, (ast.FunctionDef, ast.AsyncFunctionDef, ast.ClassDef)):
            return {"fall": self._apply(st, states)}
        if isinstance(st, ast.Return):
            return {"return": self._apply(st, states)}
        if isinstance(st, ast.Raise):
            return {"raise": self._apply(st, states)}
        if isinstance(st, ast.Break):
            return {"break": self._apply(st, states)}
        if isinstance(st, ast.Continue):
            return {"continue": self._apply(st, states)}
        if isinstance(st, ast.If):
            s0 = self._apply(st.test, states)
            tv = self._test_value(st.test)
            out: Outcomes = {}
            if tv is not False:
                _merge(out, self._block(st.body, self._guard(s0, st.test, True)))
            if tv is not True:
                s_else = self._guard(s0, st.test, False)
                if st.orelse:
                    _merge(out, self._block(st.orelse, s_else))
                else:
                    out.setdefault("fall", set()).update(s_else)
            return out
        if isinstance(st, (ast.While, ast.For, ast.AsyncFor)):
            return self._loop(st, states)
        if isinstance(st, (ast.With, ast.AsyncWith)):
            s0 = states
            for item in st.items:
                s0 = self._apply(item.context_expr, s0)
            return self._block(st.body, s0)
        if isinstance(st, ast.Try):
            return self._try(st, states)
        if isinstance(st, ast.Match):
            s0 = self._apply(st.subject, states)
            out = {}
            has_default = False
            for c in st.cases:
                sc = s0
                if c.guard is not None:
                    sc = self._apply(c.guard, sc)
                if isinstance(c.pattern, ast.MatchAs) and c.pattern.pattern is None and c.guard is None:
                    has_default = True
                if self.guard_facts:
                    sc = {s | frozenset([("G", f"case {src(c.pattern)}")]) for s in sc}
                _merge(out, self._block(c.body, sc))
            if not has_default:
                out.setdefault("fall", set()).update(s0)
            return out
        # simple statement
        return {"fall": self._apply(st, states)}

    def _loop(self, st, states: set) -> Outcomes:
        out: Outcomes = {}
        is_while = isinstance(st, ast.While)
        head_seen: set = set()
        exit_states: set = set()
        frontier = set(states)
        infinite = is_while and isinstance(st.test, ast.Constant) and st.test.value is True
        while frontier:
            new = frontier - head_seen
            if not new:
                break
            head_seen |= new
            if is_while:
                s_test = self._apply(st.test, new)
                s_body = self._guard(s_test, st.test, True)
                if not infinite:
                    exit_states |= self._guard(s_test, st.test, False)
            else:
                s_test = self._apply(st.iter, new)
                s_body = s_test
                if not self.loops_nonempty:
                    exit_states |= s_test
            res = self._block(st.body, s_body)
            frontier = res.pop("fall", set()) | res.pop("continue", set())
            if not is_while and self.loops_nonempty:
                exit_states |= frontier
            brk = res.pop("break", set())
            out.setdefault("fall", set()).update(brk)
            _merge(out, res)
        if exit_states:
            if st.orelse:
                _merge(out, self._block(st.orelse, exit_states))
            else:
                out.setdefault("fall", set()).update(exit_states)
        return out

    def _try(self, st: ast.Try, states: set) -> Outcomes:
        frame: set = set(states)
        self._try_stack.append(frame)
        try:
            body = self._block(st.body, states)
        finally:
            self._try_stack.pop()
        out: Outcomes = {}
        raised = body.pop("raise", set())
        catch_all = any(
            h.type is None
            or (isinstance(h.type, ast.Name) and h.type.id in ("Exception", "BaseException"))
            for h in st.handlers
        )
        handler_in = set(raised)
        if self.calls_raise and st.handlers:
            handler_in |= frame
        if st.handlers:
            for h in st.handlers:
                hs = handler_in
                if self.guard_facts:
                    hs = {s | frozenset([("G", f"except {src(h.type) if h.type else ''}")]) for s in hs}
                _merge(out, self._block(h.body, hs))
            if raised and not catch_all:
                out.setdefault("raise", set()).update(raised)
        elif raised:
            out.setdefault("raise", set()).update(raised)
        fall = body.pop("fall", set())
        if st.orelse and fall:
            _merge(out, self._block(st.orelse, fall))
        elif fall:
            out.setdefault("fall", set()).update(fall)
        _merge(out, body)
        if st.finalbody:
            final_out: Outcomes = {}
            # an uncaught exception raised by a call also runs the finally block
            if self.calls_raise and not catch_all:
                out.setdefault("raise", set()).update(frame)
            for kind, sts in out.items():
                res = self._block(st.finalbody, sts)
                f = res.pop("fall", set())
                if f:
                    final_out.setdefault(kind, set()).update(f)
                _merge(final_out, res)
            return final_out
        return out


def function_exits(fn: ast.AST, transfer, **kw) -> Outcomes:
    """Outcomes of a whole function body: 'return' (explicit), 'fall' (implicit return), 'raise'."""
    return Flow(transfer, **kw).run(fn.body)


def normal_exit_states(out: Outcomes) -> set:
    return set(out.get("return", set())) | set(out.get("fall", set()))
