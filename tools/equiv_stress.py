#!/usr/bin/env python3
"""Soundness audit of hsa/equiv.py: single-point mutants of every reference function must NOT be judged equivalent to it.

For every function of hsa/reference/*.ref, generate AST mutants (comparison flipped, constant changed, arithmetic
operator swapped, and/or swapped, test negated, statement deleted, adjacent statements swapped, call arguments swapped,
a local name replaced by another local) and run the normaliser + equivalence exactly as Repo loading does.  Mutants that
are judged equivalent are printed for review: each must be a genuinely behaviour-preserving edit (deleting a debug
line, swapping two independent stores, ...).

usage: equiv_stress.py [module ...] [--max-per-fn N] [--jobs J]
"""
import ast, copy, os, random, sys
import concurrent.futures as cf

sys.path.insert(0, "/verif")
from hsa import align, equiv, paths, purity  # noqa: E402

ARGS = [a for a in sys.argv[1:] if not a.startswith("--")]
MAXN = int(next((a.split("=")[1] for a in sys.argv if a.startswith("--max-per-fn=")), 60))
JOBS = int(next((a.split("=")[1] for a in sys.argv if a.startswith("--jobs=")), 16))

CMP = {ast.Eq: ast.NotEq, ast.NotEq: ast.Eq, ast.Lt: ast.LtE, ast.LtE: ast.Lt, ast.Gt: ast.GtE, ast.GtE: ast.Gt,
       ast.Is: ast.IsNot, ast.IsNot: ast.Is, ast.In: ast.NotIn, ast.NotIn: ast.In}
BIN = {ast.Add: ast.Sub, ast.Sub: ast.Add, ast.Mult: ast.FloorDiv, ast.FloorDiv: ast.Mult, ast.LShift: ast.RShift,
       ast.RShift: ast.LShift, ast.BitAnd: ast.BitOr, ast.BitOr: ast.BitAnd, ast.Mod: ast.FloorDiv, ast.Div: ast.Mult}


def sites(fn):
    """(kind, path) where path is a list of (field, index) steps from fn"""
    out = []

    def walk(node, path):
        if isinstance(node, ast.Compare) and type(node.ops[0]) in CMP:
            out.append(("cmp", path))
        if isinstance(node, ast.Constant) and isinstance(node.value, int) and not isinstance(node.value, bool):
            out.append(("const", path))
        if isinstance(node, ast.BinOp) and type(node.op) in BIN:
            out.append(("bin", path))
        if isinstance(node, ast.BoolOp):
            out.append(("bool", path))
        if isinstance(node, (ast.If, ast.While, ast.IfExp)):
            out.append(("neg", path))
        if isinstance(node, ast.UnaryOp) and isinstance(node.op, ast.Not):
            out.append(("unnot", path))
        if isinstance(node, ast.Call) and len(node.args) >= 2 and not any(isinstance(a, ast.Starred) for a in node.args):
            if ast.dump(node.args[0]) != ast.dump(node.args[1]):
                out.append(("argswap", path))
        if isinstance(node, ast.Call) and len(node.args) == 1 and not node.keywords and not isinstance(node.args[0], ast.Starred) and isinstance(node.func, ast.Name):
            out.append(("unwrap", path))  # f(x) -> x   (deepcopy(x) -> x, simplify(x) -> x, int(x) -> x)
        if isinstance(node, ast.Call) and not node.args and not node.keywords and isinstance(node.func, ast.Attribute):
            out.append(("unrecv", path))  # x.copy() -> x
        for fld in ("body", "orelse", "finalbody"):
            lst = getattr(node, fld, None)
            if isinstance(lst, list) and lst and isinstance(lst[0], ast.stmt):
                for i, st in enumerate(lst):
                    if isinstance(st, ast.Expr) and isinstance(st.value, ast.Constant):
                        continue  # docstring
                    if isinstance(st, (ast.Pass, ast.Import, ast.ImportFrom, ast.Global, ast.Nonlocal)):
                        continue
                    if len(lst) > 1:
                        out.append(("del", path + [(fld, i)]))
                    if i + 1 < len(lst) and ast.dump(lst[i]) != ast.dump(lst[i + 1]):
                        out.append(("swap", path + [(fld, i)]))
                    if i + 1 < len(lst) and isinstance(lst[i], ast.Assign) and isinstance(lst[i + 1], ast.Assign) and ast.dump(lst[i].value) == ast.dump(lst[i + 1].value) and not isinstance(lst[i].value, (ast.Constant, ast.Name)):
                        out.append(("chain", path + [(fld, i)]))  # a = f(); b = f()  ->  a = b = f()
        for fld, val in ast.iter_fields(node):
            if fld in ("annotation", "returns", "decorator_list"):
                continue  # annotations have no run-time effect
            if isinstance(val, list):
                for i, ch in enumerate(val):
                    if isinstance(ch, ast.AST):
                        walk(ch, path + [(fld, i)])
            elif isinstance(val, ast.AST):
                walk(val, path + [(fld, None)])

    walk(fn, [])
    # name replacement sites
    locs = sorted(align.local_names(fn) | {a.arg for a in fn.args.args})
    if len(locs) >= 2:
        def walk2(node, path):
            if isinstance(node, ast.Name) and isinstance(node.ctx, ast.Load) and node.id in locs:
                out.append(("name", path))
            for fld, val in ast.iter_fields(node):
                if fld in ("annotation", "returns", "decorator_list"):
                    continue
                if isinstance(val, list):
                    for i, ch in enumerate(val):
                        if isinstance(ch, ast.AST):
                            walk2(ch, path + [(fld, i)])
                elif isinstance(val, ast.AST):
                    walk2(val, path + [(fld, None)])
        walk2(fn, [])
    return out, locs


def get(node, path):
    for fld, i in path:
        node = getattr(node, fld)
        if i is not None:
            node = node[i]
    return node


def mutate(fn, kind, path, locs, rnd):
    m = copy.deepcopy(fn)
    if kind in ("del", "swap", "chain"):
        parent = get(m, path[:-1])
        fld, i = path[-1]
        lst = getattr(parent, fld)
        if kind == "chain":
            desc = f"chain `{ast.unparse(lst[i])[:60]}` + `{ast.unparse(lst[i+1])[:60]}`"
            lst[i].targets = [*lst[i].targets, *lst[i + 1].targets]
            del lst[i + 1]
            ast.fix_missing_locations(m)
            return m, desc
        if kind == "del":
            desc = f"delete `{ast.unparse(lst[i])[:70]}`"
            del lst[i]
        else:
            one = lambda x: ast.unparse(x).split("\n")[0][:60]
            desc = f"swap `{one(lst[i])}` <-> `{one(lst[i+1])}`"
            lst[i], lst[i + 1] = lst[i + 1], lst[i]
        return m, desc
    node = get(m, path)
    before = ast.unparse(node)[:80]
    # enclosing statement, for the report
    encl = None
    for k in range(len(path), 0, -1):
        cand = get(fn, path[:k])
        if isinstance(cand, ast.stmt):
            encl = cand
            break
    ctx = (" in `" + ast.unparse(encl).split("\n")[0][:110] + "`") if encl is not None else ""
    if kind == "cmp":
        node.ops[0] = CMP[type(node.ops[0])]()
    elif kind == "const":
        node.value = node.value + 1
    elif kind == "bin":
        node.op = BIN[type(node.op)]()
    elif kind == "bool":
        node.op = ast.Or() if isinstance(node.op, ast.And) else ast.And()
    elif kind == "neg":
        node.test = ast.UnaryOp(op=ast.Not(), operand=node.test)
    elif kind == "unnot":
        parent = get(m, path[:-1])
        fld, i = path[-1]
        if i is None:
            setattr(parent, fld, node.operand)
        else:
            getattr(parent, fld)[i] = node.operand
        return m, f"drop not: `{before}`{ctx}"
    elif kind == "argswap":
        node.args[0], node.args[1] = node.args[1], node.args[0]
    elif kind in ("unwrap", "unrecv"):
        new = node.args[0] if kind == "unwrap" else node.func.value
        parent = get(m, path[:-1])
        fld, i = path[-1]
        if i is None:
            setattr(parent, fld, new)
        else:
            getattr(parent, fld)[i] = new
        ast.fix_missing_locations(m)
        return m, f"{kind}: `{before}` -> `{ast.unparse(new)[:60]}`{ctx}"
    elif kind == "name":
        others = [x for x in locs if x != node.id]
        node.id = rnd.choice(others)
    ast.fix_missing_locations(m)
    return m, f"{kind}: `{before}` -> `{ast.unparse(get(m, path))[:80]}`{ctx}"


def work(modname):
    refs = align.reference_defs(modname)
    # purity / mutable attrs of the reference tree itself
    trees = {}
    for f in os.listdir(align.REF_DIR):
        if f.endswith(".ref"):
            trees[f[:-4]] = ast.parse(open(os.path.join(align.REF_DIR, f)).read())
    paths.PURITY = purity.Purity(trees)
    mutable = align.mutable_attributes(trees.values())
    paths.MUTABLE_ATTRS = mutable
    rnd = random.Random(1)
    total = 0
    same = []
    for q, fn in refs.items():
        ss, locs = sites(fn)
        rnd.shuffle(ss)
        for kind, path in ss[:MAXN]:
            try:
                m, desc = mutate(fn, kind, path, locs, rnd)
                compile(ast.Module(body=[m], type_ignores=[]), "<m>", "exec")
            except Exception:
                continue
            if ast.dump(m) == ast.dump(fn):
                continue
            total += 1
            # exactly what align.normalise does for one function
            try:
                mm = align.rename_map(m, fn)
                if mm:
                    align._apply(m, mm)
                align.inline_hoisted(m, align.local_names(fn), mutable)
                align.reorder_keywords(m, fn)
                eq = ast.dump(m) == ast.dump(fn) or equiv.equivalent(m, fn)
            except RecursionError:
                eq = False
            if eq:
                same.append(f"{modname}.{q}: {desc}")
    return modname, total, same


if __name__ == "__main__":
    mods = ARGS or sorted(f[:-4] for f in os.listdir(align.REF_DIR) if f.endswith(".ref"))
    tot = 0
    allsame = []
    with cf.ProcessPoolExecutor(JOBS) as ex:
        for modname, total, same in ex.map(work, mods):
            tot += total
            allsame += same
            print(f"{modname}: {total} mutants, {len(same)} judged equivalent", flush=True)
    print(f"TOTAL {tot} mutants, {len(allsame)} judged equivalent")
    for s in allsame:
        print("  EQUIV:", s)
