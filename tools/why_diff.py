#!/usr/bin/env python3
"""why_diff.py <patch.diff> [mod.qual ...]: for functions of the patched tree that are not recognised as equivalent to
the reference, print the path descriptions that differ (debugging aid for hsa/equiv.py)."""
import ast, os, subprocess, sys, tempfile
sys.path.insert(0, "/verif")
pf, quals = os.path.abspath(sys.argv[1]), sys.argv[2:]
wt = tempfile.mkdtemp(prefix="bn_"); os.rmdir(wt)
subprocess.run(["git", "-C", "/repo", "worktree", "add", "-q", "--detach", wt, "HEAD"], check=True)
try:
    subprocess.run(["git", "-C", wt, "apply", pf], check=True)
    from hsa import align
    from hsa.core import Repo
    from hsa.paths import describe_path, summarise_block
    r = Repo(wt)
    for n, m in r.modules.items():
        ref = align.reference_defs(n)
        for q, fn in align._defs(m.tree).items():
            if q in ref and ast.dump(fn) != ast.dump(ref[q]) and (not quals or f"{n}.{q}" in quals):
                print("== DIFFERS:", n, q, m.normalised.get(q))
                import copy
                from hsa.inline import inline_local_closures
                c2, r2 = copy.deepcopy(fn), copy.deepcopy(ref[q])
                print("   closures inlined (cur, ref):", inline_local_closures(c2), inline_local_closures(r2))
                a = summarise_block(c2.body, live=set()); b = summarise_block(r2.body, live=set())
                if a is None or b is None:
                    print("   too many paths", a is None, b is None); continue
                from hsa.paths import canon_trace, Path
                a = [Path(canon_trace(p.trace, p.value), "return" if p.kind == "fall" else p.kind, "None" if p.kind == "fall" else p.value, p.env) for p in a]
                b = [Path(canon_trace(p.trace, p.value), "return" if p.kind == "fall" else p.kind, "None" if p.kind == "fall" else p.value, p.env) for p in b]
                da = {describe_path(p) for p in a}; db = {describe_path(p) for p in b}
                ca = [p for p in a if describe_path(p) not in db]; cb = [p for p in b if describe_path(p) not in da]
                print(f"   {len(ca)} cur-only paths, {len(cb)} ref-only paths")
                for pa in ca[:3]:
                    ea = list(pa.trace) + [(pa.kind, pa.value, pa.env)]
                    best, bl = None, -1
                    for pb in cb:
                        eb = list(pb.trace) + [(pb.kind, pb.value, pb.env)]
                        k = 0
                        while k < min(len(ea), len(eb)) and ea[k] == eb[k]: k += 1
                        if k > bl: best, bl = eb, k
                    print("   first difference at event", bl)
                    print("     cur:", str(ea[bl] if bl < len(ea) else "<end>")[:700])
                    if best is not None: print("     ref:", str(best[bl] if bl < len(best) else "<end>")[:700])
finally:
    subprocess.run(["git", "-C", "/repo", "worktree", "remove", "--force", wt])
