#!/usr/bin/env python3
"""Regenerates /verif/MANIFEST.json from the rule modules present (kept in git; run by hand)."""
import importlib, json, os, sys
ROOT = os.path.dirname(os.path.dirname(os.path.abspath(__file__)))
sys.path.insert(0, ROOT)
props = [json.loads(l) for l in open(os.path.join(ROOT, "properties.jsonl"))]
NA = json.load(open(os.path.join(ROOT, "tools", "not_applicable.json")))
checks, na = [], []
for p in props:
    pid = p["id"]
    path = os.path.join(ROOT, "hsa", "rules", pid.lower() + ".py")
    if pid in NA or not os.path.exists(path):
        na.append({"property_id": pid, "reason": NA.get(pid, "check not built yet (static rules designed in DESIGN.md section 4)")})
        continue
    mod = importlib.import_module(f"hsa.rules.{pid.lower()}")
    checks.append({
        "property_id": pid,
        "quick_cmd": f"./check {pid} --tier quick",
        "thorough_cmd": f"./check {pid} --tier thorough",
        "evidence_file": f"/verif/evidence/{pid}.json",
        "replay_cmd_template": f"./check {pid} --replay {{path}}",
        "engine": "hsa",
        "level_claimed": {
            "category": "other",
            "text": "static analysis of /repo's source (no execution): " + mod.EXPLANATION,
            "design_ref": f"DESIGN.md section 4 ({pid})",
        },
        "level_note": "Decides the named structural clauses (necessary conditions of the property) on every syntactic path / every table entry; does not decide the run-time behaviour itself. Trusted: CPython ast, the hsa engine, frozen spec tables (hash-checked where possible). Assumes: " + "; ".join(getattr(mod, "ASSUMPTIONS", [])),
        "technique": getattr(mod, "TECHNIQUE", "static analysis: AST/CFG rules (guard dominance, must-pass-through, table agreement, sibling agreement) over the parsed source"),
    })
manifest = {
    "version": 1,
    "setup_cmd": "/venv/bin/python -S -m compileall -q /verif/hsa >/dev/null 2>&1 || true; test -x /verif/check",
    "hooks": {
        "guard": "HALMOS_VERIF",
        "enable": "no hooks are needed: the checkers only parse source files; nothing in /repo is instrumented",
        "baseline_off_cmd": "cd /repo && /venv/bin/python -m pytest -ra -q -p no:cacheprovider --timeout=900 --continue-on-collection-errors",
        "source_commits": [],
        "add_only": True,
    },
    "engines": [{
        "name": "hsa",
        "path": "/verif/hsa",
        "serves_properties": [c["property_id"] for c in checks],
        "kind_free_text": "repo-specific static analysis over Python AST: constant folder, guard/dominance extraction, path-sensitive structured flow walker, stack-effect abstract interpreter, table/sibling agreement; a reference-alignment layer (alpha-renaming, wrapper inlining, re-nesting of moved closures, path-summary equivalence with the reviewed snapshot, effect analysis) makes the rules insensitive to behaviour-preserving rewrites; stdlib only; halmos is never imported or run",
    }],
    "checks": checks,
    "not_applicable": na,
    "notes": "exit 0 = all rule instances hold (KNOWN-FINDING lines allowed); exit 1 + VIOLATION line = unlisted violation; exit 2 + ANALYSIS-ERROR = the checker could not decide (anchor vanished / unknown idiom). Known findings: /verif/known_findings.json.",
}
json.dump(manifest, open(os.path.join(ROOT, "MANIFEST.json"), "w"), indent=1)
print(f"{len(checks)} checks, {len(na)} not_applicable")
