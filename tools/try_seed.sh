#!/bin/bash
# usage: tools/try_seed.sh <seed dir containing patch.diff, demo.py, meta.json> [--full]
# Verifies a seeded change in a scratch worktree (never in /repo): demo fails with / passes without,
# test suite still 306 passed, and runs every hsa check against the patched tree.
set -u
D="$1"; FULL="${2:-}"
WT=/tmp/verify_wt_$$
git -C /repo worktree add -q --detach "$WT" HEAD || exit 3
trap 'git -C /repo worktree remove --force "$WT" >/dev/null 2>&1' EXIT
cd "$WT"
echo "== demo WITHOUT change"; PYTHONPATH="$WT/src" timeout 300 /venv/bin/python "$D/demo.py" 2>&1 | tail -2; echo "exit=$?"
if ! git apply --check "$D/patch.diff" 2>/dev/null; then echo "PATCH DOES NOT APPLY"; exit 4; fi
git apply "$D/patch.diff"
echo "== demo WITH change"; PYTHONPATH="$WT/src" timeout 300 /venv/bin/python "$D/demo.py" 2>&1 | tail -2; echo "exit=${PIPESTATUS[0]}"
if [ "$FULL" = "--full" ]; then
  echo "== tests WITH change"; PYTHONPATH="$WT/src" /venv/bin/python -m pytest -q -p no:cacheprovider --timeout=900 --continue-on-collection-errors 2>&1 | tail -1
fi
echo "== checks WITH change"
for p in $(ls /verif/hsa/rules | grep -o '^c[0-9][0-9]' | tr a-z A-Z | sort -u); do
  out=$(/verif/check $p --repo "$WT" --no-evidence 2>&1); rc=$?
  if [ $rc -ne 0 ]; then echo "$p exit=$rc"; echo "$out" | grep -E "^\s+R[0-9]|->|ANALYSIS" | head -6; fi
done
echo "== done"
