#!/usr/bin/env python3
"""Apply each property-preserving patch (/verif/benign/*.diff: refactorings; /verif/neutral/*.diff: behaviour changes that
cannot affect a property) in a scratch worktree and list every check that
raises an alarm (exit != 0).  Any alarm here is a false alarm of the checker to be analysed and corrected.

usage: try_benign.py [-v] [patch.diff ...]      (default: the whole corpus, 16 at a time)"""
import concurrent.futures as cf
import glob, os, re, subprocess, sys, tempfile

VERB = "-v" in sys.argv
args = [a for a in sys.argv[1:] if a != "-v"]
pats = [os.path.abspath(a) for a in args] or sorted(glob.glob("/verif/benign/*.diff")) + sorted(glob.glob("/verif/neutral/*.diff"))
CHECKS = sorted(f"C{m.group(1)}" for f in os.listdir("/verif/hsa/rules") if (m := re.fullmatch(r"c(\d\d)\.py", f)))


def one(pf):
    wt = tempfile.mkdtemp(prefix="benign_wt_")
    os.rmdir(wt)
    subprocess.run(["git", "-C", "/repo", "worktree", "add", "-q", "--detach", wt, "HEAD"], check=True)
    out = []
    try:
        ap = subprocess.run(["git", "-C", wt, "apply", pf], capture_output=True, text=True)
        if ap.returncode != 0:
            return pf, None, ["DOES NOT APPLY"]
        alarms = []
        for cid in CHECKS:
            r = subprocess.run(["/verif/check", cid, "--repo", wt, "--no-evidence"], capture_output=True, text=True)
            if r.returncode != 0:
                lines = [l for l in r.stdout.splitlines() if re.match(r"^\s+R\d+\.\d+ |^\s+-> |^ANALYSIS", l)]
                alarms.append((cid, r.returncode))
                for l in lines[: (40 if VERB else 6)]:
                    if l not in out:
                        out.append(l)
        return pf, alarms, out
    finally:
        subprocess.run(["git", "-C", "/repo", "worktree", "remove", "--force", wt])


bad = 0
with cf.ThreadPoolExecutor(14) as ex:
    for pf, alarms, out in ex.map(one, pats):
        name = os.path.basename(pf)
        if alarms is None:
            print(name, "DOES NOT APPLY")
            bad += 1
        elif not alarms:
            print(name, "OK")
        else:
            bad += 1
            print(name, f"ALARMS: {alarms}")
            for l in out:
                print("     ", l[:300])
print(f"{len(pats) - bad}/{len(pats)} benign patches raise no alarm")
sys.exit(1 if bad else 0)
