#!/usr/bin/env python3
"""Prints a markdown table of the seeded changes and the checks/rules that report them (from seeded/*/meta.json)."""
import json, glob, os
rows = []
for f in sorted(glob.glob("/verif/seeded/*/meta.json")):
    m = json.load(open(f))
    sid = os.path.basename(os.path.dirname(f))
    fired = m.get("checks_that_report_it", {})
    own = m["property"]
    cell = "; ".join(f"{c}: {','.join(v['rules'])}" for c, v in sorted(fired.items()))
    rows.append(f"| {sid} | {m.get('summary','')[:150].replace('|','/')} | {m.get('needs_to_manifest','')[:110].replace('|','/')} | {cell} |")
print("| seed | change | needs to manifest | reported by (check: rules) |\n|---|---|---|---|")
print("\n".join(rows))
