#!/venv/bin/python
"""show the normalised view of a function after applying a patch:  tools/show_view.py <patch> <module> <qualname>"""
import ast
import os
import sys

sys.path.insert(0, os.path.join(os.path.dirname(os.path.abspath(__file__)), ".."))
from hsa.core import Repo
from hsa.selftest import apply_unified_diff

patch, mod, qual = sys.argv[1:4]
root = os.environ.get("HSA_REPO", "/repo")


def read_file(rel):
    try:
        return open(os.path.join(root, rel), encoding="utf-8").read()
    except OSError:
        return None


over = apply_unified_diff(open(patch).read(), read_file) if patch != "-" else {}
repo = Repo(root, overrides=over)
m = repo.mod(mod)
print("normalised:", {k: v for k, v in m.normalised.items() if k.startswith("<") or qual.split(".")[-1] in k})
_, fn = repo.fn(f"{mod}.{qual}")
print(ast.unparse(fn))
