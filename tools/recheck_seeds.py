#!/usr/bin/env python3
"""Re-run every check against every stored seeded change (/verif/seeded/<id>/patch.diff) in scratch worktrees, in
parallel, and refresh `checks_that_report_it` / `caught_by_own_property_check` in meta.json.  (Demonstrations and the
test suite were verified when the change was imported; this only re-evaluates the checkers.)
Exit 1 if some change is no longer reported by the check of its own property."""
import concurrent.futures as cf
import json, os, re, subprocess, sys, tempfile

VERIF = "/verif"
ids = sys.argv[1:] or sorted(d for d in os.listdir(f"{VERIF}/seeded") if os.path.isdir(f"{VERIF}/seeded/{d}"))
CHECKS = sorted(f"C{m.group(1)}" for f in os.listdir(f"{VERIF}/hsa/rules") if (m := re.fullmatch(r"c(\d\d)\.py", f)))


def one(sid):
    d = f"{VERIF}/seeded/{sid}"
    wt = tempfile.mkdtemp(prefix="seed_wt_")
    os.rmdir(wt)
    subprocess.run(["git", "-C", "/repo", "worktree", "add", "-q", "--detach", wt, "HEAD"], check=True)
    try:
        ap = subprocess.run(["git", "-C", wt, "apply", f"{d}/patch.diff"], capture_output=True, text=True)
        if ap.returncode != 0:
            return sid, None
        fired = {}
        for cid in CHECKS:
            r = subprocess.run([f"{VERIF}/check", cid, "--repo", wt, "--no-evidence"], capture_output=True, text=True)
            if r.returncode != 0:
                fired[cid] = {"exit": r.returncode, "rules": sorted(set(re.findall(r"^\s+(R\d+\.\d+) ", r.stdout, re.M)))}
        return sid, fired
    finally:
        subprocess.run(["git", "-C", "/repo", "worktree", "remove", "--force", wt])


missed = 0
with cf.ThreadPoolExecutor(14) as ex:
    for sid, fired in ex.map(one, ids):
        prop = sid.split("-")[0]
        if fired is None:
            print(sid, "PATCH DOES NOT APPLY")
            missed += 1
            continue
        own = prop in fired and fired[prop]["exit"] == 1
        mp = f"{VERIF}/seeded/{sid}/meta.json"
        meta = json.load(open(mp))
        meta["checks_that_report_it"] = fired
        meta["caught_by_own_property_check"] = own
        json.dump(meta, open(mp, "w"), indent=1)
        print(sid, "detected" if own else "MISSED", {c: v["rules"] for c, v in fired.items()})
        missed += 0 if own else 1
print(f"{len(ids) - missed}/{len(ids)} seeded changes reported by the check of their own property")
sys.exit(1 if missed else 0)
