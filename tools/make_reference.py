#!/usr/bin/env python3
"""Re-snapshot the reviewed reference (hsa/reference/*.ref) from a reviewed tree.

The reference is what the alignment layer views the current tree against (names of locals, helper structure, function
names and signatures).  It is a copy of src/halmos/*.py of a tree on which every check was run and read by a person.
Run this ONLY on a tree whose every alarm was reviewed by a person: either `./check Cxx` is clean for every property, or
each remaining alarm was read, found to be the shape change of a correct refactoring (as for `benign_unresolved/`), and
the anchors / instance tables of the rules concerned were updated with it.  It never runs as part of a check.

    tools/make_reference.py [/path/to/repo]
"""
import os
import shutil
import sys

root = sys.argv[1] if len(sys.argv) > 1 else os.environ.get("HSA_REPO", "/repo")
src = os.path.join(root, "src", "halmos")
dst = os.path.join(os.path.dirname(os.path.abspath(__file__)), "..", "hsa", "reference")
n = 0
for f in sorted(os.listdir(src)):
    if f.endswith(".py"):
        shutil.copyfile(os.path.join(src, f), os.path.join(dst, f[:-3] + ".ref"))
        n += 1
print(f"reference: {n} modules copied from {src}")
