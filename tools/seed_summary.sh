#!/bin/bash
# usage: tools/seed_summary.sh <Cxx> ... : one line per seeded change under /tmp/seedout/<Cxx>/change*
for P in "$@"; do for D in /tmp/seedout/$P/change*; do
  [ -f "$D/patch.diff" ] || continue
  out=$(/verif/tools/try_seed.sh "$D" --full 2>&1)
  wo=$(echo "$out" | awk '/demo WITHOUT/{f=1;next} /exit=/{if(f){print;f=0}}' | head -1)
  wi=$(echo "$out" | awk '/demo WITH change/{f=1;next} /exit=/{if(f){print;f=0}}' | head -1)
  tests=$(echo "$out" | grep -A1 "tests WITH" | tail -1)
  fired=$(echo "$out" | grep -E "^C[0-9]+ exit=" | tr '\n' ' ')
  rules=$(echo "$out" | grep -E "^\s+R[0-9]+\.[0-9]+ " | awk '{print $1}' | sort -u | tr '\n' ' ')
  echo "$P $(basename $D): demo_without[$wo] demo_with[$wi] tests[$tests] checks_fired[$fired] rules[$rules]"
  echo "$out" | grep -q "PATCH DOES NOT APPLY" && echo "   !! patch does not apply"
done; done
