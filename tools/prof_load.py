#!/usr/bin/env python3
"""profile Repo() loading (normalisation + equivalence) on a patched scratch worktree"""
import sys, subprocess, tempfile, os, time, cProfile, pstats
sys.path.insert(0,'/verif')
pf=os.path.abspath(sys.argv[1])
wt=tempfile.mkdtemp(prefix="bn_"); os.rmdir(wt)
subprocess.run(["git","-C","/repo","worktree","add","-q","--detach",wt,"HEAD"],check=True)
try:
    subprocess.run(["git","-C",wt,"apply",pf],check=True)
    from hsa.core import Repo
    pr=cProfile.Profile(); pr.enable()
    t=time.time()
    r=Repo(wt)
    pr.disable()
    print("load", round(time.time()-t,2))
    pstats.Stats(pr).sort_stats("cumulative").print_stats(22)
finally:
    subprocess.run(["git","-C","/repo","worktree","remove","--force",wt])
