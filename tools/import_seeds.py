#!/usr/bin/env python3
"""Verify every seeded change under /tmp/seedout/<Cxx>/change<k> in a scratch worktree and copy the verified
ones to /verif/seeded/<Cxx>-<k>/ (patch.diff, demo.py, meta.json with what was run and which checks fire)."""
import json, os, re, shutil, subprocess, sys, tempfile

VERIF = "/verif"
SRC = next((a.split("=", 1)[1] for a in sys.argv[1:] if a.startswith("--src=")), "/tmp/seedout")
OFFSET = int(next((a.split("=", 1)[1] for a in sys.argv[1:] if a.startswith("--offset=")), 0))
props = [a for a in sys.argv[1:] if not a.startswith("--")] or sorted(d for d in os.listdir(SRC) if re.fullmatch(r"C\d\d", d))
rows = []
for p in props:
    base = f"{SRC}/{p}"
    for ch in sorted(os.listdir(base)):
        d = os.path.join(base, ch)
        if not os.path.isfile(os.path.join(d, "patch.diff")) or not os.path.isfile(os.path.join(d, "demo.py")):
            continue
        k = str(int(ch.replace("change", "")) + OFFSET)
        wt = tempfile.mkdtemp(prefix="verify_wt_")
        os.rmdir(wt)
        subprocess.run(["git", "-C", "/repo", "worktree", "add", "-q", "--detach", wt, "HEAD"], check=True)
        try:
            env = dict(os.environ, PYTHONPATH=f"{wt}/src")
            def demo():
                try:
                    r = subprocess.run(["/venv/bin/python", os.path.join(d, "demo.py")], cwd=wt, env=env, capture_output=True, text=True, timeout=600)
                    return r.returncode, (r.stdout.strip().splitlines() or [""])[-1][:200]
                except subprocess.TimeoutExpired:
                    return -9, "timeout"
            rc0, out0 = demo()
            ap = subprocess.run(["git", "-C", wt, "apply", os.path.join(d, "patch.diff")], capture_output=True, text=True)
            if ap.returncode != 0:
                rows.append((p, k, "patch does not apply")); continue
            rc1, out1 = demo()
            t = subprocess.run(["/venv/bin/python", "-m", "pytest", "-q", "-p", "no:cacheprovider", "--timeout=900", "--continue-on-collection-errors"], cwd=wt, env=env, capture_output=True, text=True)
            tests = (t.stdout.strip().splitlines() or [""])[-1]
            fired = {}
            for f in sorted(os.listdir(f"{VERIF}/hsa/rules")):
                mm = re.fullmatch(r"c(\d\d)\.py", f)
                if not mm:
                    continue
                cid = f"C{mm.group(1)}"
                r = subprocess.run([f"{VERIF}/check", cid, "--repo", wt, "--no-evidence"], capture_output=True, text=True)
                if r.returncode != 0:
                    rules = sorted(set(re.findall(r"^\s+(R\d+\.\d+) ", r.stdout, re.M)))
                    fired[cid] = {"exit": r.returncode, "rules": rules}
            ok = rc0 == 0 and rc1 == 1 and "306 passed" in tests
            meta = {}
            try:
                meta = json.load(open(os.path.join(d, "meta.json")))
            except Exception:
                pass
            meta.update({
                "property": p,
                "verified_by_main_session": ok,
                "what_i_ran": [
                    "scratch worktree of /repo HEAD (removed afterwards); PYTHONPATH=<wt>/src /venv/bin/python demo.py before and after `git apply patch.diff`",
                    "PYTHONPATH=<wt>/src /venv/bin/python -m pytest -q -p no:cacheprovider --timeout=900 --continue-on-collection-errors (with the patch)",
                    "/verif/check <Cxx> --repo <wt> for every claimed property (with the patch)",
                ],
                "demo_without_change_exit": rc0, "demo_without_change_last_line": out0,
                "demo_with_change_exit": rc1, "demo_with_change_last_line": out1,
                "tests_with_change": tests,
                "checks_that_report_it": fired,
                "caught_by_own_property_check": p in fired and fired[p]["exit"] == 1,
            })
            rows.append((p, k, "OK" if ok else f"NOT VERIFIED rc0={rc0} rc1={rc1} {tests}", sorted(fired)))
            if ok:
                dst = f"{VERIF}/seeded/{p}-{k}"
                os.makedirs(dst, exist_ok=True)
                shutil.copy(os.path.join(d, "patch.diff"), dst)
                shutil.copy(os.path.join(d, "demo.py"), dst)
                json.dump(meta, open(os.path.join(dst, "meta.json"), "w"), indent=1)
        finally:
            subprocess.run(["git", "-C", "/repo", "worktree", "remove", "--force", wt])
for r in rows:
    print(*r)
